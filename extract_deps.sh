#!/bin/bash
# usage: extract_deps.sh <repo> <outdir> <crates>   — like extract.sh but wraps every crate of the build (RUSTC_WRAPPER),
# so the dependency crates named in <crates> are dumped too.
set -e
REPO=$1; OUT=$2; CRATES=$3; shift 3
VERIF=$(cd "$(dirname "$0")" && pwd)
mkdir -p "$OUT"
T=$(mktemp -d "$VERIF/.work/tgt.XXXXXX")
trap 'rm -rf "$T"' EXIT
export LD_LIBRARY_PATH=$(rustc +nightly --print sysroot)/lib
cd "$REPO"
CARGO_NET_OFFLINE=true BOFACTS_OUT="$OUT" BOFACTS_CRATES="$CRATES" RUSTFLAGS="-Zmir-opt-level=0 -Awarnings" \
  RUSTC_WRAPPER="$VERIF/bofacts/target/release/bofacts" CARGO_TARGET_DIR="$T" \
  cargo +nightly check --offline -p geo-booleanop >"$OUT/cargo.log" 2>&1 || { tail -30 "$OUT/cargo.log"; exit 2; }
