// minimal JSON value + serializer (the driver has no crate dependencies)
pub enum J {
    Null,
    Bool(bool),
    Num(i128),
    Str(String),
    Arr(Vec<J>),
    Obj(Vec<(String, J)>),
}

impl J {
    pub fn write(&self, out: &mut String) {
        match self {
            J::Null => out.push_str("null"),
            J::Bool(b) => out.push_str(if *b { "true" } else { "false" }),
            J::Num(n) => out.push_str(&n.to_string()),
            J::Str(s) => esc(s, out),
            J::Arr(v) => {
                out.push('[');
                for (i, x) in v.iter().enumerate() {
                    if i > 0 {
                        out.push(',');
                    }
                    x.write(out);
                }
                out.push(']');
            }
            J::Obj(v) => {
                out.push('{');
                for (i, (k, x)) in v.iter().enumerate() {
                    if i > 0 {
                        out.push(',');
                    }
                    esc(k, out);
                    out.push(':');
                    x.write(out);
                }
                out.push('}');
            }
        }
    }
}

fn esc(s: &str, out: &mut String) {
    out.push('"');
    for c in s.chars() {
        match c {
            '"' => out.push_str("\\\""),
            '\\' => out.push_str("\\\\"),
            '\n' => out.push_str("\\n"),
            '\r' => out.push_str("\\r"),
            '\t' => out.push_str("\\t"),
            c if (c as u32) < 0x20 => out.push_str(&format!("\\u{:04x}", c as u32)),
            c => out.push(c),
        }
    }
    out.push('"');
}
