// bofacts: rustc_private fact extractor for the static checks in /verif.
//
// Used as RUSTC_WORKSPACE_WRAPPER: argv = [bofacts, rustc, <rustc args...>].
// It runs the normal compiler pipeline up to analysis and, for every crate
// whose name is listed in $BOFACTS_CRATES (comma separated), writes one JSON
// file $BOFACTS_OUT/<crate>-<pid>.json with the MIR (opt-level 0, drops
// elaborated) of every local body plus type / item facts. Nothing of the
// analysed crate is executed.
#![feature(rustc_private)]
#![allow(clippy::all)]

extern crate rustc_abi;
extern crate rustc_driver;
extern crate rustc_hir;
extern crate rustc_interface;
extern crate rustc_middle;
extern crate rustc_session;
extern crate rustc_span;

mod json;
use json::J;

use rustc_driver::{Callbacks, Compilation};
use rustc_hir as hir;
use rustc_hir::def::DefKind;
use rustc_hir::def_id::{DefId, LocalDefId};
use rustc_middle::mir::{
    self, AggregateKind, BasicBlockData, Body, BorrowKind, ConstOperand, Operand, Place, PlaceElem, Rvalue, Statement,
    StatementKind, Terminator, TerminatorKind,
};
use rustc_middle::ty::{self, GenericArgsRef, Instance, Ty, TyCtxt, TypingEnv};
use rustc_span::Span;
use std::collections::{BTreeMap, BTreeSet};

struct Cb;

impl Callbacks for Cb {
    fn after_analysis<'tcx>(&mut self, _c: &rustc_interface::interface::Compiler, tcx: TyCtxt<'tcx>) -> Compilation {
        let want = std::env::var("BOFACTS_CRATES").unwrap_or_default();
        let name = tcx.crate_name(rustc_span::def_id::LOCAL_CRATE).to_string();
        if want.split(',').any(|w| w == name) {
            if let Ok(out) = std::env::var("BOFACTS_OUT") {
                let j = Extract::new(tcx).run(&name);
                let mut s = String::new();
                j.write(&mut s);
                let path = format!("{}/{}-{}.json", out, name, std::process::id());
                std::fs::write(&path, s).expect("bofacts: cannot write fact file");
            }
        }
        Compilation::Continue
    }
}

fn main() {
    let mut args: Vec<String> = std::env::args().collect();
    // wrapper convention: argv[1] is the path of the real rustc
    if args.len() > 1 && (args[1].ends_with("rustc") || args[1].contains("/rustc")) {
        args.remove(1);
    }
    rustc_driver::run_compiler(&args, &mut Cb);
}

struct Extract<'tcx> {
    tcx: TyCtxt<'tcx>,
    drop_types: BTreeMap<String, Ty<'tcx>>,
    sig_types: BTreeMap<String, Ty<'tcx>>,
}

fn s(x: impl Into<String>) -> J {
    J::Str(x.into())
}
fn n(x: impl TryInto<i128>) -> J {
    match x.try_into() {
        Ok(v) => J::Num(v),
        Err(_) => J::Null,
    }
}
fn obj(v: Vec<(&str, J)>) -> J {
    J::Obj(v.into_iter().map(|(k, v)| (k.to_string(), v)).collect())
}

impl<'tcx> Extract<'tcx> {
    fn new(tcx: TyCtxt<'tcx>) -> Self {
        Extract {
            tcx,
            drop_types: BTreeMap::new(),
            sig_types: BTreeMap::new(),
        }
    }

    fn path(&self, d: DefId) -> String {
        self.tcx.def_path_str(d)
    }

    fn span_info(&self, sp: Span) -> (String, usize, usize, bool) {
        let sm = self.tcx.sess.source_map();
        let exp = sp.from_expansion();
        // for macro expansions, use the outermost call site so lines refer to user code
        let sp2 = sp.source_callsite();
        let lo = sm.lookup_char_pos(sp2.lo());
        let hi = sm.lookup_char_pos(sp2.hi());
        let file = match &lo.file.name {
            rustc_span::FileName::Real(r) => match r.local_path() {
                Some(p) => p.to_string_lossy().to_string(),
                None => format!("{:?}", r),
            },
            other => format!("{:?}", other),
        };
        (file, lo.line, hi.line, exp)
    }

    fn line(&self, sp: Span) -> J {
        let (_, lo, _, _) = self.span_info(sp);
        n(lo as i64)
    }

    fn ty_str(&self, t: Ty<'tcx>) -> String {
        format!("{}", t)
    }

    fn run(mut self, name: &str) -> J {
        let tcx = self.tcx;
        let mut bodies = Vec::new();
        let mut keys: Vec<LocalDefId> = tcx.mir_keys(()).iter().copied().collect();
        keys.sort_by_key(|k| tcx.def_path_str(k.to_def_id()));
        for ldid in keys {
            let did = ldid.to_def_id();
            let kind = tcx.def_kind(did);
            match kind {
                DefKind::Fn | DefKind::AssocFn | DefKind::Closure => {}
                _ => continue, // consts / statics are listed under items
            }
            if tcx.is_constructor(did) {
                continue;
            }
            let body = tcx.optimized_mir(did);
            bodies.push(self.body(did, kind, body, None));
            let promoted = tcx.promoted_mir(did);
            for (idx, pb) in promoted.iter_enumerated() {
                bodies.push(self.body(did, kind, pb, Some(idx.as_usize())));
            }
        }
        let items = self.items();
        let adts = self.adts();
        let unsafe_blocks = self.unsafe_blocks();
        let drop_graph = self.drop_graph();
        let type_reach = self.type_reach();
        let mut feats: Vec<J> = Vec::new();
        for (k, v) in tcx.sess.config.iter() {
            if k.as_str() == "feature" || k.as_str() == "debug_assertions" || k.as_str() == "test" {
                feats.push(s(match v {
                    Some(v) => format!("{}={}", k, v),
                    None => k.to_string(),
                }));
            }
        }
        obj(vec![
            ("crate", s(name)),
            ("cfg", J::Arr(feats)),
            ("debug_assertions", J::Bool(tcx.sess.opts.debug_assertions)),
            ("bodies", J::Arr(bodies)),
            ("items", items),
            ("adts", adts),
            ("unsafe_blocks", unsafe_blocks),
            ("drop_graph", drop_graph),
            ("type_reach", type_reach),
        ])
    }

    // ---------------------------------------------------------------- bodies

    fn body(&mut self, did: DefId, kind: DefKind, body: &Body<'tcx>, promoted: Option<usize>) -> J {
        let tcx = self.tcx;
        let base = self.path(did);
        let id = match promoted {
            Some(i) => format!("{}::{{promoted#{}}}", base, i),
            None => base.clone(),
        };
        let (file, lo, hi, exp) = self.span_info(tcx.def_span(did));
        let (_, _, body_hi, _) = self.span_info(body.span);
        let mut o: Vec<(&str, J)> = vec![
            ("id", s(id)),
            ("def", s(base)),
            ("kind", s(format!("{:?}", kind))),
            ("promoted", match promoted { Some(i) => n(i as i64), None => J::Null }),
            ("file", s(file)),
            ("line_lo", n(lo as i64)),
            ("line_hi", n(hi.max(body_hi) as i64)),
            ("from_expansion", J::Bool(exp)),
            ("arg_count", n(body.arg_count as i64)),
        ];
        // visibility / safety / impl info (guarded: only for fns)
        if matches!(kind, DefKind::Fn | DefKind::AssocFn) && promoted.is_none() {
            let vis = tcx.visibility(did);
            o.push(("vis", s(if vis.is_public() { "pub".to_string() } else { format!("{:?}", vis) })));
            let sig = tcx.fn_sig(did).instantiate_identity().skip_norm_wip().skip_binder();
            o.push(("unsafe_fn", J::Bool(!sig.safety().is_safe())));
            let mut ins = Vec::new();
            for t in sig.inputs() {
                let k = self.ty_str(*t);
                self.sig_types.insert(k.clone(), *t);
                ins.push(s(k));
            }
            let out = self.ty_str(sig.output());
            self.sig_types.insert(out.clone(), sig.output());
            o.push(("sig_inputs", J::Arr(ins)));
            o.push(("sig_output", s(out)));
            let generics = tcx.generics_of(did);
            let mut gs = Vec::new();
            let mut g = Some(generics);
            while let Some(gg) = g {
                for p in &gg.own_params {
                    gs.push(s(p.name.to_string()));
                }
                g = gg.parent.map(|p| tcx.generics_of(p));
            }
            o.push(("generics", J::Arr(gs)));
        }
        // enclosing impl
        let mut owner = did;
        while matches!(tcx.def_kind(owner), DefKind::Closure) {
            owner = tcx.parent(owner);
        }
        if matches!(tcx.def_kind(owner), DefKind::AssocFn) {
            let parent = tcx.parent(owner);
            match tcx.def_kind(parent) {
                DefKind::Impl { of_trait } => {
                    let self_ty = tcx.type_of(parent).instantiate_identity().skip_norm_wip();
                    let mut io: Vec<(&str, J)> = vec![
                        ("self_ty", s(self.ty_str(self_ty))),
                        ("auto_derived", J::Bool(tcx.is_automatically_derived(parent))),
                    ];
                    if of_trait {
                        let tr = tcx.impl_trait_ref(parent).instantiate_identity().skip_norm_wip();
                        io.push(("trait", s(self.path(tr.def_id))));
                        io.push(("trait_args", J::Arr(tr.args.iter().map(|a| s(format!("{}", a))).collect())));
                    } else {
                        io.push(("trait", J::Null));
                    }
                    o.push(("impl", obj(io)));
                }
                DefKind::Trait => {
                    o.push(("trait_default_of", s(self.path(parent))));
                }
                _ => {}
            }
        }
        o.push(("attrs", self.attrs(did)));

        // locals
        let mut names: BTreeMap<usize, String> = BTreeMap::new();
        for vdi in &body.var_debug_info {
            if let mir::VarDebugInfoContents::Place(p) = vdi.value {
                if p.projection.is_empty() {
                    names.entry(p.local.as_usize()).or_insert(vdi.name.to_string());
                }
            }
        }
        let mut locals = Vec::new();
        for (l, d) in body.local_decls.iter_enumerated() {
            locals.push(obj(vec![
                ("ty", s(self.ty_str(d.ty))),
                ("name", match names.get(&l.as_usize()) { Some(x) => s(x.clone()), None => J::Null }),
                ("mut", J::Bool(d.mutability.is_mut())),
            ]));
        }
        o.push(("locals", J::Arr(locals)));

        let typing_env = TypingEnv::post_analysis(tcx, did);
        let mut blocks = Vec::new();
        for (_bb, data) in body.basic_blocks.iter_enumerated() {
            blocks.push(self.block(body, data, typing_env));
        }
        o.push(("blocks", J::Arr(blocks)));
        obj(o)
    }

    fn attrs(&self, did: DefId) -> J {
        let mut v = Vec::new();
        if let Some(l) = did.as_local() {
            let hid = self.tcx.local_def_id_to_hir_id(l);
            for a in self.tcx.hir_attrs(hid) {
                v.push(s(format!("{:?}", a).chars().take(120).collect::<String>()));
            }
        }
        J::Arr(v)
    }

    fn block(&mut self, body: &Body<'tcx>, data: &BasicBlockData<'tcx>, env: TypingEnv<'tcx>) -> J {
        let mut stmts = Vec::new();
        for st in &data.statements {
            if let Some(j) = self.stmt(body, st) {
                stmts.push(j);
            }
        }
        let term = self.term(body, data.terminator(), env);
        obj(vec![
            ("cleanup", J::Bool(data.is_cleanup)),
            ("stmts", J::Arr(stmts)),
            ("term", term),
        ])
    }

    fn stmt(&mut self, body: &Body<'tcx>, st: &Statement<'tcx>) -> Option<J> {
        let line = self.line(st.source_info.span);
        let exp = J::Bool(st.source_info.span.from_expansion());
        match &st.kind {
            StatementKind::Assign(b) => {
                let (p, rv) = &**b;
                Some(obj(vec![
                    ("k", s("assign")),
                    ("place", self.place(body, *p)),
                    ("rv", self.rvalue(body, rv)),
                    ("line", line),
                    ("exp", exp),
                ]))
            }
            StatementKind::SetDiscriminant { place, variant_index } => Some(obj(vec![
                ("k", s("setdiscr")),
                ("place", self.place(body, **place)),
                ("variant", n(variant_index.as_usize() as i64)),
                ("line", line),
            ])),
            StatementKind::Intrinsic(i) => Some(obj(vec![
                ("k", s("intrinsic")),
                ("text", s(format!("{:?}", i))),
                ("line", line),
            ])),
            _ => None,
        }
    }

    fn place(&mut self, body: &Body<'tcx>, p: Place<'tcx>) -> J {
        let tcx = self.tcx;
        let mut projs = Vec::new();
        let mut pty = mir::PlaceTy::from_ty(body.local_decls[p.local].ty);
        for elem in p.projection.iter() {
            let j = match elem {
                PlaceElem::Deref => obj(vec![("k", s("deref"))]),
                PlaceElem::Field(f, fty) => {
                    let mut name = J::Null;
                    if let ty::Adt(adt, _) = pty.ty.kind() {
                        let vidx = pty.variant_index.unwrap_or(rustc_abi::FIRST_VARIANT);
                        if adt.is_enum() || adt.is_struct() || adt.is_union() {
                            let v = adt.variant(vidx);
                            if f.as_usize() < v.fields.len() {
                                name = s(v.fields[f].name.to_string());
                            }
                        }
                    }
                    obj(vec![
                        ("k", s("field")),
                        ("i", n(f.as_usize() as i64)),
                        ("name", name),
                        ("ty", s(self.ty_str(fty))),
                    ])
                }
                PlaceElem::Index(l) => obj(vec![("k", s("index")), ("l", n(l.as_usize() as i64))]),
                PlaceElem::ConstantIndex { offset, min_length, from_end } => obj(vec![
                    ("k", s("constindex")),
                    ("offset", n(offset as i64)),
                    ("min_length", n(min_length as i64)),
                    ("from_end", J::Bool(from_end)),
                ]),
                PlaceElem::Subslice { from, to, from_end } => obj(vec![
                    ("k", s("subslice")),
                    ("from", n(from as i64)),
                    ("to", n(to as i64)),
                    ("from_end", J::Bool(from_end)),
                ]),
                PlaceElem::Downcast(name, v) => {
                    let mut vn = match name {
                        Some(x) => s(x.to_string()),
                        None => J::Null,
                    };
                    if let ty::Adt(adt, _) = pty.ty.kind() {
                        if adt.is_enum() {
                            vn = s(adt.variant(v).name.to_string());
                        }
                    }
                    obj(vec![("k", s("downcast")), ("v", vn), ("i", n(v.as_usize() as i64))])
                }
                PlaceElem::OpaqueCast(t) => obj(vec![("k", s("opaquecast")), ("ty", s(self.ty_str(t)))]),
                PlaceElem::UnwrapUnsafeBinder(t) => obj(vec![("k", s("unwrapbinder")), ("ty", s(self.ty_str(t)))]),
            };
            projs.push(j);
            pty = pty.projection_ty(tcx, elem);
        }
        obj(vec![
            ("l", n(p.local.as_usize() as i64)),
            ("p", J::Arr(projs)),
            ("ty", s(self.ty_str(pty.ty))),
        ])
    }

    fn operand(&mut self, body: &Body<'tcx>, op: &Operand<'tcx>) -> J {
        match op {
            Operand::Copy(p) => obj(vec![("k", s("copy")), ("place", self.place(body, *p))]),
            Operand::Move(p) => obj(vec![("k", s("move")), ("place", self.place(body, *p))]),
            Operand::Constant(c) => self.constant(c),
            #[allow(unreachable_patterns)]
            other => obj(vec![("k", s("other")), ("text", s(format!("{:?}", other)))]),
        }
    }

    fn constant(&mut self, c: &ConstOperand<'tcx>) -> J {
        let tcx = self.tcx;
        let ty = c.const_.ty();
        let mut o: Vec<(&str, J)> = vec![("k", s("const")), ("ty", s(self.ty_str(ty)))];
        match ty.kind() {
            ty::FnDef(d, args) => {
                o.push(("fn", s(self.path(*d))));
                o.push(("fn_args", J::Arr(args.iter().map(|a| s(format!("{}", a))).collect())));
                return obj(o);
            }
            _ => {}
        }
        match c.const_ {
            mir::Const::Unevaluated(u, _) => {
                if let Some(p) = u.promoted {
                    o.push(("promoted", n(p.as_usize() as i64)));
                    o.push(("promoted_of", s(self.path(u.def))));
                } else {
                    o.push(("unevaluated", s(self.path(u.def))));
                    o.push(("uneval_args", J::Arr(u.args.iter().map(|a| s(format!("{}", a))).collect())));
                }
            }
            mir::Const::Val(v, _) => {
                if let Some(si) = v.try_to_scalar_int() {
                    let size = si.size();
                    let bits = si.to_bits(size);
                    o.push(("bits", s(format!("{}", bits))));
                    o.push(("size", n(size.bytes() as i64)));
                    match ty.kind() {
                        ty::Bool => o.push(("val", J::Bool(bits != 0))),
                        ty::Int(_) => {
                            let sv = size.sign_extend(bits) as i128;
                            o.push(("val", J::Num(sv)));
                        }
                        ty::Uint(_) => o.push(("val", s(format!("{}", bits)))),
                        ty::Float(_) => {
                            let f = if size.bytes() == 4 {
                                f32::from_bits(bits as u32) as f64
                            } else {
                                f64::from_bits(bits as u64)
                            };
                            o.push(("float", s(format!("{:?}", f))));
                        }
                        ty::Adt(adt, _) if adt.is_enum() => {
                            for (vidx, discr) in adt.discriminants(tcx) {
                                if discr.val == bits {
                                    o.push(("variant", s(adt.variant(vidx).name.to_string())));
                                }
                            }
                        }
                        _ => {}
                    }
                } else {
                    o.push(("text", s(format!("{}", c.const_).chars().take(200).collect::<String>())));
                }
            }
            mir::Const::Ty(_, ct) => {
                o.push(("tyconst", s(format!("{}", ct))));
            }
        }
        obj(o)
    }

    fn rvalue(&mut self, body: &Body<'tcx>, rv: &Rvalue<'tcx>) -> J {
        match rv {
            Rvalue::Use(op, ..) => obj(vec![("k", s("use")), ("op", self.operand(body, op))]),
            Rvalue::Repeat(op, c) => obj(vec![
                ("k", s("repeat")),
                ("op", self.operand(body, op)),
                ("count", s(format!("{}", c))),
            ]),
            Rvalue::Ref(_, bk, p) => obj(vec![
                ("k", s("ref")),
                ("mut", J::Bool(matches!(bk, BorrowKind::Mut { .. }))),
                ("bk", s(format!("{:?}", bk))),
                ("place", self.place(body, *p)),
            ]),
            Rvalue::ThreadLocalRef(d) => obj(vec![("k", s("threadlocalref")), ("def", s(self.path(*d)))]),
            Rvalue::RawPtr(k, p) => obj(vec![
                ("k", s("rawptr")),
                ("kind", s(format!("{:?}", k))),
                ("place", self.place(body, *p)),
            ]),
            Rvalue::Cast(k, op, t) => {
                let from = op.ty(&body.local_decls, self.tcx);
                obj(vec![
                    ("k", s("cast")),
                    ("kind", s(format!("{:?}", k))),
                    ("op", self.operand(body, op)),
                    ("from", s(self.ty_str(from))),
                    ("to", s(self.ty_str(*t))),
                ])
            }
            Rvalue::BinaryOp(op, b) => obj(vec![
                ("k", s("binop")),
                ("op", s(format!("{:?}", op))),
                ("a", self.operand(body, &b.0)),
                ("b", self.operand(body, &b.1)),
                ("aty", s(self.ty_str(b.0.ty(&body.local_decls, self.tcx)))),
            ]),
            Rvalue::UnaryOp(op, a) => obj(vec![
                ("k", s("unop")),
                ("op", s(format!("{:?}", op))),
                ("a", self.operand(body, a)),
            ]),
            Rvalue::Discriminant(p) => obj(vec![("k", s("discr")), ("place", self.place(body, *p))]),
            Rvalue::Aggregate(kind, fields) => {
                let mut o: Vec<(&str, J)> = vec![("k", s("aggregate"))];
                match &**kind {
                    AggregateKind::Array(t) => {
                        o.push(("agg", s("array")));
                        o.push(("elem_ty", s(self.ty_str(*t))));
                    }
                    AggregateKind::Tuple => o.push(("agg", s("tuple"))),
                    AggregateKind::Adt(d, v, args, _, _) => {
                        o.push(("agg", s("adt")));
                        o.push(("adt", s(self.path(*d))));
                        let adt = self.tcx.adt_def(*d);
                        o.push(("variant", s(adt.variant(*v).name.to_string())));
                        o.push(("variant_idx", n(v.as_usize() as i64)));
                        o.push(("adt_args", J::Arr(args.iter().map(|a| s(format!("{}", a))).collect())));
                        o.push((
                            "field_names",
                            J::Arr(adt.variant(*v).fields.iter().map(|f| s(f.name.to_string())).collect()),
                        ));
                    }
                    AggregateKind::Closure(d, _) => {
                        o.push(("agg", s("closure")));
                        o.push(("closure", s(self.path(*d))));
                    }
                    other => {
                        o.push(("agg", s("other")));
                        o.push(("text", s(format!("{:?}", other))));
                    }
                }
                let fs: Vec<J> = fields.iter().map(|f| self.operand(body, f)).collect();
                o.push(("fields", J::Arr(fs)));
                obj(o)
            }
            Rvalue::CopyForDeref(p) => obj(vec![("k", s("copyforderef")), ("place", self.place(body, *p))]),
            Rvalue::WrapUnsafeBinder(op, t) => obj(vec![
                ("k", s("wrapbinder")),
                ("op", self.operand(body, op)),
                ("ty", s(self.ty_str(*t))),
            ]),
            #[allow(unreachable_patterns)]
            other => obj(vec![("k", s("other")), ("text", s(format!("{:?}", other)))]),
        }
    }

    fn callee(&mut self, body: &Body<'tcx>, func: &Operand<'tcx>, env: TypingEnv<'tcx>) -> J {
        let tcx = self.tcx;
        let fty = func.ty(&body.local_decls, tcx);
        match fty.kind() {
            ty::FnDef(d, args) => {
                let mut o: Vec<(&str, J)> = vec![
                    ("def", s(self.path(*d))),
                    ("args", J::Arr(args.iter().map(|a| s(format!("{}", a))).collect())),
                    ("local", J::Bool(d.is_local())),
                ];
                // is it a trait method?
                if let Some(tr) = tcx.trait_of_assoc(*d) {
                    o.push(("trait", s(self.path(tr))));
                    o.push(("method", s(tcx.item_name(*d).to_string())));
                } else if let Some(imp) = tcx.impl_of_assoc(*d) {
                    let st = tcx.type_of(imp).instantiate_identity().skip_norm_wip();
                    o.push(("impl_self", s(self.ty_str(st))));
                    o.push(("method", s(tcx.item_name(*d).to_string())));
                }
                let res = Instance::try_resolve(tcx, env, *d, args);
                match res {
                    Ok(Some(inst)) => {
                        let rd = inst.def_id();
                        let kind = match inst.def {
                            ty::InstanceKind::Item(_) => "item",
                            ty::InstanceKind::Intrinsic(_) => "intrinsic",
                            ty::InstanceKind::Virtual(..) => "virtual",
                            ty::InstanceKind::FnPtrShim(..) => "fnptrshim",
                            ty::InstanceKind::ClosureOnceShim { .. } => "closureonceshim",
                            ty::InstanceKind::DropGlue(..) => "dropglue",
                            ty::InstanceKind::CloneShim(..) => "cloneshim",
                            ty::InstanceKind::ReifyShim(..) => "reifyshim",
                            _ => "othershim",
                        };
                        let mut r: Vec<(&str, J)> = vec![
                            ("def", s(self.path(rd))),
                            ("kind", s(kind)),
                            ("local", J::Bool(rd.is_local())),
                            ("args", J::Arr(inst.args.iter().map(|a| s(format!("{}", a))).collect())),
                            ("krate", s(tcx.crate_name(rd.krate).to_string())),
                        ];
                        if let Some(imp) = tcx.impl_of_assoc(rd) {
                            let st = tcx.type_of(imp).instantiate_identity().skip_norm_wip();
                            r.push(("impl_self", s(self.ty_str(st))));
                            r.push(("auto_derived", J::Bool(tcx.is_automatically_derived(imp))));
                        }
                        if let ty::InstanceKind::DropGlue(_, Some(t)) = inst.def {
                            r.push(("drop_ty", s(self.ty_str(t))));
                            self.drop_types.insert(self.ty_str(t), t);
                        }
                        if let ty::InstanceKind::CloneShim(_, t) = inst.def {
                            r.push(("clone_ty", s(self.ty_str(t))));
                        }
                        o.push(("resolved", obj(r)));
                    }
                    _ => o.push(("resolved", J::Null)),
                }
                obj(o)
            }
            ty::FnPtr(..) => obj(vec![("fnptr", self.operand(body, func)), ("ty", s(self.ty_str(fty)))]),
            _ => obj(vec![("indirect", self.operand(body, func)), ("ty", s(self.ty_str(fty)))]),
        }
    }

    fn term(&mut self, body: &Body<'tcx>, t: &Terminator<'tcx>, env: TypingEnv<'tcx>) -> J {
        let line = self.line(t.source_info.span);
        let exp = J::Bool(t.source_info.span.from_expansion());
        let bb = |b: mir::BasicBlock| n(b.as_usize() as i64);
        let unwind = |u: &mir::UnwindAction| match u {
            mir::UnwindAction::Cleanup(b) => n(b.as_usize() as i64),
            _ => J::Null,
        };
        let mut o: Vec<(&str, J)> = Vec::new();
        match &t.kind {
            TerminatorKind::Goto { target } => {
                o.push(("k", s("goto")));
                o.push(("target", bb(*target)));
            }
            TerminatorKind::SwitchInt { discr, targets } => {
                o.push(("k", s("switch")));
                o.push(("discr", self.operand(body, discr)));
                let dty = discr.ty(&body.local_decls, self.tcx);
                o.push(("discr_ty", s(self.ty_str(dty))));
                let mut ts = Vec::new();
                for (v, b) in targets.iter() {
                    ts.push(J::Arr(vec![s(format!("{}", v)), bb(b)]));
                }
                o.push(("targets", J::Arr(ts)));
                o.push(("otherwise", bb(targets.otherwise())));
            }
            TerminatorKind::UnwindResume => o.push(("k", s("resume"))),
            TerminatorKind::UnwindTerminate(_) => o.push(("k", s("terminate"))),
            TerminatorKind::Return => o.push(("k", s("return"))),
            TerminatorKind::Unreachable => o.push(("k", s("unreachable"))),
            TerminatorKind::Drop { place, target, unwind: u, replace, .. } => {
                o.push(("k", s("drop")));
                o.push(("place", self.place(body, *place)));
                let pt = place.ty(&body.local_decls, self.tcx).ty;
                let k = self.ty_str(pt);
                o.push(("ty", s(k.clone())));
                o.push(("needs_drop", J::Bool(pt.needs_drop(self.tcx, env))));
                self.drop_types.insert(k, pt);
                o.push(("target", bb(*target)));
                o.push(("unwind", unwind(u)));
                o.push(("replace", J::Bool(*replace)));
            }
            TerminatorKind::Call { func, args, destination, target, unwind: u, fn_span, .. } => {
                o.push(("k", s("call")));
                o.push(("callee", self.callee(body, func, env)));
                let a: Vec<J> = args.iter().map(|x| self.operand(body, &x.node)).collect();
                o.push(("args", J::Arr(a)));
                o.push(("dest", self.place(body, *destination)));
                o.push(("target", match target { Some(b) => bb(*b), None => J::Null }));
                o.push(("unwind", unwind(u)));
                o.push(("fn_line", self.line(*fn_span)));
            }
            TerminatorKind::TailCall { func, args, .. } => {
                o.push(("k", s("tailcall")));
                o.push(("callee", self.callee(body, func, env)));
                let a: Vec<J> = args.iter().map(|x| self.operand(body, &x.node)).collect();
                o.push(("args", J::Arr(a)));
            }
            TerminatorKind::Assert { cond, expected, msg, target, unwind: u } => {
                o.push(("k", s("assert")));
                o.push(("cond", self.operand(body, cond)));
                o.push(("expected", J::Bool(*expected)));
                let kind = match &**msg {
                    mir::AssertKind::BoundsCheck { len, index } => {
                        o.push(("len", self.operand(body, len)));
                        o.push(("index", self.operand(body, index)));
                        "BoundsCheck".to_string()
                    }
                    mir::AssertKind::Overflow(op, a, b) => {
                        o.push(("a", self.operand(body, a)));
                        o.push(("b", self.operand(body, b)));
                        format!("Overflow({:?})", op)
                    }
                    mir::AssertKind::OverflowNeg(_) => "OverflowNeg".to_string(),
                    mir::AssertKind::DivisionByZero(_) => "DivisionByZero".to_string(),
                    mir::AssertKind::RemainderByZero(_) => "RemainderByZero".to_string(),
                    mir::AssertKind::MisalignedPointerDereference { .. } => "MisalignedPointerDereference".to_string(),
                    mir::AssertKind::NullPointerDereference => "NullPointerDereference".to_string(),
                    other => format!("{:?}", other).chars().take(60).collect(),
                };
                o.push(("assert_kind", s(kind)));
                o.push(("target", bb(*target)));
                o.push(("unwind", unwind(u)));
            }
            TerminatorKind::FalseEdge { real_target, .. } => {
                o.push(("k", s("goto")));
                o.push(("target", bb(*real_target)));
            }
            TerminatorKind::FalseUnwind { real_target, .. } => {
                o.push(("k", s("goto")));
                o.push(("target", bb(*real_target)));
            }
            other => {
                o.push(("k", s("other")));
                o.push(("text", s(format!("{:?}", other).chars().take(80).collect::<String>())));
            }
        }
        o.push(("line", line));
        o.push(("exp", exp));
        obj(o)
    }

    // ----------------------------------------------------------------- items

    fn items(&mut self) -> J {
        let tcx = self.tcx;
        let mut v = Vec::new();
        let mut ids: Vec<LocalDefId> = tcx.hir_crate_items(()).definitions().collect();
        ids.sort_by_key(|k| tcx.def_path_str(k.to_def_id()));
        for l in ids {
            let d = l.to_def_id();
            let kind = tcx.def_kind(d);
            let mut o: Vec<(&str, J)> = vec![("def", s(self.path(d))), ("kind", s(format!("{:?}", kind)))];
            let (file, lo, _, exp) = self.span_info(tcx.def_span(d));
            o.push(("file", s(file)));
            o.push(("line", n(lo as i64)));
            o.push(("from_expansion", J::Bool(exp)));
            match kind {
                DefKind::Static { .. } | DefKind::Const { .. } | DefKind::AssocConst { .. } => {
                    let t = tcx.type_of(d).instantiate_identity().skip_norm_wip();
                    o.push(("ty", s(self.ty_str(t))));
                }
                DefKind::Impl { of_trait } => {
                    let st = tcx.type_of(d).instantiate_identity().skip_norm_wip();
                    o.push(("self_ty", s(self.ty_str(st))));
                    if of_trait {
                        let tr = tcx.impl_trait_ref(d).instantiate_identity().skip_norm_wip();
                        o.push(("trait", s(self.path(tr.def_id))));
                        o.push(("trait_args", J::Arr(tr.args.iter().map(|a| s(format!("{}", a))).collect())));
                        let hdr = tcx.impl_trait_header(d);
                        o.push(("unsafe_impl", J::Bool(!hdr.safety.is_safe())));
                    }
                    o.push(("auto_derived", J::Bool(tcx.is_automatically_derived(d))));
                    let mut ms = Vec::new();
                    for it in tcx.associated_items(d).in_definition_order() {
                        ms.push(s(it.name().to_string()));
                    }
                    o.push(("assoc", J::Arr(ms)));
                }
                DefKind::Fn | DefKind::AssocFn => {
                    let sig = tcx.fn_sig(d).instantiate_identity().skip_norm_wip().skip_binder();
                    o.push(("unsafe_fn", J::Bool(!sig.safety().is_safe())));
                    o.push(("sig", s(format!("{}", sig))));
                    let vis = tcx.visibility(d);
                    o.push(("vis", s(if vis.is_public() { "pub".to_string() } else { format!("{:?}", vis) })));
                    o.push(("has_body", J::Bool(tcx.is_mir_available(d))));
                }
                DefKind::Trait => {
                    let mut ms = Vec::new();
                    for it in tcx.associated_items(d).in_definition_order() {
                        ms.push(s(it.name().to_string()));
                    }
                    o.push(("assoc", J::Arr(ms)));
                }
                _ => {}
            }
            v.push(obj(o));
        }
        J::Arr(v)
    }

    fn adts(&mut self) -> J {
        let tcx = self.tcx;
        let mut v = Vec::new();
        let mut ids: Vec<LocalDefId> = tcx.hir_crate_items(()).definitions().collect();
        ids.sort_by_key(|k| tcx.def_path_str(k.to_def_id()));
        for l in ids {
            let d = l.to_def_id();
            if !matches!(tcx.def_kind(d), DefKind::Struct | DefKind::Enum | DefKind::Union) {
                continue;
            }
            let adt = tcx.adt_def(d);
            let mut vars = Vec::new();
            for (vi, var) in adt.variants().iter_enumerated() {
                let mut fs = Vec::new();
                for f in var.fields.iter() {
                    let ft = tcx.type_of(f.did).instantiate_identity().skip_norm_wip();
                    fs.push(obj(vec![
                        ("name", s(f.name.to_string())),
                        ("ty", s(self.ty_str(ft))),
                        ("pub", J::Bool(f.vis.is_public())),
                    ]));
                }
                let mut discr = J::Null;
                if adt.is_enum() {
                    discr = s(format!("{}", adt.discriminant_for_variant(tcx, vi).val));
                }
                vars.push(obj(vec![
                    ("name", s(var.name.to_string())),
                    ("discr", discr),
                    ("fields", J::Arr(fs)),
                ]));
            }
            v.push(obj(vec![
                ("def", s(self.path(d))),
                ("kind", s(format!("{:?}", tcx.def_kind(d)))),
                ("variants", J::Arr(vars)),
                ("has_dtor", J::Bool(adt.destructor(tcx).is_some())),
            ]));
        }
        J::Arr(v)
    }

    fn unsafe_blocks(&mut self) -> J {
        let tcx = self.tcx;
        let mut out = Vec::new();
        for l in tcx.hir_body_owners() {
            let body = tcx.hir_body_owned_by(l);
            let mut vis = UnsafeVisitor { found: Vec::new() };
            hir::intravisit::Visitor::visit_body(&mut vis, body);
            for sp in vis.found {
                let (file, lo, hi, exp) = self.span_info(sp);
                out.push(obj(vec![
                    ("owner", s(self.path(l.to_def_id()))),
                    ("file", s(file)),
                    ("line_lo", n(lo as i64)),
                    ("line_hi", n(hi as i64)),
                    ("from_expansion", J::Bool(exp)),
                    ("snippet", s(tcx.sess.source_map().span_to_snippet(sp).unwrap_or_default().chars().take(120).collect::<String>())),
                ]));
            }
        }
        J::Arr(out)
    }

    // --------------------------------------------------- drop-glue type graph

    /// For every type seen in a Drop terminator (closed under components):
    /// which Drop impl runs, and which component types are dropped by its glue.
    fn drop_graph(&mut self) -> J {
        let tcx = self.tcx;
        let mut work: Vec<Ty<'tcx>> = self.drop_types.values().copied().collect();
        let mut seen: BTreeSet<String> = BTreeSet::new();
        let mut nodes = Vec::new();
        while let Some(t) = work.pop() {
            let key = self.ty_str(t);
            if !seen.insert(key.clone()) {
                continue;
            }
            let mut comps: Vec<(String, Ty<'tcx>, &'static str)> = Vec::new();
            let mut dtor = J::Null;
            let mut kind = "other";
            match t.kind() {
                ty::Adt(adt, args) => {
                    kind = "adt";
                    let p = self.path(adt.did());
                    if let Some(d) = adt.destructor(tcx) {
                        dtor = obj(vec![("def", s(self.path(d.did))), ("local", J::Bool(d.did.is_local()))]);
                    }
                    let nonowning = p.ends_with("rc::Weak") || p.ends_with("sync::Weak") || p.ends_with("PhantomData");
                    if adt.is_box() {
                        kind = "box";
                        comps.push(("boxed".into(), args.type_at(0), "owned"));
                    } else if !nonowning {
                        for var in adt.variants().iter() {
                            for f in var.fields.iter() {
                                let ft = f.ty(tcx, args);
                                comps.push((format!("field:{}", f.name), ft, "field"));
                            }
                        }
                        // a foreign type with a destructor may own heap values of its
                        // type arguments that are not visible as fields (Vec, Rc, ...)
                        if adt.destructor(tcx).is_some() && !adt.did().is_local() {
                            for a in args.types() {
                                comps.push(("typearg".into(), a, "heap"));
                            }
                        }
                    }
                    let _ = p;
                }
                ty::Tuple(ts) => {
                    kind = "tuple";
                    for (i, e) in ts.iter().enumerate() {
                        comps.push((format!("{}", i), e, "field"));
                    }
                }
                ty::Array(e, _) | ty::Slice(e) => {
                    kind = "array";
                    comps.push(("elem".into(), *e, "field"));
                }
                ty::Closure(_, cargs) => {
                    kind = "closure";
                    for (i, e) in cargs.as_closure().upvar_tys().iter().enumerate() {
                        comps.push((format!("upvar{}", i), e, "field"));
                    }
                }
                ty::Param(_) => kind = "param",
                ty::Ref(..) | ty::RawPtr(..) | ty::FnPtr(..) | ty::FnDef(..) => kind = "pointer",
                ty::Dynamic(..) => kind = "dyn",
                _ => {}
            }
            let mut cj = Vec::new();
            for (label, ct, how) in comps {
                // raw pointers / references / PhantomData own nothing
                let owns = !matches!(ct.kind(), ty::Ref(..) | ty::RawPtr(..) | ty::FnPtr(..) | ty::FnDef(..));
                if !owns {
                    continue;
                }
                cj.push(obj(vec![("label", s(label)), ("ty", s(self.ty_str(ct))), ("how", s(how))]));
                work.push(ct);
            }
            nodes.push(obj(vec![("ty", s(key)), ("kind", s(kind)), ("dtor", dtor), ("comps", J::Arr(cj))]));
        }
        J::Arr(nodes)
    }

    /// For each signature type: every ADT reachable through fields, type
    /// arguments, references and pointers (deep), so rules can ask whether an
    /// UnsafeCell can sit anywhere behind an operand reference.
    fn type_reach(&mut self) -> J {
        let tcx = self.tcx;
        let mut out = Vec::new();
        let types: Vec<(String, Ty<'tcx>)> = self.sig_types.iter().map(|(k, v)| (k.clone(), *v)).collect();
        for (k, t) in types {
            let mut seen_t: BTreeSet<String> = BTreeSet::new();
            let mut adts: BTreeSet<String> = BTreeSet::new();
            let mut work = vec![t];
            while let Some(x) = work.pop() {
                if !seen_t.insert(self.ty_str(x)) {
                    continue;
                }
                match x.kind() {
                    ty::Adt(adt, args) => {
                        adts.insert(self.path(adt.did()));
                        for var in adt.variants().iter() {
                            for f in var.fields.iter() {
                                work.push(f.ty(tcx, args));
                            }
                        }
                        for a in args.types() {
                            work.push(a);
                        }
                    }
                    ty::Ref(_, i, _) => work.push(*i),
                    ty::RawPtr(i, _) => work.push(*i),
                    ty::Array(e, _) | ty::Slice(e) => work.push(*e),
                    ty::Tuple(ts) => {
                        for e in ts.iter() {
                            work.push(e);
                        }
                    }
                    _ => {}
                }
                if seen_t.len() > 4000 {
                    break;
                }
            }
            out.push(obj(vec![
                ("ty", s(k)),
                ("adts", J::Arr(adts.into_iter().map(s).collect())),
            ]));
        }
        J::Arr(out)
    }
}

struct UnsafeVisitor {
    found: Vec<Span>,
}
impl<'v> hir::intravisit::Visitor<'v> for UnsafeVisitor {
    fn visit_block(&mut self, b: &'v hir::Block<'v>) {
        if let hir::BlockCheckMode::UnsafeBlock(_) = b.rules {
            self.found.push(b.span);
        }
        hir::intravisit::walk_block(self, b);
    }
}

#[allow(dead_code)]
fn _unused<'tcx>(_: GenericArgsRef<'tcx>) {}
