#!/bin/bash
# Build the fact extractor (offline, nightly toolchain from bofacts/rust-toolchain.toml).
set -e
cd "$(dirname "$0")"
mkdir -p .work evidence
(cd bofacts && CARGO_NET_OFFLINE=true cargo build --release --offline 2>&1 | tail -3)
test -x bofacts/target/release/bofacts
echo "bofacts built"
