//! Positive controls: every construct below is something a zero-count rule of
//! /verif must find. The crate is only analysed (cargo check), never run.
#![allow(dead_code, unused, invalid_reference_casting, static_mut_refs)]
use std::cell::RefCell;
use std::collections::HashSet;
use std::rc::Rc;

pub static COUNTER: std::sync::atomic::AtomicUsize = std::sync::atomic::AtomicUsize::new(0);
static mut LAST: i32 = 0;
thread_local! { static CACHE: RefCell<Vec<i32>> = RefCell::new(Vec::new()); }

pub unsafe fn raw_read(p: *const i32) -> i32 {
    *p
}

pub struct Wrapper(*mut i32);
unsafe impl Send for Wrapper {}

pub fn unsafe_block_outside_owner(x: &i32) -> i32 {
    let p = x as *const i32 as *mut i32;
    unsafe {
        *p += 1;
        *p
    }
}

pub fn pointer_to_integer(a: &Rc<i32>, b: &Rc<i32>) -> bool {
    let x = Rc::as_ptr(a) as usize;
    let y = Rc::as_ptr(b) as usize;
    x < y
}

pub fn raw_pointer_order(a: *const i32, b: *const i32) -> bool {
    a < b
}

pub fn transmute_cast(x: u32) -> f32 {
    unsafe { std::mem::transmute::<u32, f32>(x) }
}

pub fn ambient_effects() -> u64 {
    let t = std::time::Instant::now();
    let v = std::env::var("HOME").unwrap_or_default();
    println!("{}", v);
    let _ = std::fs::read("/dev/null");
    std::thread::yield_now();
    t.elapsed().as_secs()
}

pub fn thread_local_use(x: i32) -> usize {
    CACHE.with(|c| {
        c.borrow_mut().push(x);
        c.borrow().len()
    })
}

pub fn static_use() -> usize {
    COUNTER.fetch_add(1, std::sync::atomic::Ordering::SeqCst)
}

pub fn hash_iteration(s: &HashSet<i32>) -> Vec<i32> {
    let mut v = Vec::new();
    for x in s {
        v.push(*x);
    }
    v
}

// ---- recursion / drop-glue controls
pub struct Chain {
    next: Option<Box<Chain>>,
    v: i32,
}

pub fn recursive_len(c: &Chain) -> usize {
    match &c.next {
        Some(n) => 1 + recursive_len(n),
        None => 1,
    }
}

pub fn drops_whole_chain(c: Chain) -> i32 {
    c.v
}

// ---- RefCell discipline control: a borrow held across a call that borrows again
pub struct Cellular {
    m: RefCell<i32>,
}
impl Cellular {
    pub fn get(&self) -> i32 {
        *self.m.borrow()
    }
    pub fn double_borrow(&self) -> i32 {
        let mut g = self.m.borrow_mut();
        *g += self.get();
        *g
    }
}

// ---- float controls: absolute tolerance, precision-specific code
pub fn absolute_tolerance(a: f64, b: f64) -> bool {
    (a - b).abs() < 1e-9
}

pub fn width_specific<F: 'static>(x: f64) -> f64 {
    if std::mem::size_of::<F>() == 4 {
        x as f32 as f64
    } else {
        x
    }
}

// ---- index by a possibly negative sentinel
pub fn sentinel_index(v: &[i32], id: i32) -> i32 {
    v[id as usize]
}

// ---- degree control: an absolute tolerance on coordinates
pub struct Pt {
    pub x: f64,
    pub y: f64,
}
pub fn absolute_tolerance_pt(p: &Pt, q: &Pt) -> bool {
    (p.x - q.x).abs() < 1e-9 && p.y * q.y > p.x
}
/// the shape of seed s95: a filter bound that grows linearly with the coordinates, hidden behind inherent f64 methods
pub fn linear_filter_bound(p: &Pt, q: &Pt, r: &Pt) -> bool {
    let (ax, ay) = (q.x - p.x, q.y - p.y);
    let (bx, by) = (r.x - p.x, r.y - p.y);
    let det = ax * by - ay * bx;
    let scale = ax.abs().max(ay.abs()).max(bx.abs()).max(by.abs());
    det.abs() > 8. * f64::EPSILON * scale
}

// ---- evaluator model controls: each function has a known truth table (selftest/models.py compares the explored paths with it)
pub mod models {
    use std::cmp::Ordering;

    pub fn zip_both(a: Option<i32>, b: Option<i32>) -> i32 {
        a.zip(b).map_or(0, |(_x, _y)| 1)
    }

    pub fn filter_pos(a: Option<i32>) -> i32 {
        match a.filter(|x| *x > 0) {
            Some(_) => 1,
            None => 0,
        }
    }

    pub fn or_else_chain(a: Option<i32>, b: Option<i32>) -> i32 {
        match a.or_else(|| b) {
            Some(_) => 1,
            None => 0,
        }
    }

    pub fn then_some_flag(c: bool) -> i32 {
        c.then(|| 7).unwrap_or(3)
    }

    pub fn try_op(a: Option<i32>) -> Option<i32> {
        let x = a?;
        Some(x)
    }

    pub fn three_way(a: f64, b: f64) -> i32 {
        match a.partial_cmp(&b).filter(|o| o.is_ne()) {
            Some(Ordering::Less) => -1,
            Some(Ordering::Greater) => 1,
            _ => 0,
        }
    }

    pub fn ord_then(a: i32, b: i32, c: i32, d: i32) -> bool {
        a.cmp(&b).then_with(|| c.cmp(&d)).is_gt()
    }

    pub fn is_some_and_pos(a: Option<i32>) -> bool {
        a.is_some_and(|x| x > 0)
    }

    pub fn array_map(a: i32, b: i32) -> i32 {
        let [x, y] = [a, b].map(|v| v + 1);
        x - y
    }

    pub fn filter_loop(v: &[i32]) -> i32 {
        let mut n = 0;
        for x in v.iter().filter(|x| **x > 0) {
            if *x > 0 {
                n += 1;
            } else {
                n -= 100;
            }
        }
        n
    }

    /// a loop over a small fixed array of tuples is unrolled: four return paths, no loop head
    pub fn array_loop(a: i32, b: i32) -> i32 {
        let mut n = 0;
        for (x, w) in [(a, 1), (b, 10)] {
            if x > 0 {
                n += w;
            }
        }
        n
    }

    /// consecutive pairs of a slice: the loop body sees one segment (start, end) per iteration
    pub fn pairs_loop(pts: &[(i32, i32)]) -> i32 {
        let mut n = 0;
        for (&a, &b) in pts.iter().zip(pts.iter().skip(1)) {
            if a == b {
                continue;
            }
            n += 1;
        }
        n
    }

    /// `once(a).chain(rest.map(f))`: every item is either the once-value (tag true) or f(element) (tag false)
    pub fn chain_loop(first: i32, rest: &[i32]) -> i32 {
        let mut n = 0;
        for (x, tag) in std::iter::once((first, true)).chain(rest.iter().map(|r| (*r, false))) {
            if tag {
                n += x;
            } else {
                n -= 1;
            }
        }
        n
    }
}
