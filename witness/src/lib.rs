//! Type-level witnesses for /verif (compile-pass / compile-fail doc-tests; nothing here is executed: the passing
//! twins are `no_run`). Each compile_fail witness has a compiling twin that differs only in the offending line, so a
//! witness that fails to compile for the wrong reason is caught.

/// W-pairings (C07, C10): all four operand pairings and all four operations type-check for f32 and f64, operands are
/// taken by shared reference (they are still usable afterwards) and the result is a `MultiPolygon<F>`.
/// ```no_run
/// use geo_booleanop::boolean::BooleanOp;
/// use geo_types::{MultiPolygon, Polygon, LineString};
/// fn all<F: geo_booleanop::boolean::Float>(p: Polygon<F>, m: MultiPolygon<F>) -> Vec<MultiPolygon<F>> {
///     let mut out = Vec::new();
///     out.push(p.intersection(&p)); out.push(p.union(&p)); out.push(p.difference(&p)); out.push(p.xor(&p));
///     out.push(p.intersection(&m)); out.push(p.union(&m)); out.push(p.difference(&m)); out.push(p.xor(&m));
///     out.push(m.intersection(&p)); out.push(m.union(&p)); out.push(m.difference(&p)); out.push(m.xor(&p));
///     out.push(m.intersection(&m)); out.push(m.union(&m)); out.push(m.difference(&m)); out.push(m.xor(&m));
///     drop(p); drop(m);
///     out
/// }
/// let p32: Polygon<f32> = Polygon::new(LineString::from(vec![(0f32, 0f32), (1., 0.), (0., 1.), (0., 0.)]), vec![]);
/// let p64: Polygon<f64> = Polygon::new(LineString::from(vec![(0f64, 0f64), (1., 0.), (0., 1.), (0., 0.)]), vec![]);
/// let _ = all(p32.clone(), MultiPolygon(vec![p32]));
/// let _ = all(p64.clone(), MultiPolygon(vec![p64]));
/// ```
pub struct WPairings;

/// W-pairings twin: integer coordinates are not `Float`.
/// ```compile_fail,E0599
/// use geo_booleanop::boolean::BooleanOp;
/// use geo_types::{Polygon, LineString};
/// let p: Polygon<i32> = Polygon::new(LineString::from(vec![(0, 0), (1, 0), (0, 1), (0, 0)]), vec![]);
/// let _ = p.union(&p);
/// ```
pub struct WPairingsNeg;

/// W-send (C12 D-local): results can cross threads, the per-call sweep state cannot.
/// ```no_run
/// fn assert_send_sync<T: Send + Sync>() {}
/// assert_send_sync::<geo_types::MultiPolygon<f64>>();
/// assert_send_sync::<geo_types::MultiPolygon<f32>>();
/// ```
pub struct WSend;

/// W-send twin: sweep events are reference counted cells.
/// ```compile_fail,E0277
/// fn assert_send_sync<T: Send + Sync>() {}
/// assert_send_sync::<std::rc::Rc<geo_booleanop::boolean::sweep_event::SweepEvent<f64>>>();
/// ```
pub struct WSendNeg;

/// W-send twin 2: the splay tree restructures through `&self` and is therefore not `Sync`.
/// ```compile_fail,E0277
/// fn assert_sync<T: Sync>() {}
/// assert_sync::<geo_booleanop::splay::SplayTree<i32, i32, fn(&i32, &i32) -> std::cmp::Ordering>>();
/// ```
pub struct WSyncNeg;

/// W-sync positive twin for the line above (same shape, a type that is Sync).
/// ```no_run
/// fn assert_sync<T: Sync>() {}
/// assert_sync::<std::collections::BTreeMap<i32, i32>>();
/// ```
pub struct WSyncPos;
