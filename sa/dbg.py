import sys, glob
sys.path.insert(0,'/verif/sa')
from facts import Facts
from models import Purity
from sym import *
def load(p=None):
    import os
    if p is None:
        ds=[d for d in os.listdir('/verif/.work') if d.startswith('facts-') and d.endswith('default')]
        p='/verif/.work/'+sorted(ds, key=lambda d: os.stat('/verif/.work/'+d).st_mtime)[-1]
    return Facts.load(glob.glob(p+'/geo_booleanop-*.json')[0])
def dump(f, name, calls=True, depth0=True, opaque=()):
    pu=Purity(f)
    b=f.body(name)
    ex=Explorer(f,b,pu,opaque=opaque)
    ps=ex.explore()
    print(name,len(ps))
    for p in ps:
        print('  ', p.end, show(p.ret) if p.ret else '', ' | ', ' & '.join('%s %s'%(show(v),c) for v,c in p.conds))
        if calls:
            for e in p.events:
                if depth0 and e.get('depth',0)!=0: continue
                if e['k']=='call': print('       call', short(e['callee']), [show(a) for a in e['args']], 'inl' if e.get('inlined') else '', 'pure' if e.get('pure') else '', 'L%s'%e['line'])
                if e['k']=='store': print('       store', locstr(e['loc']), '<-', show(e['val']), 'depth', e['depth'])
                if e['k']=='assert': print('       assert', e['kind'], show(e['cond']))
                if e['k']=='drop' and e.get('needs_drop'): print('       drop', e['ty'], locstr(e['loc']))
    return ps
if __name__=='__main__':
    f=load()
    dump(f, sys.argv[1], depth0=('-a' not in sys.argv))
