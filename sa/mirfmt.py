"""Pretty printer for fact bodies (debug aid + used in violation reports)."""
from facts import callee_name


def place(b, p):
    s = b.local_name(p['l']) if p['l'] != 0 else '_0'
    for e in p['p']:
        k = e['k']
        if k == 'deref':
            s = '(*%s)' % s
        elif k == 'field':
            s = '%s.%s' % (s, e['name'] if e['name'] is not None else e['i'])
        elif k == 'downcast':
            s = '(%s as %s)' % (s, e['v'])
        elif k == 'index':
            s = '%s[%s]' % (s, b.local_name(e['l']))
        elif k == 'constindex':
            s = '%s[%s%d]' % (s, '-' if e['from_end'] else '', e['offset'])
        else:
            s = '%s.<%s>' % (s, k)
    return s


def operand(b, o):
    k = o['k']
    if k in ('copy', 'move'):
        return ('move ' if k == 'move' else '') + place(b, o['place'])
    if k == 'const':
        if 'fn' in o:
            return 'fn %s' % o['fn']
        if 'variant' in o:
            return '%s::%s' % (o['ty'], o['variant'])
        if 'val' in o:
            return 'const %s' % (o['val'],)
        if 'float' in o:
            return 'const %s_%s' % (o['float'], o['ty'])
        if 'promoted' in o:
            return 'promoted[%d]' % o['promoted']
        if 'unevaluated' in o:
            return 'const %s' % o['unevaluated']
        return 'const <%s: %s>' % (o.get('text', '?'), o['ty'])
    return '<%s>' % k


def rvalue(b, r):
    k = r['k']
    if k == 'use':
        return operand(b, r['op'])
    if k == 'ref':
        return '&%s%s' % ('mut ' if r['mut'] else '', place(b, r['place']))
    if k == 'rawptr':
        return '&raw %s' % place(b, r['place'])
    if k == 'cast':
        return '%s as %s (%s)' % (operand(b, r['op']), r['to'], r['kind'])
    if k == 'binop':
        return '%s(%s, %s)' % (r['op'], operand(b, r['a']), operand(b, r['b']))
    if k == 'unop':
        return '%s(%s)' % (r['op'], operand(b, r['a']))
    if k == 'discr':
        return 'discriminant(%s)' % place(b, r['place'])
    if k == 'aggregate':
        fs = ', '.join(operand(b, f) for f in r['fields'])
        if r['agg'] == 'adt':
            return '%s::%s{%s}' % (r['adt'], r['variant'], fs)
        return '%s(%s)' % (r['agg'], fs)
    if k == 'copyforderef':
        return 'deref_copy %s' % place(b, r['place'])
    return '<%s>' % k


def term(b, t):
    k = t['k']
    if k == 'goto':
        return 'goto -> bb%d' % t['target']
    if k == 'switch':
        return 'switchInt(%s) -> [%s, otherwise: bb%d]' % (
            operand(b, t['discr']), ', '.join('%s: bb%d' % (v, x) for v, x in t['targets']), t['otherwise'])
    if k == 'call':
        return '%s = %s(%s) -> %s' % (place(b, t['dest']), callee_name(t), ', '.join(operand(b, a) for a in t['args']),
                                      'bb%d' % t['target'] if t['target'] is not None else '!')
    if k == 'drop':
        return 'drop(%s: %s) -> bb%d' % (place(b, t['place']), t['ty'], t['target'])
    if k == 'assert':
        return 'assert(%s == %s, %s) -> bb%d' % (operand(b, t['cond']), t['expected'], t['assert_kind'], t['target'])
    return k


def body(b, cleanup=False):
    out = ['fn %s  (%s:%d-%d)' % (b.id, b.file, b.j['line_lo'], b.j['line_hi'])]
    for i, l in enumerate(b.locals):
        out.append('  let _%d%s: %s' % (i, ' /*%s*/' % l['name'] if l['name'] else '', l['ty']))
    for i, bl in enumerate(b.blocks):
        if bl['cleanup'] and not cleanup:
            continue
        out.append(' bb%d:' % i)
        for st in bl['stmts']:
            if st['k'] == 'assign':
                out.append('    %s = %s   // L%s' % (place(b, st['place']), rvalue(b, st['rv']), st['line']))
            else:
                out.append('    <%s>' % st['k'])
        out.append('    %s   // L%s' % (term(b, bl['term']), bl['term']['line']))
    return '\n'.join(out)


if __name__ == '__main__':
    import sys
    from facts import Facts
    f = Facts.load(sys.argv[1])
    for name in sys.argv[2:]:
        bd = f.body(name)
        print(body(bd) if bd else 'no body ' + name)
