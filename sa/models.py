"""Read-only ("pure") classification of callees and models of a few std functions.

`Purity` is a least fixed point over the local bodies: a local function is
read-only when it contains no store through a pointer and every callee is
read-only; foreign callees are read-only when they match the whitelist below
(each entry is a std/num-traits/robust function that only reads its arguments,
or only touches reference counts / borrow flags).
"""
import re
from facts import callee_name, callee_decl

# foreign callees that do not write program-visible state (borrow flags and
# reference counts are not visible to the rules that use this classification)
PURE_FOREIGN = [
    r'^std::cell::RefCell::<T>::borrow$',
    r'^<std::cell::Ref<.*> as std::ops::Deref>::deref$',
    r'^<std::rc::Rc<T.*> as std::ops::Deref>::deref$',
    r'^<std::rc::Rc<T.*> as std::clone::Clone>::clone$',
    r'^<std::rc::Weak<T.*> as std::clone::Clone>::clone$',
    r'^std::rc::Weak::<T.*>::upgrade$',
    r'^std::rc::Weak::<T>::new$',
    r'^std::rc::Rc::<T.*>::downgrade$',
    r'^std::rc::Rc::<T.*>::ptr_eq$',
    r'^<std::vec::Vec<T.*> as std::ops::Deref>::deref$',
    r'^<std::boxed::Box<T.*> as std::ops::Deref>::deref$',
    r'^std::vec::Vec::<T.*>::len$',
    r'^std::vec::Vec::<T.*>::as_slice$',
    r'^std::slice::<impl \[T\]>::len$',
    r'^std::option::Option::<T>::is_some$',
    r'^std::option::Option::<T>::is_none$',
    r'^std::option::Option::<T>::as_ref$',
    r'^std::option::Option::<T>::(unwrap|expect|cloned|copied)$',   # read-only (may panic: C03 ledger)
    r'^robust::orient2d$',
    r'^std::ops::Fn::call$',      # the comparator closure of the splay tree: gets two &K, cannot reach the tree (trusted: does not re-enter)
    r'^std::cell::UnsafeCell::<T>::get$',
    r'^<std::boxed::Box<T, A> as std::ops::Drop>::drop$',     # frees the allocation of a moved-out box
    r'^std::cmp::PartialEq::(eq|ne)$',
    r'^std::cmp::PartialOrd::(lt|le|gt|ge|partial_cmp)$',
    r'^std::cmp::Ord::cmp$',           # on scalars / generic keys (the SweepEvent impl is a local body)
    r'^<f(32|64) as std::cmp::PartialOrd>::partial_cmp$',
    r'^std::cmp::impls::<impl std::cmp::(PartialOrd|Ord|PartialEq) for \w+>::(partial_cmp|cmp|lt|le|gt|ge|eq|ne)$',
    r'^std::cmp::Ordering::(is_gt|is_lt|is_ge|is_le|is_eq|is_ne|reverse)$',
    r'^<geo_types::Coord<T> as std::cmp::PartialEq>::(eq|ne)$',
    r'^std::ops::(Add|Sub|Mul|Div|Neg)::(add|sub|mul|div|neg)$',
    r'^num_traits::(Zero::zero|One::one|Float::(min|max|infinity|neg_infinity|abs))$',
    r'^num_traits::float::Float::(min|max|infinity|neg_infinity|abs)$',
    r'^num_traits::identities::(Zero::zero|One::one)$',
    r'^std::convert::Into::into$',
    r'^std::clone::Clone::clone$',     # on F / Copy data (generic, unresolved)
    r'^float_next_after::NextAfter::next_after$',
    r'^<f(32|64) as float_next_after::NextAfter>::next_after$',
    r'^std::collections::HashSet::<T, S>::contains$',
    r'^geo_types::(Polygon|LineString|MultiPolygon)::<T>::(exterior|interiors|lines)$',
]
_PURE_RE = [re.compile(p) for p in PURE_FOREIGN]


# read-only callees whose result depends on the argument values alone (not on memory behind them)
FUNCTIONAL = [re.compile(p) for p in [
    r'^std::cell::UnsafeCell::<T>::get$', r'^robust::orient2d$', r'^std::rc::Weak::<T>::new$',
    r'^std::ops::(Add|Sub|Mul|Div|Neg)::(add|sub|mul|div|neg)$',
    r'^num_traits::(Zero::zero|One::one|Float::(min|max|infinity|neg_infinity|abs))$',
    r'^num_traits::float::Float::(min|max|infinity|neg_infinity|abs)$',
    r'^num_traits::identities::(Zero::zero|One::one)$', r'^std::convert::Into::into$',
    r'^float_next_after::NextAfter::next_after$', r'^<f(32|64) as float_next_after::NextAfter>::next_after$',
    r'^boolean::helper::NextAfter::nextafter$', r'^<f(32|64) as boolean::helper::NextAfter>::nextafter$',
]]


# std higher-order functions that do nothing but (possibly) call the closure they are given: read-only iff that closure is
HOF_PURE = re.compile(r'^(std::option::Option::<T>::(map|map_or|map_or_else|and_then|is_some_and|is_none_or|unwrap_or_else|unwrap_or|'
                      r'unwrap_or_default|filter|or_else|zip|or|and|xor)|(?:std|core)::bool::<impl bool>::(then|then_some)|'
                      r'std::cmp::Ordering::(then_with|then)|std::array::<impl \[T; N\]>::map)$')


def closure_children(facts, caller, term):
    """local closure bodies named by the `{closure@file:line:col: ..}` generic arguments of a call made by `caller`"""
    out = []
    for a in (term.get('callee') or {}).get('args', []):
        fi = re.search(r'\{([A-Za-z_][^{}@]*)\}$', a) if a.startswith('fn(') else None
        if fi:
            # a fn item used as the callable: a local body (purity known) or a foreign function (judged by the whitelist)
            path = re.sub(r'::<[^<>]*>$', '', fi.group(1))
            if path in facts.bodies:
                out.append(path)
            elif not foreign_pure(path):
                return None
            continue
        m = re.match(r'^\{closure@[^:]+:(\d+):(\d+)', a)
        if not m:
            continue
        line = int(m.group(1))
        owner = caller.split('::{closure#')[0]
        cands = [n for n, b in facts.bodies.items() if n.startswith(owner + '::{closure#') and b.j.get('line_lo') == line]
        if len(cands) != 1:
            return None
        out.append(cands[0])
    return out


def foreign_pure(name):
    return any(r.match(name) for r in _PURE_RE)


class Purity:
    def __init__(self, facts):
        self.facts = facts
        self.pure = {}
        self.reason = {}
        self._compute()

    def _local_impure_reason(self, body):
        rb = body.reachable_blocks()
        for i, bl in enumerate(body.blocks):
            if bl['cleanup'] or i not in rb:
                continue
            for st in bl['stmts']:
                if st['k'] in ('assign', 'setdiscr'):
                    if any(e['k'] == 'deref' for e in st['place']['p']):
                        return 'store through pointer at line %s' % st['line']
        return None

    def _compute(self):
        bodies = self.facts.bodies
        pure = {}
        for name, b in bodies.items():
            r = self._local_impure_reason(b)
            pure[name] = r is None
            if r:
                self.reason[name] = r
        changed = True
        while changed:
            changed = False
            for name, b in bodies.items():
                if not pure[name]:
                    continue
                for _, t in b.calls():
                    cn = callee_name(t)
                    ok = pure.get(cn) if cn in pure else (foreign_pure(cn) or foreign_pure(callee_decl(t)))
                    if not ok and cn not in pure and HOF_PURE.match(cn):
                        kids = closure_children(self.facts, name, t)
                        ok = kids is not None and all(pure.get(k, False) for k in kids)
                    if not ok:
                        pure[name] = False
                        self.reason[name] = 'calls %s' % cn
                        changed = True
                        break
        self.pure = pure

    def is_functional(self, name, term=None):
        if any(r.match(name) for r in FUNCTIONAL):
            return True
        if term is not None and any(r.match(callee_decl(term)) for r in FUNCTIONAL):
            return True
        return False

    def is_pure(self, name, term=None, caller=None):
        if name in self.pure:
            return self.pure[name]
        if term is not None and caller is not None and HOF_PURE.match(name):
            kids = closure_children(self.facts, caller, term)
            if kids is not None and all(self.pure.get(k, False) for k in kids):
                return True
        if foreign_pure(name):
            return True
        if term is not None and foreign_pure(callee_decl(term)):
            return True
        return False
