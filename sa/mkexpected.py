#!/usr/bin/env python3
"""sa/mkexpected.py: record, per property and build configuration, how many obligations every rule produces on the current
(confirmed) tree of /repo -> sa/rules/expected_counts.json.  ./check turns these into floors (half the recorded count)."""
import importlib, json, os, sys
V = os.path.dirname(os.path.dirname(os.path.abspath(__file__)))
sys.path.insert(0, os.path.join(V, 'sa'))
os.environ['VERIF_NO_RULE_FLOORS'] = '1'
import engine   # noqa

ALL = ['C01', 'C02', 'C03', 'C04', 'C05', 'C06', 'C07', 'C08', 'C09', 'C10', 'C12', 'C13', 'C14', 'C15', 'C16', 'C17', 'C18']
out = {}
for pid in ALL:
    mod = importlib.import_module('rules.%s' % pid.lower())
    out[pid] = {}
    for tier, config in (('quick', 'debug'), ('thorough', 'debug'), ('thorough', 'release')):
        if config == 'release' and not getattr(mod, 'RELEASE_TOO', True):
            continue
        ctx = engine.Ctx(tier=tier, config='default' if config == 'debug' else 'release')
        rep = engine.Report(pid)
        mod.run(ctx, rep)
        c = {}
        for o in rep.obligations:
            if o['rule'] not in ('engine', 'anchor'):
                c[o['rule']] = c.get(o['rule'], 0) + 1
        out[pid]['%s/%s' % (tier, config)] = c
        print(pid, tier, config, sum(c.values()), 'obligations,', len(c), 'rules')
json.dump(out, open(os.path.join(V, 'sa', 'rules', 'expected_counts.json'), 'w'), indent=1, sort_keys=True)
