"""Path-sensitive abstract evaluation of MIR bodies (nothing of the library is executed).

For one body, `Explorer.explore()` enumerates every acyclic path through the
non-cleanup CFG (a path ends at return / diverging call / unreachable / a back
edge) and propagates *value trees* along it: constants, parameters,
projections, results of calls (opaque nodes that keep their argument trees),
boolean / comparison operators.  A branch on a non-constant value forks the
path and records the assumption.  At the first visit of a loop header every
place assigned inside the loop is replaced by a fresh `havoc` leaf, so one pass
through the loop body describes an arbitrary iteration.  Local callees that are
straight-line (accessors, constructors, thin wrappers) are inlined, so e.g.
`event.is_in_out()` becomes a read of the `in_out` field of the event's cell and
`set_in_out(a, b)` two writes to the like-named fields.

Rules consume the resulting `Path` objects: ordered events (calls with argument
trees, stores through pointers, asserts, drops) and the path condition.

Values are nested tuples:
  ('c', x)                       constant: bool/int, or ('enum', ty, variant), ('float', s, ty), ('fn', ..)
  ('param', i, name)             value of parameter i at entry
  ('field', v, name) ('variant', v, name) ('index', v, i) ('subslice', v, ..)
  ('deref', ptr, epoch)          memory behind an opaque pointer, as of `epoch`
  ('ref', loc, mut)              address of a tracked location
  ('agg', kind, variant, names, fields, adt)
  ('call', callee, args, site)   result of an opaque (possibly effectful) call
  ('pcall', callee, args, epoch) result of a read-only call
  ('op', name, a[, b])           operator
  ('discr', v)                   discriminant
  ('havoc', header, local)       unknown value at a loop header
  ('upd', v, ((path, v2), ...))  v with sub-places overwritten
  ('modified', callee, i, site, old)  local passed by &mut to an opaque call
"""
import re

MAX_PATHS = 20000
INLINE_DEPTH = 4


class CannotAnalyse(Exception):
    pass


# Parameters of the anchor functions are identified by POSITION; the names below are the canonical names the rules use,
# so renaming a parameter in the source does not change any verdict.
CANON_PARAMS = {
    'boolean::boolean_operation': ['subject', 'clipping', 'operation'],
    'boolean::trivial_result': ['subject', 'clipping', 'operation'],
    'boolean::fill_queue::fill_queue': ['subject', 'clipping', 'sbbox', 'cbbox', 'operation'],
    'boolean::fill_queue::process_polygon': ['contour_or_hole', 'is_subject', 'contour_id', 'event_queue', 'bbox', 'is_exterior_ring'],
    'boolean::subdivide_segments::subdivide': ['event_queue', 'sbbox', 'cbbox', 'operation'],
    'boolean::compute_fields::compute_fields': ['event', 'maybe_prev', 'operation'],
    'boolean::compute_fields::in_result': ['event', 'operation'],
    'boolean::compute_fields::determine_result_transition': ['event', 'operation'],
    'boolean::possible_intersection::possible_intersection': ['se1', 'se2', 'queue'],
    'boolean::divide_segment::divide_segment': ['se_l', 'inter', 'queue'],
    'boolean::compare_segments::compare_segments': ['se1_l', 'se2_l'],
    'boolean::segment_intersection::intersection': ['a1', 'a2', 'b1', 'b2'],
    'boolean::segment_intersection::intersection_impl': ['a1', 'a2', 'b1', 'b2'],
    'boolean::segment_intersection::get_intersection_bounding_box': ['a1', 'a2', 'b1', 'b2'],
    'boolean::segment_intersection::constrain_to_bounding_box': ['p', 'bb'],
    'boolean::signed_area::signed_area': ['p0', 'p1', 'p2'],
    'boolean::connect_edges::Contour::<F>::initialize_from_context': ['event', 'contours', 'contour_id'],
    'boolean::connect_edges::mark_as_processed': ['processed', 'result_events', 'pos', 'contour_id'],
    'boolean::connect_edges::get_next_pos': ['pos', 'processed', 'iteration_map'],
    'boolean::connect_edges::connect_edges': ['sorted_events'],
    'boolean::connect_edges::order_events': ['sorted_events'],
    '<boolean::sweep_event::SweepEvent<F> as std::cmp::Ord>::cmp': ['self', 'other'],
    '<boolean::sweep_event::SweepEvent<F> as std::cmp::PartialOrd>::partial_cmp': ['self', 'other'],
    'boolean::sweep_event::SweepEvent::<F>::is_below': ['self', 'p'],
    'boolean::sweep_event::SweepEvent::<F>::is_before': ['self', 'other'],
    'boolean::sweep_event::SweepEvent::<F>::is_after': ['self', 'other'],
    'boolean::helper::less_if': ['condition'],
    'boolean::helper::less_if_inversed': ['condition'],
}


# stage functions the rules look for as call events: kept as calls even when a refactoring makes their body straight-line
STAGE_ANCHORS = {
    'boolean::boolean_operation', 'boolean::trivial_result', 'boolean::fill_queue::fill_queue', 'boolean::fill_queue::process_polygon',
    'boolean::subdivide_segments::subdivide', 'boolean::compute_fields::compute_fields', 'boolean::possible_intersection::possible_intersection',
    'boolean::divide_segment::divide_segment', 'boolean::connect_edges::connect_edges', 'boolean::connect_edges::order_events',
    'boolean::connect_edges::get_next_pos', 'boolean::connect_edges::mark_as_processed',
    'boolean::connect_edges::Contour::<F>::initialize_from_context',
    'boolean::segment_intersection::intersection', 'boolean::segment_intersection::intersection_impl',
    'boolean::segment_intersection::get_intersection_bounding_box', 'boolean::segment_intersection::constrain_to_bounding_box',
    'boolean::helper::less_if', 'boolean::helper::less_if_inversed',
}

NONE = ('agg', 'adt', 'None', (), (), 'std::option::Option')

FOREIGN_ENUMS = {
    'std::option::Option': {'None': 0, 'Some': 1},
    'std::cmp::Ordering': {'Less': 255, 'Equal': 0, 'Greater': 1},  # i8 discriminants as switchInt sees them
    'std::result::Result': {'Ok': 0, 'Err': 1},
    'std::ops::ControlFlow': {'Continue': 0, 'Break': 1},
}


def strip_generics(ty):
    i = ty.find('<')
    return ty if i < 0 else ty[:i]


def short(name):
    """last two path segments of a def path, generics dropped"""
    n = name
    for _ in range(4):
        n = re.sub(r'<[^<>]*>', '', n)
    parts = [p for p in n.split('::') if p]
    return '::'.join(parts[-2:])


class Path:
    def __init__(self):
        self.events = []
        self.conds = []      # (value, ('eq', k) | ('notin', (k...)))
        self.end = None      # 'return' | 'backedge' | 'unreachable' | 'diverge' | 'other'
        self.ret = None
        self.blocks = []
        self.end_info = None
        self.final = None    # final State (memory)

    def calls(self, name=None, depth0=True):
        for e in self.events:
            if e['k'] != 'call':
                continue
            if depth0 and e['depth'] != 0:
                continue
            if name is None or e['callee'] == name or e['callee'].endswith('::' + name) or short(e['callee']) == name:
                yield e

    def branch_lines(self):
        return [e['line'] for e in self.events if e['k'] == 'branch' and e['depth'] == 0]


class Frame:
    _next = [0]

    def __init__(self, body, args=None, depth=0):
        Frame._next[0] += 1
        self.id = Frame._next[0]
        self.body = body
        self.args = args
        self.depth = depth          # nesting of inlined / expanded frames (bounds the expansion)
        self.evdepth = depth        # depth recorded in events: a helper *expanded* path by path counts as its caller's own code


class State:
    __slots__ = ('mem', 'epoch', 'headers', 'path', 'seq', 'unrolled')

    def __init__(self):
        self.mem = {}
        self.epoch = 0
        self.headers = frozenset()
        self.path = Path()
        self.seq = 0
        self.unrolled = frozenset()

    def fork(self):
        s = State()
        s.mem = dict(self.mem)
        s.epoch = self.epoch
        s.headers = self.headers
        s.seq = self.seq
        s.unrolled = self.unrolled
        p = Path()
        p.events = list(self.path.events)
        p.conds = list(self.path.conds)
        p.blocks = list(self.path.blocks)
        s.path = p
        return s


def is_extbase(b):
    return b[0] == 'ext'


class Explorer:
    """explores one body; `purity` is a Purity oracle (see models.py) or None"""

    def __init__(self, facts, body, purity=None, inline=True, opaque=(), expand=(), atomic=(), expand_loops=False):
        self.facts = facts
        self.body = body
        self.purity = purity
        self.inline = inline
        self.opaque = set(opaque)       # callee names never inlined
        self.expand = set(expand)       # anchor functions a rule asks to see through (expanded path by path although they are named)
        self.atomic = set(atomic)       # field names whose loads through a pointer are atoms (stores on the path are not forwarded to them)
        self.seen_bodies = set()        # bodies whose code was evaluated as part of this one (inlined, expanded, applied)
        self.expand_loops = expand_loops   # also expand local helpers that contain loops (their loops are handled like the anchor's own)
        self._nested_loops = {}
        self.paths = []
        self.loops = body.loops()
        self.loop_havoc = {h: self._loop_writes(blocks) for h, blocks in self.loops.items()}
        self.mut_borrowed = self._mut_borrowed(body)
        self.top = Frame(body)

    # ------------------------------------------------------------ loop summary
    @staticmethod
    def _mut_borrowed(body):
        out = set()
        for bl in body.blocks:
            for st in bl['stmts']:
                if st['k'] == 'assign' and st['rv']['k'] in ('ref', 'rawptr') and st['rv'].get('mut', True):
                    p = st['rv']['place']
                    if not any(e['k'] == 'deref' for e in p['p']):
                        out.add(p['l'])
        return out

    def _loop_writes(self, blocks, body=None):
        body0 = body or self.body
        locs = set()        # locals assigned directly
        ptrs = set()        # locals written through (their pointee changes, the pointer does not)
        ext = False
        has_call = False
        fields = set()      # last field names of places written through pointers
        wipe_all = [False]

        def scan(body, bls, depth):
            for b in bls:
                bl = body.blocks[b]
                for st in bl['stmts']:
                    if st['k'] in ('assign', 'setdiscr'):
                        p = st['place']
                        if any(e['k'] == 'deref' for e in p['p']):
                            fs = [e for e in p['p'] if e['k'] == 'field']
                            fields.add(fs[-1]['name'] if fs and fs[-1]['name'] is not None else None)
                        if st['k'] == 'assign' and st['rv']['k'] in ('ref', 'rawptr') and st['rv'].get('mut', True):
                            # a &mut to a field may be written through later (take / replace / swap); a reborrow of a
                            # whole object is not itself a write
                            rp = st['rv']['place']
                            if any(e['k'] == 'deref' for e in rp['p']):
                                fs = [e for e in rp['p'] if e['k'] == 'field']
                                if fs and fs[-1]['name'] is not None:
                                    fields.add(fs[-1]['name'])
                t = bl['term']
                if t['k'] == 'call':
                    from facts import callee_name
                    cn = callee_name(t)
                    if any(e['k'] == 'deref' for e in t['dest']['p']):
                        fs = [e for e in t['dest']['p'] if e['k'] == 'field']
                        fields.add(fs[-1]['name'] if fs and fs[-1]['name'] is not None else None)
                    if re.match(r'^(std::option::Option::<T>::take|std::mem::replace|std::mem::swap|std::mem::take)$', cn):
                        fields.add(())        # writes whole slots
                        continue
                    if t['callee'].get('trait') in ('std::cmp::PartialEq', 'std::cmp::PartialOrd'):
                        continue
                    if self.purity is not None and self.purity.is_pure(cn, t):
                        continue
                    cb = self.facts.bodies.get(cn)
                    if cb is not None and depth < INLINE_DEPTH and is_straight_line(cb) and cn not in STAGE_ANCHORS and cn not in self.ATOM_FUNCS and not any(cn.startswith(o) for o in self.opaque):
                        scan(cb, sorted(cb.reachable_blocks()), depth + 1)
                        continue
                    wipe_all[0] = True
                if t['k'] == 'drop' and any(e['k'] == 'deref' for e in t['place']['p']):
                    fs = [e for e in t['place']['p'] if e['k'] == 'field']
                    fields.add(fs[-1]['name'] if fs and fs[-1]['name'] is not None else None)

        for b in blocks:
            bl = body0.blocks[b]
            for st in bl['stmts']:
                if st['k'] in ('assign', 'setdiscr'):
                    p = st['place']
                    if any(e['k'] == 'deref' for e in p['p']):
                        ext = True
                        ptrs.add(p['l'])
                    else:
                        locs.add(p['l'])
            t = bl['term']
            if t['k'] == 'call':
                has_call = True
                if any(e['k'] == 'deref' for e in t['dest']['p']):
                    ext = True
                    ptrs.add(t['dest']['l'])
                else:
                    locs.add(t['dest']['l'])
            if t['k'] == 'drop':
                if any(e['k'] == 'deref' for e in t['place']['p']):
                    ext = True
                    ptrs.add(t['place']['l'])
                else:
                    locs.add(t['place']['l'])
        scan(body0, blocks, 0)
        return (locs, ext, has_call, ptrs, fields, wipe_all[0])

    # --------------------------------------------------------------- locations
    def loc_of(self, st, fr, p):
        base = ('loc', fr.id, p['l'])
        path = ()
        for e in p['p']:
            k = e['k']
            if k == 'deref':
                v = self.load(st, fr, (base, path))
                v = strip_upd(v)
                if v[0] == 'ref':
                    base, path = v[1]
                elif v[0] == 'refval':
                    base, path = ('ext', v), ()
                else:
                    base, path = ('ext', v), ()
            elif k == 'field':
                path = path + (('f', e['name'] if e['name'] is not None else e['i']),)
            elif k == 'downcast':
                path = path + (('v', e['v']),)
            elif k == 'index':
                path = path + (('i', self.load(st, fr, (('loc', fr.id, e['l']), ()))),)
            elif k == 'constindex':
                path = path + (('i', ('c', (-e['offset'] if e['from_end'] else e['offset']))),)
            elif k == 'subslice':
                path = path + (('sub', e['from'], e['to'], e['from_end']),)
            elif k in ('opaquecast', 'unwrapbinder'):
                pass
            else:
                raise CannotAnalyse('projection %s' % k)
        return (base, path)

    def base_value(self, st, fr, base):
        if base[0] == 'ext':
            v = base[1]
            if v[0] == 'refval':
                return v[1]
            if v[0] == 'boxptr':
                bx = strip_upd(v[1])
                if bx[0] == 'call' and re.match(r'^std::boxed::Box::<T>::new$', bx[1]) and len(bx[2]) == 1:
                    return bx[2][0]           # contents of a box created on this path
            return ('deref', v, st.epoch)
        _, fid, l = base
        f = self._frames.get(fid)
        if f is not None and 1 <= l <= f.body.arg_count:
            if f.args is not None:
                return f.args[l - 1]
            canon = CANON_PARAMS.get(f.body.id)
            if canon is not None and len(canon) == f.body.arg_count:
                return ('param', l, canon[l - 1])
            return ('param', l, f.body.local_name(l))
        return ('undef', l)

    @staticmethod
    def project(v, elem):
        k = elem[0]
        if k == 'f':
            if v[0] == 'agg':
                names, fields = v[3], v[4]
                if elem[1] in names:
                    return fields[names.index(elem[1])]
                if isinstance(elem[1], int) and elem[1] < len(fields):
                    return fields[elem[1]]
            if v[0] == 'upd':
                for (pp, vv) in v[2]:
                    if pp == (elem,):
                        return vv
                sub = tuple((pp[1:], vv) for (pp, vv) in v[2] if pp[:1] == (elem,) and len(pp) > 1)
                basev = Explorer.project(v[1], elem)
                return ('upd', basev, sub) if sub else basev
            return ('field', v, elem[1])
        if k == 'v':
            if v[0] == 'agg':
                return v
            if v[0] == 'upd':
                return ('upd', Explorer.project(v[1], elem), v[2])
            return ('variant', v, elem[1])
        if k == 'i':
            if v[0] == 'agg' and v[1] in ('array', 'tuple') and elem[1][0] == 'c' and isinstance(elem[1][1], int):
                i = elem[1][1]
                if 0 <= i < len(v[4]):
                    return v[4][i]
            return ('index', v, elem[1])
        if k == 'sub':
            return ('subslice', v, elem[1:])
        raise CannotAnalyse('project %r' % (elem,))

    @staticmethod
    def key(loc):
        """memory key of a location: addresses read from unchanged places are the same address whatever the epoch of the read
        (entries behind pointers are wiped by every opaque effectful call, so a normalised key can never give a stale hit)"""
        base, path = loc[0], loc[1]
        if base[0] == 'ext':
            base = ('ext', noepoch(base[1]))
        return (base, tuple((e[0], noepoch(e[1])) + tuple(e[2:]) if e[0] == 'i' else e for e in path))

    def load(self, st, fr, loc):
        kbase, kpath = self.key(loc)
        base, path = loc[0], loc[1]
        if self.atomic and base[0] == 'ext' and path and path[-1][0] == 'f' and path[-1][1] in self.atomic:
            v = self.base_value(st, fr, base)
            for e in path:
                v = self.project(v, e)
            return v
        mem = st.mem
        if (kbase, kpath) in mem:
            v = mem[(kbase, kpath)]
        else:
            v = None
            for n in range(len(kpath) - 1, -1, -1):
                pre = (kbase, kpath[:n])
                if pre in mem:
                    v = mem[pre]
                    for e in path[n:]:
                        v = self.project(v, e)
                    break
            if v is None:
                v = self.base_value(st, fr, base)
                for e in path:
                    v = self.project(v, e)
        children = [(k[1][len(kpath):], vv) for k, vv in mem.items()
                    if k[0] == kbase and len(k[1]) > len(kpath) and k[1][:len(kpath)] == kpath]
        if children:
            return ('upd', v, tuple(sorted(children, key=repr)))
        return v

    def store(self, st, loc, val):
        kbase, kpath = self.key(loc)
        for k in [k for k in st.mem if k[0] == kbase and len(k[1]) > len(kpath) and k[1][:len(kpath)] == kpath]:
            del st.mem[k]
        st.mem[(kbase, kpath)] = val

    # ---------------------------------------------------------------- operands
    def const(self, o):
        if 'fn' in o:
            return ('c', ('fn', o['fn'], tuple(o.get('fn_args', ()))))
        if 'variant' in o:
            return ('c', ('enum', strip_generics(o['ty']), o['variant']))
        if 'val' in o:
            v = o['val']
            if isinstance(v, str):
                v = int(v)
            return ('c', v)
        if 'float' in o:
            return ('c', ('float', o['float'], o['ty']))
        if 'promoted' in o:
            return self.eval_promoted(o)
        if 'unevaluated' in o:
            return ('c', ('item', o['unevaluated'], tuple(o.get('uneval_args', ()))))
        if o.get('text') is not None:
            return ('c', ('text', o['text'], o['ty']))
        if 'bits' in o:
            return ('c', ('bits', o['bits'], o['ty']))
        return ('c', ('zst', o['ty']))

    _promoted_cache = {}

    def eval_promoted(self, o):
        pid = '%s::{promoted#%d}' % (o['promoted_of'], o['promoted'])
        key = (id(self.facts), pid)
        if key in Explorer._promoted_cache:
            return Explorer._promoted_cache[key]
        pb = self.facts.bodies.get(pid)
        if pb is None:
            raise CannotAnalyse('promoted body %s missing' % pid)
        ex = Explorer(self.facts, pb, None, inline=False)
        ps = ex.explore()
        if len(ps) != 1 or ps[0].end != 'return':
            raise CannotAnalyse('promoted %s not straight-line' % pid)
        v = ps[0].ret
        if v[0] == 'ref':
            inner = ex.load(ps[0].final, ex.top, v[1])
            v = ('refval', inner)
        Explorer._promoted_cache[key] = v
        return v

    def operand(self, st, fr, o):
        k = o['k']
        if k in ('copy', 'move'):
            return self.load(st, fr, self.loc_of(st, fr, o['place']))
        if k == 'const':
            return self.const(o)
        raise CannotAnalyse('operand %s' % k)

    # ---------------------------------------------------------------- rvalues
    def discr_of(self, v):
        v = strip_upd(v)
        if v[0] == 'agg' and v[1] == 'adt':
            return self.enum_discr(v[5], v[2])
        if v[0] == 'c' and isinstance(v[1], tuple) and v[1][0] == 'enum':
            return self.enum_discr(v[1][1], v[1][2])
        return ('discr', v)

    def enum_discr(self, adt, variant):
        adt = strip_generics(adt)
        a = self.facts.adts.get(adt)
        if a is not None:
            for vv in a['variants']:
                if vv['name'] == variant:
                    return ('c', int(vv['discr'])) if vv['discr'] is not None else ('c', 0)
        t = FOREIGN_ENUMS.get(adt)
        if t and variant in t:
            return ('c', t[variant])
        raise CannotAnalyse('unknown discriminant of %s::%s' % (adt, variant))

    def rvalue(self, st, fr, r):
        k = r['k']
        if k == 'use':
            return self.operand(st, fr, r['op'])
        if k in ('ref', 'rawptr'):
            loc = self.loc_of(st, fr, r['place'])
            if loc[0][0] == 'ext' and loc[1] == ():
                return loc[0][1]          # reborrow of *p: the pointer itself
            return ('ref', loc, bool(r.get('mut', True)))
        if k == 'copyforderef':
            return self.load(st, fr, self.loc_of(st, fr, r['place']))
        if k == 'unop':
            a = self.operand(st, fr, r['a'])
            return simplify(('op', r['op'].lower(), a))
        if k == 'binop':
            a = self.operand(st, fr, r['a'])
            b = self.operand(st, fr, r['b'])
            return simplify(('op', r['op'].lower(), a, b))
        if k == 'cast':
            a = self.operand(st, fr, r['op'])
            if r['kind'].startswith('Transmute') and a[0] == 'field' and a[2] == 'pointer' and a[1][0] == 'field' \
                    and str(a[1][2]) == '0' and r['from'].startswith('std::ptr::NonNull<'):
                return ('boxptr', a[1][1])       # elaborated deref of a Box: pointer to its contents
            return ('cast', r['kind'], a, r['to'])
        if k == 'discr':
            return self.discr_of(self.load(st, fr, self.loc_of(st, fr, r['place'])))
        if k == 'aggregate':
            fs = tuple(self.operand(st, fr, f) for f in r['fields'])
            if r['agg'] == 'adt':
                return ('agg', 'adt', r['variant'], tuple(r['field_names']), fs, r['adt'])
            if r['agg'] == 'closure':
                return ('agg', 'closure', r['closure'], (), fs, r['closure'])
            return ('agg', r['agg'], None, (), fs, r['agg'])
        if k == 'repeat':
            return ('repeat', self.operand(st, fr, r['op']), r['count'])
        if k == 'threadlocalref':
            return ('threadlocal', r['def'])
        raise CannotAnalyse('rvalue %s' % k)

    # ------------------------------------------------------------------ calls
    def deref_ptr(self, st, fr, v):
        """value a pointer value points to"""
        v0 = strip_upd(v)
        if v0[0] == 'ref':
            return self.load(st, fr, v0[1])
        if v0[0] == 'refval':
            return v0[1]
        return self.load(st, fr, (('ext', v0), ()))

    @staticmethod
    def ptr_loc(v):
        v0 = strip_upd(v)
        if v0[0] == 'ref':
            return v0[1]
        return (('ext', v0), ())

    def _note_store(self, st, fr, b, t, loc, val):
        if loc[0][0] == 'ext':
            st.path.events.append({'k': 'store', 'loc': loc, 'val': val, 'bb': b, 'line': t['line'],
                                   'depth': fr.evdepth, 'in': fr.body.id, 'via': 'move-model'})

    def do_call(self, st, fr, b, t):
        from facts import callee_name, callee_decl
        name = callee_name(t)
        decl = callee_decl(t)
        args = tuple(self.operand(st, fr, a) for a in t['args'])
        site = (fr.body.id if fr.depth else '', b, st.seq)
        st.seq += 1
        ev = {'k': 'call', 'callee': name, 'decl': decl, 'args': args, 'bb': b, 'line': t['line'],
              'epoch': st.epoch, 'term': t, 'exp': t.get('exp', False), 'depth': fr.evdepth,
              'in': fr.body.id, 'site': site}
        # values of the locals handed over by reference, as they are when the call is made
        rv = {}
        for i_, a_ in enumerate(args):
            aa = strip_upd(a_)
            while aa[0] == 'cast':          # `&[a, b]` coerced to a slice
                aa = strip_upd(aa[2])
            if aa[0] == 'ref' and aa[1][0][0] == 'loc':
                try:
                    rv[i_] = self.load(st, fr, aa[1])
                except Exception:
                    pass
        if rv:
            ev['ref_vals'] = rv
        if 'def' not in t['callee']:
            fo = t['callee'].get('fnptr') or t['callee'].get('indirect')
            if fo is not None:
                ev['fnptr'] = self.operand(st, fr, fo)
                fv = strip_upd(ev['fnptr'])
                while fv[0] == 'cast':
                    fv = strip_upd(fv[2])
                if fv[0] == 'c' and isinstance(fv[1], tuple) and fv[1][0] == 'fn':
                    ev['fn_target'] = fv[1][1]
        st.path.events.append(ev)
        ret = None
        pure = False
        # 1. comparison traits on scalar-like types become operators
        c = t['callee']
        tr = c.get('trait')
        if tr in ('std::cmp::PartialEq', 'std::cmp::PartialOrd') and c.get('method') in ('eq', 'ne', 'lt', 'le', 'gt', 'ge') \
                and len(args) == 2:
            a0 = self.deref_ptr(st, fr, args[0])
            a1 = self.deref_ptr(st, fr, args[1])
            ret = simplify(('op', c['method'], a0, a1))
            ev['cmp_ty'] = c['args'][0] if c.get('args') else None
            pure = True
        # 1b. RefCell guards: borrow()/borrow_mut() yield a guard, dereferencing the guard
        #     yields a pointer to the cell's contents (same pointer for Ref and RefMut)
        if ret is None:
            if re.match(r'^std::cell::RefCell::<T>::(borrow|borrow_mut)$', name) and len(args) == 1:
                ret, pure = ('guard', args[0]), True
                ev['refcell'] = 'borrow_mut' if name.endswith('_mut') else 'borrow'
            elif re.match(r'^<std::cell::(Ref|RefMut)<.*> as std::ops::(Deref|DerefMut)>::(deref|deref_mut)$', name) \
                    and len(args) == 1:
                g = strip_upd(self.deref_ptr(st, fr, args[0]))
                if g[0] == 'guard':
                    ret, pure = ('cell', g[1]), True
        # 1c. Rc::clone denotes the same object; a local Vec built by new/push with constant
        #     indexing is tracked as a tuple of its elements
        if ret is None:
            if re.match(r'^<std::rc::Rc<T(, A)?> as std::clone::Clone>::clone$', name) and len(args) == 1:
                ret, pure = self.deref_ptr(st, fr, args[0]), True
                ev['rc_clone'] = True
            elif re.match(r'^std::rc::Rc::<T(, A)?>::downgrade$', name) and len(args) == 1 and strip_upd(args[0])[0] == 'ref' \
                    and strip_upd(args[0])[1][0][0] == 'loc' and fr.depth > 0:
                # a weak link to the object an Rc held in a local of an inlined callee denotes: name the object, not the (short-lived) local
                ret, pure = ('pcall', name, (('refval', self.load(st, fr, strip_upd(args[0])[1])),), 0), True
            elif re.match(r'^<std::rc::Rc<T(, A)?> as std::ops::Deref>::deref$', name) and len(args) == 1:
                # pointer to the shared object an Rc value denotes
                ret, pure = ('rcptr', self.deref_ptr(st, fr, args[0])), True
            elif re.match(r'^std::vec::Vec::<T>::(new|with_capacity)$', name):
                ret, pure = ('vec', ()), True
            elif re.match(r'^std::vec::Vec::<T(, A)?>::push$', name) and len(args) == 2:
                a0 = strip_upd(args[0])
                if a0[0] == 'ref' and a0[1][0][0] == 'loc':
                    cur = strip_upd(self.load(st, fr, a0[1]))
                    if cur[0] == 'vec':
                        self.store(st, a0[1], ('vec', cur[1] + (args[1],)))
                        ret, pure = ('c', ('zst', '()')), True
                        ev['vec_push'] = True
            elif re.match(r'^<std::vec::Vec<T(, A)?> as std::ops::Index<I>>::index$', name) and len(args) == 2:
                a0 = strip_upd(args[0])
                if a0[0] == 'ref':
                    cur = strip_upd(self.load(st, fr, a0[1]))
                    i = args[1]
                    if cur[0] == 'vec' and is_const(i) and isinstance(i[1], int) and 0 <= i[1] < len(cur[1]):
                        ret, pure = ('refval', cur[1][i[1]]), True
                    elif cur[0] == 'vec' and is_const(i):
                        ev['vec_oob'] = (i[1], len(cur[1]))
        # 1d. Option::take / mem::replace / mem::swap move values between tracked places
        handled = False
        if ret is None:
            if re.match(r'^std::option::Option::<T>::take$', name) and len(args) == 1:
                loc = self.ptr_loc(args[0])
                ret = self.load(st, fr, loc)
                self.store(st, loc, NONE)
                self._note_store(st, fr, b, t, loc, NONE)
                handled = True
            elif re.match(r'^std::mem::take$', name) and len(args) == 1 and \
                    str((t['callee'].get('args') or [''])[0]).startswith('std::option::Option<'):
                loc = self.ptr_loc(args[0])
                ret = self.load(st, fr, loc)
                self.store(st, loc, NONE)
                self._note_store(st, fr, b, t, loc, NONE)
                handled = True
            elif re.match(r'^std::mem::replace$', name) and len(args) == 2:
                loc = self.ptr_loc(args[0])
                ret = self.load(st, fr, loc)
                self.store(st, loc, args[1])
                self._note_store(st, fr, b, t, loc, args[1])
                handled = True
            elif re.match(r'^std::mem::swap$', name) and len(args) == 2:
                l0, l1 = self.ptr_loc(args[0]), self.ptr_loc(args[1])
                v0, v1 = self.load(st, fr, l0), self.load(st, fr, l1)
                self.store(st, l0, v1)
                self.store(st, l1, v0)
                self._note_store(st, fr, b, t, l0, v1)
                self._note_store(st, fr, b, t, l1, v0)
                ret = ('c', ('zst', '()'))
                handled = True
            elif re.match(r'^std::option::Option::<T>::(as_mut|as_ref)$', name) and len(args) == 1:
                # &mut Option<T> whose content is known to be Some: Some(&mut payload)
                loc = self.ptr_loc(args[0])
                cur = strip_upd(self.load(st, fr, loc))
                if cur[0] == 'agg' and cur[1] == 'adt' and cur[2] == 'Some' and cur[5].endswith('Option'):
                    inner = (loc[0], loc[1] + (('v', 'Some'), ('f', '0')))
                    ret = ('agg', 'adt', 'Some', ('0',), (('ref', inner, name.endswith('as_mut')),), 'std::option::Option')
                    pure = True
            elif re.match(r'^std::option::Option::<T>::(unwrap|expect)$', name) and args:
                a0 = strip_upd(args[0])
                if a0[0] == 'agg' and a0[1] == 'adt' and a0[2] == 'Some' and a0[5].endswith('Option') and a0[4]:
                    ret, pure = a0[4][0], True
            elif re.match(r'^<std::option::Option<T> as std::ops::FromResidual<std::option::Option<std::convert::Infallible>>>::from_residual$', name):
                ret, pure = NONE, True
            elif re.match(r'^std::option::Option::<T>::unwrap_or$', name) and len(args) == 2:
                a0 = strip_upd(args[0])
                if a0[0] == 'agg' and a0[1] == 'adt' and a0[5].endswith('Option'):
                    if a0[2] == 'Some' and a0[4]:
                        ret, pure = a0[4][0], True
                    elif a0[2] == 'None':
                        ret, pure = args[1], True
            if handled:
                ev['moved'] = True
                ev['inlined'] = True     # effects are modelled exactly: no wipe of pointer memory
        # 2. straight-line local callees are inlined
        if ret is None and self.inline and fr.depth < INLINE_DEPTH and name not in STAGE_ANCHORS and name not in self.ATOM_FUNCS and not any(name.startswith(o) for o in self.opaque):
            cb = self.facts.bodies.get(name)
            if cb is not None and is_straight_line(cb):
                res = self.inline_call(st, fr, cb, args)
                if res is not None:
                    ret, pure = res
                    ev['inlined'] = True
        # allocation: a fresh object (unique identity, kept as an opaque call node) that touches no existing memory
        if ret is None and re.match(r'^(std::boxed::Box::<T>::new|std::rc::Rc::<T>::new|std::cell::RefCell::<T>::new|std::cell::UnsafeCell::<T>::new)$', name):
            ret, pure = ('call', name, args, site), True
            ev['alloc'] = True
        if ret is None and ev.get('fn_target') and self.purity is not None and self.purity.is_pure(ev['fn_target']):
            pure = True
            ret = ('pcall', ev['fn_target'], args, st.epoch)
        if ret is None:
            if self.purity is not None and self.purity.is_pure(name, t):
                pure = True
                ret = ('pcall', name, args, 0 if self.purity.is_functional(name, t) else st.epoch)
            else:
                ret = ('call', name, args, site)
        if not pure:
            st.epoch += 1
            if not ev.get('inlined'):
                # opaque effectful call: memory behind pointers is unknown afterwards,
                # and locals passed by &mut are modified
                for k in [k for k in st.mem if k[0][0] == 'ext']:
                    del st.mem[k]
                for i, a in enumerate(args):
                    if a[0] == 'ref' and a[2] and a[1][0][0] == 'loc':
                        self.store(st, a[1], ('modified', name, i, site, self.load(st, fr, a[1])))
        ev['ret'] = ret
        ev['pure'] = pure
        return ret

    def inline_call(self, st, fr, cb, args):
        """evaluate a straight-line callee in place; returns (ret, pure) or None"""
        args = untuple_closure_args(cb, args)
        self.seen_bodies.add(cb.id)
        f2 = Frame(cb, args, fr.depth + 1)
        f2.evdepth = fr.evdepth + 1
        self._frames[f2.id] = f2
        e0 = st.epoch
        n_ev = len(st.path.events)
        b = 0
        steps = 0
        while True:
            steps += 1
            if steps > 200:
                raise CannotAnalyse('inline runaway in %s' % cb.id)
            bl = cb.blocks[b]
            self.exec_stmts(st, f2, b, bl)
            t = bl['term']
            k = t['k']
            if k == 'goto':
                b = t['target']
            elif k == 'return':
                ret = self.load(st, f2, (('loc', f2.id, 0), ()))
                break
            elif k == 'drop':
                loc = self.loc_of(st, f2, t['place'])
                st.path.events.append({'k': 'drop', 'ty': t['ty'], 'loc': loc, 'val': self.load(st, f2, loc), 'bb': b,
                                       'line': t['line'], 'replace': t.get('replace', False), 'depth': f2.depth,
                                       'needs_drop': t.get('needs_drop', True), 'in': cb.id})
                b = t['target']
            elif k == 'assert':
                self.record_assert(st, f2, b, t)
                b = t['target']
            elif k == 'call':
                r = self.do_call(st, f2, b, t)
                if t['target'] is None:
                    raise CannotAnalyse('diverging call inside straight-line %s' % cb.id)
                self.store(st, self.loc_of(st, f2, t['dest']), r)
                b = t['target']
            elif k == 'switch':
                v = simplify(self.operand(st, f2, t['discr']))
                if not is_const(v):
                    raise CannotAnalyse('branch in straight-line %s' % cb.id)
                b = switch_target(t, v)
            else:
                raise CannotAnalyse('terminator %s in straight-line %s' % (k, cb.id))
        stores = any(e['k'] == 'store' for e in st.path.events[n_ev:])
        pure = (st.epoch == e0) and not stores
        # drop the callee frame's locals from memory
        for k in [k for k in st.mem if k[0][0] == 'loc' and k[0][1] == f2.id]:
            del st.mem[k]
        return ret, pure

    def exec_stmts(self, st, fr, b, bl):
        for s in bl['stmts']:
            if s['k'] == 'assign':
                v = self.rvalue(st, fr, s['rv'])
                loc = self.loc_of(st, fr, s['place'])
                self.store(st, loc, v)
                if loc[0][0] == 'ext':
                    st.path.events.append({'k': 'store', 'loc': loc, 'val': v, 'bb': b, 'line': s['line'],
                                           'depth': fr.evdepth, 'in': fr.body.id})
            elif s['k'] == 'setdiscr':
                loc = self.loc_of(st, fr, s['place'])
                self.store(st, loc, ('setdiscr', s['variant']))

    def record_assert(self, st, fr, b, t):
        c = self.operand(st, fr, t['cond'])
        ev = {'k': 'assert', 'kind': t['assert_kind'], 'cond': c, 'bb': b, 'line': t['line'], 'term': t,
              'depth': fr.evdepth, 'in': fr.body.id}
        for key in ('len', 'index', 'a', 'b'):
            if key in t:
                ev[key] = self.operand(st, fr, t[key])
        st.path.events.append(ev)

    # ---------------------------------------------------------------- explore
    def explore(self, start_block=0):
        st = State()
        self._frames = {self.top.id: self.top}
        self._run(st, start_block)
        return self.paths

    def _finish(self, st, end, info=None):
        st.path.end = end
        st.path.end_info = info
        st.path.final = st
        if end == 'return':
            st.path.ret = self.load(st, self.top, (('loc', self.top.id, 0), ()))
        self.paths.append(st.path)
        if len(self.paths) > MAX_PATHS:
            raise CannotAnalyse('more than %d paths in %s' % (MAX_PATHS, self.body.id))

    def _frame_loops(self, fr):
        """(loops, havoc summaries, mutably borrowed locals) of the body a frame runs"""
        if fr is self.top:
            return self.loops, self.loop_havoc, self.mut_borrowed
        bid = fr.body.id
        if bid not in self._nested_loops:
            loops = fr.body.loops() if (self.expand_loops or array_loops_only(fr.body)) else {}
            self._nested_loops[bid] = (loops, {h: self._loop_writes(bl, fr.body) for h, bl in loops.items()}, self._mut_borrowed(fr.body))
        return self._nested_loops[bid]

    def _unroll_header(self, st, fr, b, summary):
        """True when the loop headed by b iterates a fixed array of at most four elements whose value is known: the iterator
        local becomes an explicit cursor and the loop is run as straight-line code (no havoc, no cut at the back edge)"""
        key = (fr.id, b)
        if key in st.unrolled:
            return True
        if not self.inline:
            return False
        # the loop advances an array iterator (checked on its blocks); its local is the one of that type that still holds the
        # freshly made iterator (the argument of next() is a temporary reborrow that does not exist yet at the header)
        from facts import callee_name
        if not any(fr.body.blocks[bb]['term']['k'] == 'call' and
                   re.match(r'^<std::array::IntoIter<T, N> as std::iter::Iterator>::next$', callee_name(fr.body.blocks[bb]['term']))
                   for bb in self._frame_loops(fr)[0].get(b, ())):
            return False
        cands = [i for i, l_ in enumerate(fr.body.locals) if l_['ty'].startswith('std::array::IntoIter<') and l_.get('name')]
        for l in sorted(cands):
            v = strip_upd(self.load(st, fr, (('loc', fr.id, l), ())))
            x = v
            while x[0] in ('call', 'pcall') and x[1].endswith('into_iter') and len(x[2]) == 1:
                x = strip_upd(x[2][0])
            ty = fr.body.locals[l]['ty'] if l < len(fr.body.locals) else ''
            if x[0] == 'agg' and x[1] == 'array' and 1 <= len(x[4]) <= 4 and ty.startswith('std::array::IntoIter<') and v is not x:
                self.store(st, (('loc', fr.id, l), ()), ('arrayiter', tuple(x[4]), 0))
                st.unrolled = st.unrolled | {key}
                st.path.events.append({'k': 'unrolled', 'bb': b, 'n': len(x[4]), 'depth': fr.evdepth, 'in': fr.body.id})
                return True
        return False

    def array_next(self, st, fr, b, t):
        """next() of an array iterator that _unroll_header turned into a cursor"""
        from facts import callee_name
        if t.get('target') is None or len(t['args']) != 1 or not re.match(r'^<std::array::IntoIter<T, N> as std::iter::Iterator>::next$', callee_name(t)):
            return False
        a0 = strip_upd(self.operand(st, fr, t['args'][0]))
        if not (a0[0] == 'ref' and a0[1][0][0] == 'loc' and a0[1][1] == ()):
            return False
        cur = strip_upd(self.load(st, fr, a0[1]))
        if cur[0] != 'arrayiter':
            return False
        elems, k_ = cur[1], cur[2]
        if k_ < len(elems):
            self.store(st, a0[1], ('arrayiter', elems, k_ + 1))
            val = ('agg', 'adt', 'Some', ('0',), (elems[k_],), 'std::option::Option')
        else:
            val = ('agg', 'adt', 'None', (), (), 'std::option::Option')
        st.path.events.append({'k': 'item', 'of': callee_name(t), 'alt': k_, 'kind': 'array-element' if k_ < len(elems) else 'array-end',
                               'bb': b, 'line': t['line'], 'depth': fr.evdepth})
        self.store(st, self.loc_of(st, fr, t['dest']), val)
        return True

    def _havoc(self, st, h, fr=None, summary=None, mutb=None):
        fr = fr or self.top
        locs, ext, has_call, ptrs, fields, wipe_all = summary if summary is not None else self.loop_havoc[h]
        mutb = self.mut_borrowed if mutb is None else mutb
        fid = fr.id
        # a pointer written through inside the loop may point to one of our own locals
        for l in ptrs:
            v = strip_upd(self.load(st, fr, (('loc', fid, l), ())))
            if v[0] == 'ref' and v[1][0][0] == 'loc':
                self.store(st, (v[1][0], ()), ('havoc', h, v[1][0][2]))
        for l in locs:
            self.store(st, (('loc', fid, l), ()), ('havoc', h, l))
        if has_call or ext:
            for l in mutb:
                if l not in locs:
                    self.store(st, (('loc', fid, l), ()), ('havoc', h, l))
        if wipe_all:
            for k in [k for k in st.mem if k[0][0] == 'ext']:
                del st.mem[k]
        elif fields:
            for k in [k for k in st.mem if k[0][0] == 'ext']:
                last = [e for e in k[1] if e[0] == 'f']
                if None in fields or (not k[1] and () in fields) or (last and last[-1][1] in fields) or (k[1] and not last):
                    del st.mem[k]
        st.epoch += 1

    # callees that rules treat as named atoms / anchors are never expanded
    ATOM_FUNCS = ('boolean::sweep_event::SweepEvent::<F>::is_vertical', 'boolean::sweep_event::SweepEvent::<F>::is_below',
                  'boolean::sweep_event::SweepEvent::<F>::is_above')

    OPTION_COMBINATORS = re.compile(r'^std::option::Option::<T>::(map|map_or|and_then|is_some_and|is_none_or)$')

    # ------------------------------------------------------------ models of std combinators (fork + concrete evaluation)
    ORD_T = 'std::cmp::Ordering'
    STD_MODELS = re.compile(
        r'^(std::option::Option::<T>::(map_or_else|filter|or_else|unwrap_or_else|or|and|zip|unwrap_or|xor)|'
        r'(?:std|core)::bool::<impl bool>::(then|then_some)|'
        r'std::cmp::Ordering::(is_gt|is_lt|is_ge|is_le|is_eq|is_ne|reverse|then|then_with)|'
        r'std::cmp::(PartialOrd|Ord)::(partial_cmp|cmp)|<f(32|64) as std::cmp::PartialOrd>::partial_cmp|'
        r'std::cmp::impls::<impl std::cmp::(?:PartialOrd|Ord) for \w+>::(partial_cmp|cmp)|'
        r'std::array::<impl \[T; N\]>::map)$')
    SCALAR_TYS = ('F', 'T', 'f32', 'f64', 'i32', 'i64', 'u32', 'u64', 'usize', 'isize', 'u8')

    @staticmethod
    def _ord(name):
        return ('c', ('enum', 'std::cmp::Ordering', name))

    @staticmethod
    def _ord_name(v):
        x = strip_upd(v)
        while x[0] in ('deref', 'refval') and len(x) > 1 and strip_upd(x[1])[0] in ('refval', 'c', 'agg', 'deref'):
            x = strip_upd(x[1])
        if x[0] == 'c' and isinstance(x[1], tuple) and x[1][0] == 'enum' and x[1][1].endswith('Ordering'):
            return x[1][2]
        if x[0] == 'agg' and x[1] == 'adt' and x[5].endswith('Ordering') and not x[4]:
            return x[2]
        return None

    @staticmethod
    def _some(v):
        return ('agg', 'adt', 'Some', ('0',), (v,), 'std::option::Option')

    def _callable(self, v):
        """(kind, payload) for a value used as a callable: a closure of this crate, a fn item of this crate, or a modelled std fn item"""
        c = strip_upd(v)
        while c[0] in ('refval',) and len(c) > 1:
            c = strip_upd(c[1])
        if c[0] == 'agg' and c[1] == 'closure':
            cb = self.facts.bodies.get(c[2])
            if cb is not None and not cb.loops() and len(cb.blocks) <= 80:
                return ('closure', (c, cb))
            return None
        if c[0] == 'c' and isinstance(c[1], tuple) and c[1][0] == 'fn':
            path = c[1][1]
            if re.match(r'^std::cmp::Ordering::(is_gt|is_lt|is_ge|is_le|is_eq|is_ne|reverse)$', path):
                return ('ordfn', path.split('::')[-1])
            cb = self.facts.bodies.get(path)
            if cb is not None and not cb.loops() and len(cb.blocks) <= 80 and path not in CANON_PARAMS:
                return ('fnitem', cb)
        return None

    def _ord_method(self, m, x):
        """value of Ordering::m(x) for a known or symbolic ordering x"""
        n = self._ord_name(x)
        if n is not None:
            v = {'Less': -1, 'Equal': 0, 'Greater': 1}[n]
            if m == 'reverse':
                return self._ord({-1: 'Greater', 0: 'Equal', 1: 'Less'}[v])
            return ('c', {'is_gt': v > 0, 'is_lt': v < 0, 'is_ge': v >= 0, 'is_le': v <= 0, 'is_eq': v == 0, 'is_ne': v != 0}[m])
        if m == 'reverse':
            return None
        op, ref = {'is_gt': ('eq', 'Greater'), 'is_lt': ('eq', 'Less'), 'is_ge': ('ne', 'Less'), 'is_le': ('ne', 'Greater'),
                   'is_eq': ('eq', 'Equal'), 'is_ne': ('ne', 'Equal')}[m]
        return ('op', op, x, self._ord(ref))

    def _apply(self, st, fr, b, t, cal, args, k):
        """run the callable `cal` on `args`, then k(state, result)"""
        kind, pl = cal
        if kind == 'ordfn':
            a0 = args[0]
            a0 = self.deref_ptr(st, fr, a0) if strip_upd(a0)[0] in ('ref', 'refval') else a0
            r = self._ord_method(pl, a0)
            if r is None:
                r = ('pcall', 'std::cmp::Ordering::' + pl, (a0,), 0)
            k(st, r)
            return
        if kind == 'closure':
            cval, cb = pl
            env = ('refval', cval) if cb.locals[1]['ty'].startswith('&') else cval
            fargs = (env,) + tuple(args)
        else:
            cb = pl
            fargs = tuple(args)
        if cb.arg_count != len(fargs):
            raise CannotAnalyse('arity of callable %s' % cb.id)
        self.seen_bodies.add(cb.id)
        st.path.events.append({'k': 'call', 'callee': cb.id, 'decl': cb.id, 'args': fargs, 'bb': b, 'line': t['line'], 'epoch': st.epoch,
                               'term': t, 'exp': t.get('exp', False), 'depth': fr.evdepth + 1, 'in': fr.body.id, 'inlined': True,
                               'expanded': True, 'pure': True, 'ret': ('c', ('zst', 'expanded')), 'applied': True})
        f2 = Frame(cb, fargs, fr.depth + 1)
        f2.evdepth = fr.evdepth
        f2.parent = fr
        self._frames[f2.id] = f2
        self._run(st, 0, f2, k)

    def _cases(self, st, fr, b, t, v, kind):
        """fork on an Option ('opt') or a bool ('bool'): list of (state, variant/bool, payload)"""
        o = strip_upd(simplify(subst(v, st.path.conds)))
        if kind == 'opt':
            if o[0] == 'agg' and o[1] == 'adt' and o[5].endswith('Option'):
                return [(st, o[2], o[4][0] if o[4] else None)]
            dv = simplify(subst(('discr', v), st.path.conds))
            if is_const(dv):
                var = 'Some' if int(dv[1]) == 1 else 'None'
                return [(st, var, simplify(('field', ('variant', v, 'Some'), '0')) if var == 'Some' else None)]
            out = []
            s2 = st.fork()
            for (s_, var, cond) in ((s2, 'None', ('eq', 0)), (st, 'Some', ('eq', 1))):
                dvv = ('discr', v)
                for (vv, cc) in normalise_cond(dvv, cond):
                    s_.path.conds.append((vv, cc))
                s_.path.events.append({'k': 'branch', 'val': dvv, 'cond': cond, 'bb': b, 'line': t['line'], 'depth': fr.evdepth})
                out.append((s_, var, simplify(('field', ('variant', v, 'Some'), '0')) if var == 'Some' else None))
            return out
        if is_const(o) and isinstance(o[1], (bool, int)):
            return [(st, bool(o[1]), None)]
        out = []
        s2 = st.fork()
        for (s_, val) in ((s2, False), (st, True)):
            for (vv, cc) in normalise_cond(o, ('eq', val)):
                s_.path.conds.append((vv, cc))
            s_.path.events.append({'k': 'branch', 'val': o, 'cond': ('eq', val), 'bb': b, 'line': t['line'], 'depth': fr.evdepth})
            out.append((s_, val, None))
        return out

    def std_model(self, st, fr, b, t, cont):
        """Option / bool / Ordering combinators and comparisons of scalars: evaluated by forking on the unknown and running the
        closures on the payload, so that `a.zip(b)`, `x.then(|| ..)`, `p.partial_cmp(q).filter(Ordering::is_ne).or_else(..)`,
        `cmp(..).is_gt()` mean to the rules what the if / match ladder they replace means.  Returns True when handled."""
        from facts import callee_name
        if not self.inline or fr.depth >= 6 or t.get('target') is None:
            return False
        name = callee_name(t)
        m = self.STD_MODELS.match(name)
        if not m:
            return False
        meth = name.split('::')[-1]
        args = tuple(self.operand(st, fr, a) for a in t['args'])
        dest, target = t['dest'], t['target']

        def done(st2, val):
            self.store(st2, self.loc_of(st2, fr, dest), val)
            self._run(st2, target, fr, cont)

        def note():
            st.path.events.append({'k': 'call', 'callee': name, 'decl': name, 'args': args, 'bb': b, 'line': t['line'], 'epoch': st.epoch,
                                   'term': t, 'exp': t.get('exp', False), 'depth': fr.evdepth, 'in': fr.body.id, 'inlined': True,
                                   'expanded': True, 'pure': True, 'ret': ('c', ('zst', 'expanded'))})

        # ---- [a, b, c].map(f): element by element
        if name.endswith('>::map') and name.startswith('std::array::'):
            arr = strip_upd(args[0])
            cal = self._callable(args[1]) if len(args) == 2 else None
            if not (arr[0] == 'agg' and arr[1] == 'array') or cal is None or len(arr[4]) > 8:
                return False
            note()
            elems = list(arr[4])

            def step(st2, acc, i):
                if i == len(elems):
                    done(st2, ('agg', 'array', None, (), tuple(acc), 'array'))
                    return
                self._apply(st2, fr, b, t, cal, (elems[i],), lambda s3, r: step(s3, acc + [r], i + 1))
            step(st, [], 0)
            return True
        # ---- Ordering methods
        if name.startswith('std::cmp::Ordering::'):
            if meth in ('then', 'then_with'):
                a = self._ord_name(args[0])
                if a is None:
                    return False
                if meth == 'then_with' and self._callable(args[1]) is None:
                    return False
                note()
                if a != 'Equal':
                    done(st, self._ord(a))
                elif meth == 'then':
                    done(st, args[1])
                else:
                    self._apply(st, fr, b, t, self._callable(args[1]), (), done)
                return True
            r = self._ord_method(meth, args[0])
            if r is None:
                return False
            note()
            done(st, simplify(r))
            return True
        # ---- three-way comparison of scalars
        if meth in ('partial_cmp', 'cmp'):
            tys = (t['callee'].get('args') or [])
            if not tys or tys[0] not in self.SCALAR_TYS or len(args) != 2:
                return False
            x, y = self.deref_ptr(st, fr, args[0]), self.deref_ptr(st, fr, args[1])
            note()
            s_lt, s_eq, s_gt = st.fork(), st.fork(), st
            for (s_, conds, res) in ((s_lt, [(('op', 'lt', x, y), True)], 'Less'),
                                     (s_eq, [(('op', 'lt', x, y), False), (('op', 'gt', x, y), False)], 'Equal'),
                                     (s_gt, [(('op', 'lt', x, y), False), (('op', 'gt', x, y), True)], 'Greater')):
                for (cv, val) in conds:
                    s_.path.conds.append((cv, ('eq', val)))
                    s_.path.events.append({'k': 'branch', 'val': cv, 'cond': ('eq', val), 'bb': b, 'line': t['line'], 'depth': fr.evdepth})
                r = self._ord(res)
                done(s_, self._some(r) if meth == 'partial_cmp' else r)
            return True
        # ---- bool::then / then_some
        if name.startswith('std::bool::') or name.startswith('core::bool::'):
            if meth == 'then' and self._callable(args[1]) is None:
                return False
            note()
            for (s_, val, _) in self._cases(st, fr, b, t, args[0], 'bool'):
                if not val:
                    done(s_, NONE)
                elif meth == 'then_some':
                    done(s_, self._some(args[1]))
                else:
                    self._apply(s_, fr, b, t, self._callable(args[1]), (), lambda s3, r: done(s3, self._some(r)))
            return True
        # ---- Option combinators
        clos = {'map_or_else': (1, 2), 'filter': (1,), 'or_else': (1,), 'unwrap_or_else': (1,)}.get(meth, ())
        for i in clos:
            if i >= len(args) or self._callable(args[i]) is None:
                return False
        note()
        if meth == 'zip':
            for (s1, v1, p1) in self._cases(st, fr, b, t, args[0], 'opt'):
                if v1 == 'None':
                    done(s1, NONE)
                    continue
                for (s2, v2, p2) in self._cases(s1, fr, b, t, args[1], 'opt'):
                    done(s2, NONE if v2 == 'None' else self._some(('agg', 'tuple', None, (), (p1, p2), 'tuple')))
            return True
        for (s_, var, pay) in self._cases(st, fr, b, t, args[0], 'opt'):
            some = var == 'Some'
            if meth == 'map_or_else':
                if some:
                    self._apply(s_, fr, b, t, self._callable(args[2]), (pay,), done)
                else:
                    self._apply(s_, fr, b, t, self._callable(args[1]), (), done)
            elif meth == 'filter':
                if not some:
                    done(s_, NONE)
                else:
                    def after(s3, r, pay=pay):
                        for (s4, val, _) in self._cases(s3, fr, b, t, r, 'bool'):
                            done(s4, self._some(pay) if val else NONE)
                    self._apply(s_, fr, b, t, self._callable(args[1]), (('refval', pay),), after)
            elif meth == 'or_else':
                if some:
                    done(s_, self._some(pay))
                else:
                    self._apply(s_, fr, b, t, self._callable(args[1]), (), done)
            elif meth == 'unwrap_or_else':
                if some:
                    done(s_, pay)
                else:
                    self._apply(s_, fr, b, t, self._callable(args[1]), (), done)
            elif meth == 'or':
                done(s_, self._some(pay) if some else args[1])
            elif meth == 'and':
                done(s_, args[1] if some else NONE)
            elif meth == 'xor':
                if some:
                    for (s2, v2, _) in self._cases(s_, fr, b, t, args[1], 'opt'):
                        done(s2, self._some(pay) if v2 == 'None' else NONE)
                else:
                    done(s_, args[1])
            elif meth == 'unwrap_or':
                done(s_, pay if some else args[1])
        return True

    def filter_next(self, st, fr, b, t, cont):
        """`for x in it.filter(pred)`: when next() of a std::iter::Filter yields Some(x), pred(&x) returned true (trusting std).
        The predicate (a closure / fn item of this crate) is run on the payload and only its true outcomes are continued, so the
        loop body sees the same assumptions as after `if !pred(&x) { continue; }`."""
        from facts import callee_name
        if not self.inline or t.get('target') is None or fr is not self.top:
            return False
        name = callee_name(t)
        if not re.match(r'^<std::iter::Filter<I, P> as std::iter::Iterator>::next$', name) or len(t['args']) != 1:
            return False
        a0 = strip_upd(self.operand(st, fr, t['args'][0]))
        if not (a0[0] == 'ref' and a0[1][0][0] == 'loc' and a0[1][1] == ()):
            return False
        loc_id = a0[1][0][2]
        src = None
        for e in reversed(st.path.events):
            if e['k'] == 'loophead' and loc_id in e.get('pre', {}):
                src = e['pre'][loc_id]
                break
        if src is None:
            src = self.load(st, fr, a0[1])
        pred = None
        for x in walk(src):
            if x[0] in ('call', 'pcall') and x[1].endswith('Iterator::filter') and len(x[2]) == 2:
                pred = self._callable(x[2][1])
                break           # the outermost adaptor is the one next() belongs to
            if x[0] in ('call', 'pcall') and re.search(r'Iterator::(map|skip|take|rev|chain|zip|enumerate)$', x[1]):
                break
        if pred is None:
            return False
        ret = self.do_call(st, fr, b, t)
        dest, target = t['dest'], t['target']
        s_none = st.fork()
        for (s_, cond) in ((s_none, ('eq', 0)), (st, ('eq', 1))):
            dvv = ('discr', ret)
            s_.path.conds.append((dvv, cond))
            s_.path.events.append({'k': 'branch', 'val': dvv, 'cond': cond, 'bb': b, 'line': t['line'], 'depth': fr.evdepth})
        self.store(s_none, self.loc_of(s_none, fr, dest), ret)
        self._run(s_none, target, fr, cont)
        payload = simplify(('field', ('variant', ret, 'Some'), '0'))

        def after(s3, r):
            for (s4, val, _) in self._cases(s3, fr, b, t, r, 'bool'):
                if val:
                    self.store(s4, self.loc_of(s4, fr, dest), ret)
                    self._run(s4, target, fr, cont)
                # a false outcome cannot be what Filter yielded: the path is dropped
        self._apply(st, fr, b, t, pred, (('refval', payload),), after)
        return True

    def _iter_items(self, v, depth=0):
        """the kinds of item an iterator value can yield: ('val', v) for once(v), ('map', callable, inner alternative),
        ('elem', source) for an element of an opaque source; chain concatenates.  None when there is nothing to gain."""
        x = strip_upd(v)
        if depth > 6 or x[0] not in ('call', 'pcall'):
            return [('elem', x)]
        n = x[1]
        if re.search(r'(IntoIterator>?::into_iter|Iterator::(by_ref|fuse|peekable))$', n) and len(x[2]) == 1:
            return self._iter_items(x[2][0], depth + 1)
        if n.endswith('iter::once') and len(x[2]) == 1:
            return [('val', x[2][0])]
        if n.endswith('Iterator::chain') and len(x[2]) == 2:
            return self._iter_items(x[2][0], depth + 1) + self._iter_items(x[2][1], depth + 1)
        if n.endswith('Iterator::map') and len(x[2]) == 2:
            cal = self._callable(x[2][1])
            if cal is not None and cal[0] in ('closure', 'fnitem'):
                return [('map', cal, alt) for alt in self._iter_items(x[2][0], depth + 1)]
        return [('elem', x)]

    def chain_next(self, st, fr, b, t, cont):
        """`for item in once(a).chain(xs.iter().map(f))`: next() of a std::iter::Chain whose parts are known yields either the
        once-value, or f(element) for an element of the mapped source (trusting std Chain / Once / Map): one path per kind of
        item, so the loop body sees what each kind of item is made of."""
        from facts import callee_name
        if not self.inline or t.get('target') is None or fr is not self.top:
            return False
        name = callee_name(t)
        if not re.match(r'^<std::iter::Chain<A, B> as std::iter::Iterator>::next$', name) or len(t['args']) != 1:
            return False
        a0 = strip_upd(self.operand(st, fr, t['args'][0]))
        if not (a0[0] == 'ref' and a0[1][0][0] == 'loc' and a0[1][1] == ()):
            return False
        loc_id = a0[1][0][2]
        src = None
        for e in reversed(st.path.events):
            if e['k'] == 'loophead' and loc_id in e.get('pre', {}):
                src = e['pre'][loc_id]
                break
        if src is None:
            return False
        alts = self._iter_items(src)
        if len(alts) < 2 or all(a[0] == 'elem' for a in alts):
            return False
        ret = self.do_call(st, fr, b, t)
        dest, target = t['dest'], t['target']
        s_none = st.fork()
        for (s_, cond) in ((s_none, ('eq', 0)), (st, ('eq', 1))):
            dvv = ('discr', ret)
            s_.path.conds.append((dvv, cond))
            s_.path.events.append({'k': 'branch', 'val': dvv, 'cond': cond, 'bb': b, 'line': t['line'], 'depth': fr.evdepth})
        self.store(s_none, self.loc_of(s_none, fr, dest), ('agg', 'adt', 'None', (), (), 'std::option::Option'))
        self._run(s_none, target, fr, cont)

        def some(s3, payload):
            self.store(s3, self.loc_of(s3, fr, dest), ('agg', 'adt', 'Some', ('0',), (payload,), 'std::option::Option'))
            self._run(s3, target, fr, cont)

        def produce(s3, alt, k):
            if alt[0] == 'val':
                k(s3, alt[1])
            elif alt[0] == 'elem':
                k(s3, ('field', ('variant', ('pcall', 'std::iter::Iterator::next', (alt[1],), 0), 'Some'), '0'))
            else:
                produce(s3, alt[2], lambda s4, inner: self._apply(s4, fr, b, t, alt[1], (inner,), k))

        for i, alt in enumerate(alts):
            s_i = st.fork() if i < len(alts) - 1 else st
            s_i.path.events.append({'k': 'item', 'of': name, 'alt': i, 'kind': alt[0], 'bb': b, 'line': t['line'], 'depth': fr.evdepth})
            produce(s_i, alt, some)
        return True

    def pairs_next(self, st, fr, b, t, cont):
        """`for (a, b) in pts.iter().zip(&pts[1..])` / `.zip(pts.iter().skip(1))`: the items are the pairs of consecutive elements
        (&pts[k], &pts[k+1]) (trusting std Zip / Skip / slice iterators).  The item is modelled as references to the `start` and
        `end` of one symbolic segment, which is what `LineString::lines()` yields by value: code that walks a ring this way looks
        to the rules like code that walks its lines."""
        from facts import callee_name
        if not self.inline or t.get('target') is None or fr is not self.top:
            return False
        name = callee_name(t)
        if not re.match(r'^<std::iter::Zip<A, B> as std::iter::Iterator>::next$', name) or len(t['args']) != 1:
            return False
        a0 = strip_upd(self.operand(st, fr, t['args'][0]))
        if not (a0[0] == 'ref' and a0[1][0][0] == 'loc' and a0[1][1] == ()):
            return False
        src = None
        for e in reversed(st.path.events):
            if e['k'] == 'loophead' and a0[1][0][2] in e.get('pre', {}):
                src = e['pre'][a0[1][0][2]]
                break
        if src is None or consecutive_pairs_source(src) is None:
            return False
        ret = self.do_call(st, fr, b, t)
        dest, target = t['dest'], t['target']
        s_none = st.fork()
        for (s_, cond) in ((s_none, ('eq', 0)), (st, ('eq', 1))):
            dvv = ('discr', ret)
            s_.path.conds.append((dvv, cond))
            s_.path.events.append({'k': 'branch', 'val': dvv, 'cond': cond, 'bb': b, 'line': t['line'], 'depth': fr.evdepth})
        self.store(s_none, self.loc_of(s_none, fr, dest), ('agg', 'adt', 'None', (), (), 'std::option::Option'))
        self._run(s_none, target, fr, cont)
        seg = ('field', ('variant', ret, 'Some'), '0')
        item = ('agg', 'tuple', None, (), (('refval', ('field', seg, 'start')), ('refval', ('field', seg, 'end'))), 'tuple')
        st.path.events.append({'k': 'item', 'of': name, 'alt': 0, 'kind': 'consecutive-pair', 'bb': b, 'line': t['line'], 'depth': fr.evdepth})
        self.store(st, self.loc_of(st, fr, dest), ('agg', 'adt', 'Some', ('0',), (item,), 'std::option::Option'))
        self._run(st, target, fr, cont)
        return True

    def fn_trait_call(self, st, fr, b, t, cont):
        """`f(x)` where f is a generic `impl Fn` parameter that holds a known closure / fn item of this crate (a helper such as
        `map_points(self, f)` expanded into its caller): the callable is applied"""
        from facts import callee_name
        if not self.inline or t.get('target') is None or fr.depth >= 6 or len(t['args']) != 2:
            return False
        if not re.search(r'ops::(Fn|FnMut|FnOnce)::(call|call_mut|call_once)$', callee_name(t)):
            return False
        v = strip_upd(self.operand(st, fr, t['args'][0]))
        for _ in range(4):
            if v[0] == 'ref' and v[1][0][0] == 'loc':
                v = strip_upd(self.load(st, fr, v[1]))
            elif v[0] == 'refval':
                v = strip_upd(v[1])
            else:
                break
        cal = self._callable(v)
        if cal is None or cal[0] not in ('closure', 'fnitem'):
            return False
        tup = strip_upd(self.operand(st, fr, t['args'][1]))
        if not (tup[0] == 'agg' and tup[1] == 'tuple'):
            return False
        dest, target = t['dest'], t['target']

        def after(s3, r):
            self.store(s3, self.loc_of(s3, fr, dest), r)
            self._run(s3, target, fr, cont)
        self._apply(st, fr, b, t, cal, tuple(tup[4]), after)
        return True

    def slice_contains(self, st, fr, b, t, cont):
        """`[a, b].contains(&x)` on a known array of at most four elements is  a == x || b == x : one comparison per element, forked
        like the short-circuit it stands for"""
        from facts import callee_name
        if not self.inline or t.get('target') is None or len(t['args']) != 2:
            return False
        if not re.search(r'slice::<impl \[T\]>::contains$', callee_name(t)):
            return False
        arr = strip_upd(self.operand(st, fr, t['args'][0]))
        for _ in range(4):
            if arr[0] == 'cast':
                arr = strip_upd(arr[2])
            elif arr[0] == 'ref' and arr[1][0][0] == 'loc':
                arr = strip_upd(self.load(st, fr, arr[1]))
            elif arr[0] == 'refval':
                arr = strip_upd(arr[1])
            else:
                break
        if not (arr[0] == 'agg' and arr[1] == 'array' and 1 <= len(arr[4]) <= 4):
            return False
        x = self.deref_ptr(st, fr, self.operand(st, fr, t['args'][1]))
        dest, target = t['dest'], t['target']

        def step(s_, i):
            if i == len(arr[4]):
                self.store(s_, self.loc_of(s_, fr, dest), ('c', False))
                self._run(s_, target, fr, cont)
                return
            for (s2, val, _) in self._cases(s_, fr, b, t, simplify(('op', 'eq', arr[4][i], x)), 'bool'):
                if val:
                    self.store(s2, self.loc_of(s2, fr, dest), ('c', True))
                    self._run(s2, target, fr, cont)
                else:
                    step(s2, i + 1)
        step(st, 0)
        return True

    def option_try(self, st, fr, t):
        """`opt?`: <Option<T> as Try>::branch(opt) -> the option value, else None"""
        from facts import callee_name
        if t.get('target') is None:
            return None
        name = callee_name(t)
        if not re.match(r'^<std::option::Option<T> as std::ops::Try>::branch$', name) or len(t['args']) != 1:
            return None
        return self.operand(st, fr, t['args'][0])

    def option_combinator(self, st, fr, t):
        """Option::map / map_or / and_then / is_some_and / is_none_or applied with a closure of this crate that captures nothing
        (or takes its environment by value): (kind, option value, closure value, closure body, default, callee name)"""
        from facts import callee_name
        if not self.inline or fr.depth >= 5 or t.get('target') is None:
            return None
        name = callee_name(t)
        m = self.OPTION_COMBINATORS.match(name)
        if not m:
            return None
        key = ('optcomb', id(t), st.epoch, len(st.path.events))
        kind = m.group(1)
        args = tuple(self.operand(st, fr, a) for a in t['args'])
        if kind == 'map_or':
            if len(args) != 3:
                return None
            opt, default, cval = args
        else:
            if len(args) != 2:
                return None
            opt, cval = args
            default = None
        c = strip_upd(cval)
        if not (c[0] == 'agg' and c[1] == 'closure'):
            return None
        ccb = self.facts.bodies.get(c[2])
        if ccb is None or ccb.loops() or len(ccb.blocks) > 60 or ccb.arg_count != 2:
            return None
        if ccb.locals[1]['ty'].startswith('&'):
            cval = ('refval', cval)     # the body reads its captures through a reference to the environment
        return kind, opt, cval, ccb, default, name

    def deep_inlinable(self, fr, t):
        """a local, loop-free helper with branches that no rule knows by name: expanded path by path, so that extracting a
        helper function out of an anchor does not change what the rules see"""
        from facts import callee_name
        if not self.inline or fr.depth >= (6 if self.expand else 3):
            return None
        name = callee_name(t)
        cb = self.facts.bodies.get(name)
        if cb is None or (name in CANON_PARAMS and name not in self.expand) or name in self.ATOM_FUNCS or any(name.startswith(o) for o in self.opaque):
            return None
        if (cb.j.get('impl') or {}).get('auto_derived') or cb.j.get('kind') == 'Closure':
            return None
        if is_straight_line(cb) or (cb.loops() and not (self.expand_loops and fr is self.top and len(cb.loops()) <= 2)
                                    and not array_loops_only(cb)) \
                or len(cb.blocks) > (250 if name in self.expand else 140) or t['target'] is None:
            return None
        f = fr
        while f is not None:
            if f.body.id == name:
                return None
            f = getattr(f, 'parent', None)
        return cb

    def _run(self, st, b, fr=None, cont=None):
        fr = fr or self.top
        body = fr.body
        top = fr is self.top
        while True:
            f_loops, f_havoc, f_mutb = self._frame_loops(fr)
            if b in f_loops and self._unroll_header(st, fr, b, f_havoc[b]):
                pass        # `for x in [a, b]`: a loop over a small fixed array is executed element by element, nothing is forgotten
            elif b in f_loops:
                hk = b if top else (short(body.id), b)          # header id: block number in the anchor, (helper, block) in a helper
                hid = b if top else (fr.id, b)
                if hid in st.headers:
                    self._finish(st, 'backedge', hk)
                    return
                st.headers = st.headers | {hid}
                pre = {}
                for l in set(f_havoc[b][0]) | set(f_mutb):
                    pre[l] = self.load(st, fr, (('loc', fr.id, l), ()))
                self._havoc(st, hk, fr, f_havoc[b], f_mutb)
                st.path.events.append({'k': 'loophead', 'bb': hk, 'depth': fr.evdepth, 'pre': pre, 'in': body.id})
            if top:
                st.path.blocks.append(b)
            bl = body.blocks[b]
            self.exec_stmts(st, fr, b, bl)
            t = bl['term']
            k = t['k']
            if k == 'goto':
                b = t['target']
            elif k == 'return':
                if top:
                    self._finish(st, 'return')
                else:
                    ret = self.load(st, fr, (('loc', fr.id, 0), ()))
                    for kk in [kk for kk in st.mem if kk[0][0] == 'loc' and kk[0][1] == fr.id]:
                        del st.mem[kk]
                    cont(st, ret)
                return
            elif k == 'unreachable':
                self._finish(st, 'unreachable')
                return
            elif k == 'drop':
                loc = self.loc_of(st, fr, t['place'])
                st.path.events.append({'k': 'drop', 'ty': t['ty'], 'loc': loc, 'val': self.load(st, fr, loc),
                                       'bb': b, 'line': t['line'], 'replace': t.get('replace', False), 'depth': fr.evdepth,
                                       'needs_drop': t.get('needs_drop', True), 'in': body.id})
                b = t['target']
            elif k == 'assert':
                self.record_assert(st, fr, b, t)
                b = t['target']
            elif k == 'call' and self.array_next(st, fr, b, t):
                b = t['target']
            elif k == 'call' and self.filter_next(st, fr, b, t, cont):
                return
            elif k == 'call' and self.chain_next(st, fr, b, t, cont):
                return
            elif k == 'call' and self.pairs_next(st, fr, b, t, cont):
                return
            elif k == 'call' and self.fn_trait_call(st, fr, b, t, cont):
                return
            elif k == 'call' and self.slice_contains(st, fr, b, t, cont):
                return
            elif k == 'call' and self.std_model(st, fr, b, t, cont):
                return
            elif k == 'call' and self.option_try(st, fr, t) is not None:
                opt = self.option_try(st, fr, t)
                from facts import callee_name
                dest, target = t['dest'], t['target']
                st.path.events.append({'k': 'call', 'callee': callee_name(t), 'decl': callee_name(t), 'args': (opt,), 'bb': b, 'line': t['line'],
                                       'epoch': st.epoch, 'term': t, 'exp': t.get('exp', False), 'depth': fr.evdepth, 'in': body.id,
                                       'inlined': True, 'expanded': True, 'pure': True, 'ret': ('c', ('zst', 'expanded'))})
                o = strip_upd(simplify(subst(opt, st.path.conds)))
                if o[0] == 'agg' and o[1] == 'adt' and o[5].endswith('Option'):
                    cases = [(o[2], None)]
                else:
                    dv = simplify(subst(('discr', opt), st.path.conds))
                    if is_const(dv):
                        cases = [('Some' if int(dv[1]) == 1 else 'None', None)]
                    else:
                        cases = [('None', ('eq', 0)), ('Some', ('eq', 1))]
                for i, (variant, cond) in enumerate(cases):
                    s2 = st.fork() if i < len(cases) - 1 else st
                    if cond is not None:
                        dvv = ('discr', opt)
                        for (vv, cc) in normalise_cond(dvv, cond):
                            s2.path.conds.append((vv, cc))
                        s2.path.events.append({'k': 'branch', 'val': dvv, 'cond': cond, 'bb': b, 'line': t['line'], 'depth': fr.evdepth})
                    if variant == 'None':
                        val = ('agg', 'adt', 'Break', ('0',), (NONE,), 'std::ops::ControlFlow')
                    else:
                        payload = o[4][0] if (o[0] == 'agg' and o[2] == 'Some' and o[4]) else simplify(('field', ('variant', opt, 'Some'), '0'))
                        val = ('agg', 'adt', 'Continue', ('0',), (payload,), 'std::ops::ControlFlow')
                    self.store(s2, self.loc_of(s2, fr, dest), val)
                    self._run(s2, target, fr, cont)
                return
            elif k == 'call' and self.option_combinator(st, fr, t) is not None:
                kind, opt, cval, ccb, default, cname = self.option_combinator(st, fr, t)
                dest, target = t['dest'], t['target']
                st.path.events.append({'k': 'call', 'callee': cname, 'decl': cname, 'args': (opt,) + ((default,) if default is not None else ()) + (cval,),
                                       'bb': b, 'line': t['line'], 'epoch': st.epoch, 'term': t, 'exp': t.get('exp', False), 'depth': fr.evdepth,
                                       'in': body.id, 'inlined': True, 'expanded': True, 'pure': True, 'ret': ('c', ('zst', 'expanded'))})
                o = strip_upd(simplify(subst(opt, st.path.conds)))
                if o[0] == 'agg' and o[1] == 'adt' and o[5].endswith('Option'):
                    cases = [(o[2], None)]
                else:
                    dv = simplify(subst(('discr', opt), st.path.conds))
                    if is_const(dv):
                        cases = [('Some' if int(dv[1]) == 1 else 'None', None)]
                    else:
                        cases = [('None', ('eq', 0)), ('Some', ('eq', 1))]
                none_ret = {'map': NONE, 'and_then': NONE, 'map_or': default, 'is_some_and': ('c', False), 'is_none_or': ('c', True)}[kind]
                for i, (variant, cond) in enumerate(cases):
                    s2 = st.fork() if i < len(cases) - 1 else st
                    if cond is not None:
                        dvv = ('discr', opt)
                        for (vv, cc) in normalise_cond(dvv, cond):
                            s2.path.conds.append((vv, cc))
                        s2.path.events.append({'k': 'branch', 'val': dvv, 'cond': cond, 'bb': b, 'line': t['line'], 'depth': fr.evdepth})
                    if variant == 'None':
                        self.store(s2, self.loc_of(s2, fr, dest), none_ret)
                        self._run(s2, target, fr, cont)
                        continue
                    if o[0] == 'agg' and o[2] == 'Some' and o[4]:
                        payload = o[4][0]
                    else:
                        payload = simplify(('field', ('variant', opt, 'Some'), '0'))
                    s2.path.events.append({'k': 'call', 'callee': ccb.id, 'decl': ccb.id, 'args': (cval, payload), 'bb': b, 'line': t['line'],
                                           'epoch': s2.epoch, 'term': t, 'exp': t.get('exp', False), 'depth': fr.evdepth + 1, 'in': body.id,
                                           'inlined': True, 'expanded': True, 'pure': True, 'ret': ('c', ('zst', 'expanded')), 'applied': True})
                    f2 = Frame(ccb, (cval, payload), fr.depth + 1)
                    f2.evdepth = fr.evdepth
                    f2.parent = fr
                    self._frames[f2.id] = f2

                    def resume(st2, ret, fr=fr, dest=dest, target=target, cont=cont, kind=kind):
                        if kind == 'map':
                            ret = ('agg', 'adt', 'Some', ('0',), (ret,), 'std::option::Option')
                        self.store(st2, self.loc_of(st2, fr, dest), ret)
                        self._run(st2, target, fr, cont)
                    self._run(s2, 0, f2, resume)
                return
            elif k == 'call':
                cb = self.deep_inlinable(fr, t)
                if cb is not None:
                    from facts import callee_name
                    args = untuple_closure_args(cb, tuple(self.operand(st, fr, a) for a in t['args']))
                    ev = {'k': 'call', 'callee': callee_name(t), 'decl': callee_name(t), 'args': args, 'bb': b, 'line': t['line'],
                          'epoch': st.epoch, 'term': t, 'exp': t.get('exp', False), 'depth': fr.evdepth, 'in': body.id,
                          'inlined': True, 'expanded': True, 'pure': False, 'ret': ('c', ('zst', 'expanded'))}
                    st.path.events.append(ev)
                    self.seen_bodies.add(cb.id)
                    f2 = Frame(cb, args, fr.depth + 1)
                    f2.evdepth = fr.evdepth
                    f2.parent = fr
                    self._frames[f2.id] = f2
                    dest, target = t['dest'], t['target']

                    def resume(st2, ret, fr=fr, dest=dest, target=target, cont=cont, ev=ev):
                        self.store(st2, self.loc_of(st2, fr, dest), ret)
                        self._run(st2, target, fr, cont)
                    self._run(st, 0, f2, resume)
                    return
                ret = self.do_call(st, fr, b, t)
                if t['target'] is None:
                    self._finish(st, 'diverge', st.path.events[-1])
                    return
                self.store(st, self.loc_of(st, fr, t['dest']), ret)
                b = t['target']
            elif k == 'switch':
                v = self.operand(st, fr, t['discr'])
                v = simplify(subst(v, st.path.conds))
                if is_const(v):
                    b = switch_target(t, v)
                    continue
                is_bool = t.get('discr_ty') == 'bool'
                targets = [(int(x), bb) for x, bb in t['targets']]
                vals = [x for x, _ in targets]
                other_bb = t['otherwise']
                if is_bool:
                    branches = [(('eq', bool(x)), bb) for x, bb in targets]
                    if len(targets) == 1:
                        branches.append((('eq', not bool(targets[0][0])), other_bb))
                else:
                    branches = [(('eq', x), bb) for x, bb in targets]
                    ob = body.blocks[other_bb]
                    if ob['term']['k'] != 'unreachable' or ob['stmts']:
                        branches.append((('notin', tuple(vals)), other_bb))
                excluded = set()
                for (vv, cc) in st.path.conds:
                    if vv == v and cc[0] == 'notin':
                        excluded.update(cc[1])
                branches = [(c, bb) for (c, bb) in branches if not (c[0] == 'eq' and c[1] in excluded)]
                for i, (c, bb) in enumerate(branches):
                    s2 = st.fork() if i < len(branches) - 1 else st
                    for (vv, cc) in normalise_cond(v, c):
                        s2.path.conds.append((vv, cc))
                    s2.path.events.append({'k': 'branch', 'val': v, 'cond': c, 'bb': b, 'line': t['line'], 'depth': fr.evdepth})
                    self._run(s2, bb, fr, cont)
                return
            else:
                self._finish(st, 'other', k)
                return


def switch_target(t, v):
    cv = int(v[1])
    nxt = t['otherwise']
    for x, bb in t['targets']:
        if int(x) == cv:
            nxt = bb
    return nxt


def untuple_closure_args(cb, args):
    """a closure called through Fn / FnMut / FnOnce receives (environment, (a, b, ..)); its body takes (environment, a, b, ..)"""
    if cb.j.get('kind') == 'Closure' and len(args) == 2 and cb.arg_count != 2:
        tup = strip_upd(args[1])
        if tup[0] == 'agg' and tup[1] == 'tuple' and len(tup[4]) == cb.arg_count - 1:
            return (args[0],) + tuple(tup[4])
    if cb.j.get('kind') == 'Closure' and len(args) == 2 and cb.arg_count == 2:
        tup = strip_upd(args[1])
        if tup[0] == 'agg' and tup[1] == 'tuple' and len(tup[4]) == 1:
            return (args[0], tup[4][0])
    if cb.j.get('kind') == 'Closure' and len(args) == 2 and cb.arg_count == 1:
        tup = strip_upd(args[1])
        if tup[0] == 'agg' and tup[1] == 'tuple' and len(tup[4]) == 0:
            return (args[0],)
    return args


def is_straight_line(body):
    """no conditional control flow on the normal path (asserts and calls allowed), no loop"""
    seen = set()
    b = 0
    while True:
        if b in seen:
            return False
        seen.add(b)
        t = body.blocks[b]['term']
        k = t['k']
        if k == 'return':
            return True
        if k in ('goto', 'drop', 'assert'):
            b = t['target']
        elif k == 'call':
            if t['target'] is None:
                return False
            cd = (t.get('callee') or {}).get('def') or ''
            if IMPLICIT_BRANCH.match(cd):
                return False        # evaluated by forking (Option / bool / Ordering combinators, `?`, three-way comparisons)
            b = t['target']
        else:
            return False


def array_loops_only(body):
    """every loop of the body advances a std::array::IntoIter (a `for` over a fixed-size array)"""
    from facts import callee_name
    loops = body.loops()
    if not loops:
        return False
    for h, blocks in loops.items():
        if not any(body.blocks[bb]['term']['k'] == 'call' and
                   re.match(r'^<std::array::IntoIter<T, N> as std::iter::Iterator>::next$', callee_name(body.blocks[bb]['term'])) for bb in blocks):
            return False
    return True


def consecutive_pairs_source(v):
    """the collection P when the iterator value v yields exactly the pairs of consecutive elements of P:
    zip(iter(P), iter(P[1..]))  or  zip(iter(P), skip(iter(P), 1));  None otherwise"""
    x = strip_upd(v)
    while x[0] in ('call', 'pcall') and x[1].endswith('into_iter') and len(x[2]) == 1:
        x = strip_upd(x[2][0])
    if not (x[0] in ('call', 'pcall') and x[1].endswith('Iterator::zip') and len(x[2]) == 2):
        return None

    def coll(y):
        """the collection a plain element iterator runs over (through deref / as_slice / references)"""
        y = strip_upd(y)
        while y[0] in ('call', 'pcall') and len(y[2]) == 1 and re.search(r'(IntoIterator>?::into_iter|slice::<impl \[T\]>::iter|Vec::<T(, A)?>::as_slice|as std::ops::Deref>::deref)$', y[1]):
            y = strip_upd(y[2][0])
        return noepoch(y)

    first = strip_upd(x[2][0])
    second = strip_upd(x[2][1])
    while second[0] in ('call', 'pcall') and second[1].endswith('into_iter') and len(second[2]) == 1:
        second = strip_upd(second[2][0])
    p1 = coll(first)
    p2 = None
    if second[0] in ('call', 'pcall') and second[1].endswith('Iterator::skip') and len(second[2]) == 2 and is_const(strip_upd(second[2][1])) \
            and strip_upd(second[2][1])[1] == 1:
        p2 = coll(second[2][0])
    else:
        y = second
        while y[0] in ('call', 'pcall') and len(y[2]) == 1 and re.search(r'(slice::<impl \[T\]>::iter|IntoIterator>?::into_iter)$', y[1]):
            y = strip_upd(y[2][0])
        if y[0] in ('call', 'pcall') and re.search(r'ops::Index<.*>>::index$', y[1]) and len(y[2]) == 2:
            r_ = strip_upd(y[2][1])
            if r_[0] == 'agg' and r_[5].endswith('::RangeFrom') and len(r_[4]) == 1 and is_const(strip_upd(r_[4][0])) and strip_upd(r_[4][0])[1] == 1:
                p2 = coll(y[2][0])
    if p2 is None or p1 != p2 or p1[0] in ('call', 'pcall'):
        return None
    return p1


IMPLICIT_BRANCH = re.compile(
    r'^(std::option::Option::<T>::(map|map_or|map_or_else|and_then|is_some_and|is_none_or|filter|or_else|unwrap_or_else|or|and|zip|unwrap_or|xor)|'
    r'(?:std|core)::bool::<impl bool>::(then|then_some)|std::cmp::Ordering::(is_gt|is_lt|is_ge|is_le|is_eq|is_ne|reverse|then|then_with)|'
    r'std::cmp::(PartialOrd|Ord)::(partial_cmp|cmp)|<f(32|64) as std::cmp::PartialOrd>::partial_cmp|'
    r'std::cmp::impls::<impl std::cmp::(?:PartialOrd|Ord) for \w+>::(partial_cmp|cmp)|'
    r'<std::option::Option<T> as std::ops::Try>::branch|std::array::<impl \[T; N\]>::map)$')


def strip_upd(v):
    while v[0] == 'upd':
        v = v[1]
    return v


def normalise_cond(v, c):
    """push a branch assumption through `not`, so later reads of the inner term simplify"""
    if v[0] == 'op' and v[1] == 'not' and c[0] == 'eq' and isinstance(c[1], bool):
        return normalise_cond(v[2], ('eq', not c[1]))
    return [(v, c)]


# ------------------------------------------------------------ simplification

def is_const(v):
    return v[0] == 'c' and not isinstance(v[1], tuple)


def simplify(v):
    if v[0] != 'op':
        return v
    name = v[1]
    a = simplify(v[2])
    if name == 'not':
        if is_const(a) and isinstance(a[1], bool):
            return ('c', not a[1])
        if a[0] == 'op' and a[1] == 'not':
            return a[2]
        return ('op', 'not', a)
    if len(v) < 4:
        return ('op', name, a)
    b = simplify(v[3])
    if is_const(a) and is_const(b):
        x, y = a[1], b[1]
        if name == 'eq':
            return ('c', x == y)
        if name == 'ne':
            return ('c', x != y)
        if isinstance(x, bool) and isinstance(y, bool):
            if name == 'bitand':
                return ('c', x and y)
            if name == 'bitor':
                return ('c', x or y)
            if name == 'bitxor':
                return ('c', x != y)
        elif not isinstance(x, bool) and not isinstance(y, bool):
            if name == 'lt':
                return ('c', x < y)
            if name == 'le':
                return ('c', x <= y)
            if name == 'gt':
                return ('c', x > y)
            if name == 'ge':
                return ('c', x >= y)
    if name in ('eq', 'ne') and a[0] == 'c' and b[0] == 'c' and isinstance(a[1], tuple) and isinstance(b[1], tuple) \
            and a[1][0] == 'enum' and b[1][0] == 'enum':
        r = a[1] == b[1]
        return ('c', r if name == 'eq' else not r)
    return ('op', name, a, b)


def subst(v, conds):
    if not conds:
        return v
    table = {}
    for term, c in conds:
        if c[0] == 'eq':
            table[term] = c[1]
    if not table:
        return v
    return _subst(v, table)


def _subst(v, table):
    if v in table:
        return ('c', table[v])
    if v[0] == 'op':
        return ('op', v[1]) + tuple(_subst(x, table) for x in v[2:])
    if v[0] == 'discr':
        return v
    return v


# ------------------------------------------------------------------- helpers

def noepoch(v):
    """drop epochs / call-site numbers so that reads of the same place compare equal
    (only to be used where the rule argues the place is not written in between)"""
    if not isinstance(v, tuple) or not v:
        return v
    k = v[0]
    if k == 'deref':
        return ('deref', noepoch(v[1]))
    if k == 'pcall':
        return ('pcall', v[1], tuple(noepoch(x) for x in v[2]))
    if k == 'call':
        return ('call', v[1], tuple(noepoch(x) for x in v[2]))
    if k == 'c':
        return v
    if k == 'ref':
        return ('ref', (noepoch(v[1][0]), tuple(noepoch(e) if isinstance(e, tuple) else e for e in v[1][1])), v[2])
    return tuple(noepoch(x) if isinstance(x, tuple) else x for x in v)


def walk(v):
    stack = [v]
    while stack:
        x = stack.pop()
        if not isinstance(x, tuple) or not x:
            continue
        if isinstance(x[0], str):
            yield x
        for y in x:
            if isinstance(y, tuple):
                stack.append(y)


def contains(v, pred):
    return any(pred(x) for x in walk(v))


def show(v, depth=0):
    if not isinstance(v, tuple) or not v:
        return repr(v)
    k = v[0]
    if depth > 10:
        return '...'
    d = depth + 1
    if k == 'c':
        x = v[1]
        if isinstance(x, tuple):
            if x[0] == 'enum':
                return '%s::%s' % (x[1].split('::')[-1], x[2])
            if x[0] == 'float':
                return x[1]
            if x[0] == 'fn':
                return 'fn ' + short(x[1])
            return '<%s>' % (x[0],)
        return str(x)
    if k == 'param':
        return v[2]
    if k == 'field':
        return '%s.%s' % (show(v[1], d), v[2])
    if k == 'variant':
        return '(%s as %s)' % (show(v[1], d), v[2])
    if k == 'deref':
        return '*%s' % show(v[1], d)
    if k == 'index':
        return '%s[%s]' % (show(v[1], d), show(v[2], d))
    if k == 'ref':
        return '&%s' % (locstr(v[1]),)
    if k == 'refval':
        return '&%s' % show(v[1], d)
    if k == 'agg':
        return '%s{%s}' % ((v[5].split('::')[-1] + ('::' + v[2] if v[2] else '')) if v[1] == 'adt' else v[1],
                           ', '.join(show(x, d) for x in v[4]))
    if k in ('call', 'pcall'):
        return '%s(%s)' % (short(v[1]), ', '.join(show(x, d) for x in v[2]))
    if k == 'op':
        return '%s(%s)' % (v[1], ', '.join(show(x, d) for x in v[2:]))
    if k == 'discr':
        return 'discr(%s)' % show(v[1], d)
    if k == 'havoc':
        return 'havoc@bb%s(_%s)' % (v[1], v[2])
    if k == 'upd':
        return 'upd(%s; %s)' % (show(v[1], d), ', '.join('%s=%s' % ('.'.join(str(e[1]) for e in p), show(x, d)) for p, x in v[2]))
    if k == 'cast':
        return '(%s as %s)' % (show(v[2], d), v[3])
    if k == 'modified':
        return 'modified_by[%s](%s)' % (short(v[1]), show(v[4], d))
    if k == 'rcptr':
        return 'rc(%s)' % show(v[1], d)
    if k == 'boxptr':
        return 'box(%s)' % show(v[1], d)
    if k == 'vec':
        return 'vec[%s]' % ', '.join(show(x, d) for x in v[1])
    if k == 'guard':
        return 'guard(%s)' % show(v[1], d)
    if k == 'cell':
        return 'cell(%s)' % show(v[1], d)
    return '<%s>' % k


def locstr(loc):
    base, path = loc
    if base[0] == 'ext':
        s = '*' + show(base[1])
    else:
        s = '_%d' % base[2]
    for e in path:
        s += '.%s' % (e[1] if e[0] != 'i' else '[%s]' % show(e[1]))
    return s
