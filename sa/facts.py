"""Loading and indexing of the bofacts JSON (MIR + type/item facts)."""
import json, glob, os


class Body:
    def __init__(self, j):
        self.j = j
        self.id = j['id']
        self.blocks = j['blocks']
        self.locals = j['locals']
        self.arg_count = j['arg_count']
        self.file = j['file']
        self._succ = None
        self._dom = None

    def __repr__(self):
        return 'Body(%s)' % self.id

    def local_name(self, l):
        return self.locals[l].get('name') or '_%d' % l

    def arg_names(self):
        return [self.local_name(i) for i in range(1, self.arg_count + 1)]

    def loc(self, line):
        return '%s:%s' % (self.file, line)

    # ---- CFG (non-cleanup, unwind edges dropped)
    def succ(self, b):
        if self._succ is None:
            self._succ = [normal_successors(bl['term']) for bl in self.blocks]
        return self._succ[b]

    def reachable_blocks(self):
        seen, work = set(), [0]
        while work:
            b = work.pop()
            if b in seen:
                continue
            seen.add(b)
            work.extend(self.succ(b))
        return seen

    def preds(self):
        p = {b: [] for b in range(len(self.blocks))}
        for b in self.reachable_blocks():
            for s in self.succ(b):
                p[s].append(b)
        return p

    def dominators(self):
        """dom[b] = set of blocks dominating b (iterative; bodies are small)."""
        if self._dom is not None:
            return self._dom
        reach = sorted(self.reachable_blocks())
        preds = self.preds()
        allb = set(reach)
        dom = {b: set(allb) for b in reach}
        dom[0] = {0}
        changed = True
        while changed:
            changed = False
            for b in reach:
                if b == 0:
                    continue
                ps = [dom[p] for p in preds[b] if p in dom]
                new = set.intersection(*ps) if ps else set()
                new = new | {b}
                if new != dom[b]:
                    dom[b] = new
                    changed = True
        self._dom = dom
        return dom

    def back_edges(self):
        dom = self.dominators()
        out = []
        for b in self.reachable_blocks():
            for s in self.succ(b):
                if s in dom[b]:
                    out.append((b, s))
        return out

    def loops(self):
        """natural loops: header -> set of blocks"""
        preds = self.preds()
        loops = {}
        for (t, h) in self.back_edges():
            body = loops.setdefault(h, {h})
            work = [t]
            while work:
                x = work.pop()
                if x in body:
                    continue
                body.add(x)
                work.extend(preds[x])
        return loops

    def calls(self, cleanup=False):
        """yield (bb, term) for call terminators in reachable non-cleanup blocks"""
        rb = self.reachable_blocks()
        for i, bl in enumerate(self.blocks):
            if bl['cleanup'] and not cleanup:
                continue
            if i not in rb and not cleanup:
                continue
            t = bl['term']
            if t['k'] in ('call', 'tailcall'):
                yield i, t


def normal_successors(t):
    k = t['k']
    if k == 'goto':
        return [t['target']]
    if k == 'switch':
        out = []
        for _, b in t['targets']:
            if b not in out:
                out.append(b)
        if t['otherwise'] not in out:
            out.append(t['otherwise'])
        return out
    if k in ('drop', 'assert'):
        return [t['target']]
    if k == 'call':
        return [t['target']] if t['target'] is not None else []
    return []


def callee_name(t):
    """best name for the function a call terminator invokes (resolved if possible)"""
    c = t['callee']
    if 'def' not in c:
        return '<indirect>'
    r = c.get('resolved')
    if r:
        return r['def']
    return c['def']


def callee_decl(t):
    c = t['callee']
    return c.get('def', '<indirect>')


class Facts:
    def __init__(self, j):
        self.j = j
        self.bodies = {b['id']: Body(b) for b in j['bodies']}
        self.items = j['items']
        self.adts = {a['def']: a for a in j['adts']}
        self.unsafe_blocks = j['unsafe_blocks']
        self.drop_graph = {n['ty']: n for n in j['drop_graph']}
        self.type_reach = {n['ty']: n for n in j['type_reach']}
        self.cfg = j['cfg']

    @staticmethod
    def load(path):
        with open(path) as f:
            return Facts(json.load(f))

    def body(self, name):
        """exact id, else unique suffix match"""
        if name in self.bodies:
            return self.bodies[name]
        c = [b for k, b in self.bodies.items() if k.endswith('::' + name)]
        if len(c) == 1:
            return c[0]
        return None

    def enum_variants(self, adt):
        a = self.adts.get(adt)
        if not a:
            return None
        return [v['name'] for v in a['variants']]
