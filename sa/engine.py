"""Run context for the static checks: fact extraction (cached per tree state),
obligation bookkeeping, known findings, evidence and violation reports."""
import fcntl
import hashlib
import json
import os
import subprocess
import sys
import time

VERIF = os.path.dirname(os.path.dirname(os.path.abspath(__file__)))
REPO = os.environ.get('VERIF_REPO', '/repo')
WORK = os.path.join(VERIF, '.work')
DRIVER = os.path.join(VERIF, 'bofacts', 'target', 'release', 'bofacts')

sys.path.insert(0, os.path.join(VERIF, 'sa'))
from facts import Facts          # noqa: E402
from models import Purity        # noqa: E402
import sym                       # noqa: E402


def tree_hash(repo):
    h = hashlib.sha256()
    files = []
    for root in ('Cargo.toml', 'Cargo.lock', 'lib', 'tests/Cargo.toml', 'tests/src'):
        p = os.path.join(repo, root)
        if os.path.isfile(p):
            files.append(p)
        elif os.path.isdir(p):
            for d, ds, fs in os.walk(p):
                ds[:] = sorted(x for x in ds if x not in ('target', '.git'))
                for f in sorted(fs):
                    files.append(os.path.join(d, f))
    for f in files:
        h.update(os.path.relpath(f, repo).encode())
        with open(f, 'rb') as fh:
            h.update(hashlib.sha256(fh.read()).digest())
    if os.path.exists(DRIVER):
        st = os.stat(DRIVER)
        h.update(('%d-%d' % (st.st_size, int(st.st_mtime))).encode())
    h.update(repo.encode())
    return h.hexdigest()[:20]


def tree_hash_dir(d):
    h = hashlib.sha256()
    for root, ds, fs in os.walk(d):
        ds[:] = sorted(x for x in ds if x != 'target')
        for f in sorted(fs):
            with open(os.path.join(root, f), 'rb') as fh:
                h.update(f.encode() + hashlib.sha256(fh.read()).digest())
    if os.path.exists(DRIVER):
        st = os.stat(DRIVER)
        h.update(('%d-%d' % (st.st_size, int(st.st_mtime))).encode())
    return h.hexdigest()[:16]


DEP_CRATES = 'robust,float_next_after,num_traits,geo_types'

CONFIGS = {
    # name: (crate list, cargo args)
    'default': ('geo_booleanop', ['-p', 'geo-booleanop']),
    'debugfeat': ('geo_booleanop', ['-p', 'geo-booleanop', '--features', 'debug-booleanop']),
    'release': ('geo_booleanop', ['-p', 'geo-booleanop', '--release']),
    'tests': ('geo_booleanop_tests', ['-p', 'geo-booleanop-tests']),
}


def extract(repo, config):
    """returns path of the fact file for (tree state, config); extracts when missing"""
    os.makedirs(WORK, exist_ok=True)
    if not os.path.exists(DRIVER):
        raise SystemExit('bofacts driver not built: run setup (./setup.sh)')
    th = tree_hash(repo)
    out = os.path.join(WORK, 'facts-%s-%s' % (th, config))
    lock = open(os.path.join(WORK, 'lock-%s-%s' % (th, config)), 'w')
    fcntl.flock(lock, fcntl.LOCK_EX)
    try:
        crates, args = CONFIGS[config]
        found = _fact_file(out, crates)
        if found:
            return found, th, False
        t0 = time.time()
        r = subprocess.run([os.path.join(VERIF, 'extract.sh'), repo, out, crates] + args,
                           stdout=subprocess.PIPE, stderr=subprocess.STDOUT, text=True)
        if r.returncode != 0:
            sys.stdout.write(r.stdout[-4000:])
            raise BuildFailed('fact extraction failed for config %s (the tree does not compile?)' % config)
        found = _fact_file(out, crates)
        if not found:
            raise BuildFailed('driver produced no fact file for %s' % config)
        _gc()
        return found, th, True
    finally:
        fcntl.flock(lock, fcntl.LOCK_UN)
        lock.close()


class BuildFailed(Exception):
    pass


def _fact_file(out, crates):
    if not os.path.isdir(out):
        return None
    name = crates.split(',')[0]
    c = sorted(f for f in os.listdir(out) if f.startswith(name + '-') and f.endswith('.json'))
    return os.path.join(out, c[-1]) if c else None


def _gc(keep=40):
    """remove old fact directories / lock files (keep the most recent ones, never anything younger than an hour)"""
    try:
        ds = [os.path.join(WORK, d) for d in os.listdir(WORK) if d.startswith('facts-')]
        ds.sort(key=lambda p: os.stat(p).st_mtime, reverse=True)
        for d in ds[keep:]:
            if time.time() - os.stat(d).st_mtime < 3600:
                continue
            subprocess.run(['rm', '-rf', d])
        ls = [os.path.join(WORK, d) for d in os.listdir(WORK) if d.startswith('lock-')]
        ls.sort(key=lambda p: os.stat(p).st_mtime, reverse=True)
        for d in ls[keep * 2:]:
            if time.time() - os.stat(d).st_mtime > 3600:
                os.unlink(d)
    except OSError:
        pass


class Ctx:
    def __init__(self, repo=REPO, tier='quick', config='default'):
        self.repo = repo
        self.tier = tier
        self.config = config
        self._facts = {}
        self._purity = {}
        self._paths = {}
        self.tree = None
        self.extracted = []

    def facts(self, config=None):
        config = config or self.config
        if config not in self._facts:
            path, th, fresh = extract(self.repo, config)
            self.tree = th
            self.extracted.append({'config': config, 'fresh': fresh, 'file': os.path.relpath(path, VERIF)})
            self._facts[config] = Facts.load(path)
        return self._facts[config]

    def fixture(self):
        """facts of the positive-control crate (/verif/fixtures/positive), extracted with the same driver"""
        if 'fixture' not in self._facts:
            fx = os.path.join(VERIF, 'fixtures', 'positive')
            th = tree_hash_dir(fx)
            out = os.path.join(WORK, 'fixture-%s' % th)
            lock = open(os.path.join(WORK, 'lock-fixture'), 'w')
            fcntl.flock(lock, fcntl.LOCK_EX)
            try:
                found = _fact_file(out, 'positive')
                if not found:
                    r = subprocess.run([os.path.join(VERIF, 'extract.sh'), fx, out, 'positive'],
                                       stdout=subprocess.PIPE, stderr=subprocess.STDOUT, text=True)
                    if r.returncode != 0:
                        sys.stdout.write(r.stdout[-3000:])
                        raise BuildFailed('positive-control fixture does not build')
                    found = _fact_file(out, 'positive')
                self._facts['fixture'] = Facts.load(found)
            finally:
                fcntl.flock(lock, fcntl.LOCK_UN)
                lock.close()
        return self._facts['fixture']

    def dep_facts(self):
        """facts of the dependency crates (dumped with RUSTC_WRAPPER); dict crate -> Facts"""
        if '_deps' in self._facts:
            return self._facts['_deps']
        th = tree_hash(self.repo)
        out = os.path.join(WORK, 'facts-%s-deps' % th)
        lock = open(os.path.join(WORK, 'lock-%s-deps' % th), 'w')
        fcntl.flock(lock, fcntl.LOCK_EX)
        try:
            names = DEP_CRATES.split(',')
            if not (os.path.isdir(out) and all(_fact_file(out, n) for n in names)):
                r = subprocess.run([os.path.join(VERIF, 'extract_deps.sh'), self.repo, out, DEP_CRATES],
                                   stdout=subprocess.PIPE, stderr=subprocess.STDOUT, text=True)
                if r.returncode != 0:
                    sys.stdout.write(r.stdout[-3000:])
                    raise BuildFailed('fact extraction for the dependency crates failed')
            res = {}
            for n in names:
                fp = _fact_file(out, n)
                if fp:
                    res[n] = Facts.load(fp)
            self._facts['_deps'] = res
            self.extracted.append({'config': 'deps', 'crates': sorted(res)})
            return res
        finally:
            fcntl.flock(lock, fcntl.LOCK_UN)
            lock.close()

    def purity(self, config=None):
        config = config or self.config
        if config not in self._purity:
            self._purity[config] = Purity(self.facts(config))
        return self._purity[config]

    def paths(self, name, config=None, opaque=(), inline=True, expand=(), atomic=(), expand_loops=False):
        """all paths of a body (cached); raises CannotAnalyse"""
        config = config or self.config
        key = (name, config, tuple(sorted(opaque)), inline, tuple(sorted(expand)), tuple(sorted(atomic)), expand_loops)
        if key not in self._paths:
            f = self.facts(config)
            b = f.body(name)
            if b is None:
                raise sym.CannotAnalyse('no body %s' % name)
            ex = sym.Explorer(f, b, self.purity(config), inline=inline, opaque=opaque, expand=expand, atomic=atomic, expand_loops=expand_loops)
            self._paths[key] = (b, ex.explore())
            if not hasattr(self, '_seen_bodies'):
                self._seen_bodies = {}
            self._seen_bodies[key] = set(ex.seen_bodies)
        return self._paths[key]


class Report:
    """obligations and violations of one property run"""

    def __init__(self, pid):
        self.pid = pid
        self.obligations = []     # dict(rule, instance, ok, detail)
        self.violations = []      # dict(key, rule, reason, msg, loc)
        self.info = {}
        self.samples = []
        self.analysed = set()     # bodies looked at
        self.paths_enumerated = 0
        self.rows_compared = 0
        self.floors = {}
        self.assumptions = []
        self.ledger = []

    def ob(self, rule, instance, ok, detail='', loc=None, reason='rule', expected=None, found=None):
        """record one obligation; a failed one becomes a violation keyed without line numbers"""
        if rule is None:
            return          # the caller switched this rule of a shared rule library off for its property
        self.obligations.append({'rule': rule, 'instance': instance, 'ok': bool(ok)})
        if not ok:
            self.violation(rule, instance, detail, loc=loc, reason=reason, expected=expected, found=found)
        return ok

    def violation(self, rule, instance, msg, loc=None, reason='rule', expected=None, found=None, path=None):
        key = '%s/%s/%s' % (self.pid, rule, instance)
        for old in self.violations:
            if old['key'] == key:
                old['count'] = old.get('count', 1) + 1
                return
        v = {'key': key, 'property': self.pid, 'rule': rule, 'instance': instance, 'reason': reason,
             'msg': msg, 'loc': loc}
        if expected is not None:
            v['expected'] = expected
        if found is not None:
            v['found'] = found
        if path is not None:
            v['path'] = path
        self.violations.append(v)

    def floor(self, rule, what, count, minimum):
        """fail closed when a rule matched fewer instances than were confirmed by reading"""
        if rule is None:
            return
        # counted instances on the confirmed tree are `minimum`; small benign removals (an unused accessor, a merged
        # branch) must not raise an alarm, a rule that lost most of its instances must: the effective floor is 75 %
        eff = minimum if minimum <= 3 else int(minimum * 0.75)
        self.floors['%s:%s' % (rule, what)] = {'count': count, 'counted_when_confirmed': minimum, 'floor': eff}
        minimum = eff
        self.ob(rule, 'floor:%s' % what, count >= minimum,
                '%s matched %d instance(s) of %s, at least %d were confirmed by reading: the rule would pass '
                'vacuously' % (rule, count, what, minimum), reason='floor')

    def anchor(self, ctx, name, config=None):
        b = ctx.facts(config).body(name)
        if b is None:
            self.ob('anchor', name, False, 'anchor function %s not found in the analysed crate' % name,
                    reason='anchor-missing')
        else:
            self.analysed.add(b.id)
        return b

    def explore(self, ctx, name, rule, **kw):
        """paths of an anchor body; anchor-missing / cannot-tabulate become violations (fail closed)"""
        try:
            b, ps = ctx.paths(name, **kw)
        except sym.CannotAnalyse as e:
            if str(e).startswith('no body'):
                self.ob('anchor', name, False, 'anchor function %s not found' % name, reason='anchor-missing')
            else:
                self.ob(rule, 'analysable:%s' % name, False, 'cannot analyse %s: %s' % (name, e),
                        reason='cannot-tabulate')
            return None, []
        self.analysed.add(b.id)
        # helper bodies that were evaluated as part of this one (inlined accessors, expanded helpers, applied closures)
        for k_, s_ in getattr(ctx, '_seen_bodies', {}).items():
            if k_[0] == name and k_[1] == (kw.get('config') or ctx.config):
                self.analysed |= s_
        self.paths_enumerated += len(ps)
        return b, ps

    def sample(self, x):
        if len(self.samples) < 12:
            self.samples.append(x)


def apply_rule_floors(pid, rep, config, tier='quick'):
    """every rule that produced obligations on the tree the rules were confirmed on must still produce some:
    a rule that silently stops matching (renamed anchor, changed idiom, a slip in the rule library) would otherwise pass
    vacuously.  The counts are recorded by sa/mkexpected.py in sa/rules/expected_counts.json.  The floor is deliberately low (a
    quarter, at least one): an equivalent way of writing an anchor often gives a rule fewer instances (a std sort instead of the
    bubble sort, a filter instead of a `continue`), and that must not raise an alarm."""
    p = os.path.join(VERIF, 'sa', 'rules', 'expected_counts.json')
    if not os.path.exists(p) or os.environ.get('VERIF_NO_RULE_FLOORS'):
        return
    with open(p) as f:
        exp = json.load(f).get(pid, {}).get('%s/%s' % (tier, 'release' if config == 'release' else 'debug'), {})
    have = {}
    for o in rep.obligations:
        have[o['rule']] = have.get(o['rule'], 0) + 1
    for rule, n in sorted(exp.items()):
        floor = max(1, n // 4)
        rep.ob('engine', 'rule-still-applies:%s' % rule, have.get(rule, 0) >= floor,
               'rule %s produced %d obligation(s) for %s; %d were produced on the tree the rule was confirmed on (floor %d): the rule no longer '
               'finds what it is about, so its silence means nothing' % (rule, have.get(rule, 0), pid, n, floor), reason='floor')


def load_known():
    p = os.path.join(VERIF, 'known_findings.json')
    if not os.path.exists(p):
        return {'known': [], 'fixed': []}
    with open(p) as f:
        return json.load(f)
