"""E3: type-level witnesses. Builds a throw-away crate that path-depends on the analysed repository and runs its
doc-tests with `cargo +nightly test --doc` (compile-pass twins are `no_run`, so no library code is executed)."""
import json, os, re, shutil, subprocess, sys
import engine


def run_witnesses(ctx):
    th = engine.tree_hash(ctx.repo)
    cache = os.path.join(engine.WORK, 'witness-%s.json' % th)
    src = os.path.join(engine.VERIF, 'witness', 'src', 'lib.rs')
    key = th + '-' + engine.hashlib.sha256(open(src, 'rb').read()).hexdigest()[:12]
    if os.path.exists(cache):
        j = json.load(open(cache))
        if j.get('key') == key:
            return j['results']
    d = os.path.join(engine.WORK, 'witness-%s' % th)
    shutil.rmtree(d, ignore_errors=True)
    os.makedirs(d + '/src')
    shutil.copy(src, d + '/src/lib.rs')
    open(d + '/Cargo.toml', 'w').write('''[package]
name = "witness"
version = "0.0.0"
edition = "2021"

[workspace]

[dependencies]
geo-booleanop = { path = "%s/lib" }
geo-types = { version = "0.7", default-features = false }
''' % ctx.repo)
    lock = os.path.join(ctx.repo, 'Cargo.lock')
    if os.path.exists(lock):
        shutil.copy(lock, d + '/Cargo.lock')
    env = dict(os.environ, CARGO_NET_OFFLINE='true', CARGO_TARGET_DIR=d + '/target')
    r = subprocess.run(['cargo', '+nightly', 'test', '--doc', '--offline'], cwd=d, env=env, stdout=subprocess.PIPE,
                       stderr=subprocess.STDOUT, text=True)
    results = {}
    for m in re.finditer(r'^test src/lib\.rs - (\w+) \(line \d+\)( - compile fail| - compile)? \.\.\. (\w+)', r.stdout, re.M):
        results[m.group(1)] = (m.group(3) == 'ok')
    if not results:
        results['_error'] = r.stdout[-1500:]
    shutil.rmtree(d, ignore_errors=True)
    json.dump({'key': key, 'results': results}, open(cache, 'w'))
    return results


def check(ctx, rep, names, rule='witness'):
    res = run_witnesses(ctx)
    if '_error' in res:
        rep.ob(rule, 'doc-tests-ran', False, 'witness doc-tests did not run: %s' % res['_error'][-400:], reason='anchor-missing')
        return
    for n in names:
        rep.ob(rule, n, res.get(n) is True, 'type-level witness %s %s' % (n, 'is missing' if n not in res else 'failed'), reason='rule')
    rep.info['witnesses'] = {n: res.get(n) for n in names}
