"""R-table: fold the paths of a loop-free body into a total decision table over finite-domain atoms.

An *atom* is a leaf term of a path condition or outcome with a finite domain: a bool / fieldless-enum
parameter, a field of an event read through its RefCell, an immutable bool field, the result of a read-only
call with bool result, the discriminant of an Option.  Atoms are named canonically (object.field), with the
object named after the parameter it is reached from, so tables do not depend on local variable names.
The table is evaluated at every valuation of the atoms (pure Python, no solver)."""
import itertools
import re
import sym
from sym import noepoch, show, strip_upd, short


class CannotTabulate(Exception):
    pass


# ------------------------------------------------------------------------------------ atom naming

def obj_root(ptr, alias, mem=None):
    """name of the object a pointer / Rc value denotes.  `&Rc` parameters, Rc values, clones of Rc values and
    the pointer obtained by dereferencing an Rc all name the same object; an Rc obtained by upgrading the weak
    link FIELD of object X is named X.FIELD."""
    p = strip_upd(ptr)
    for _ in range(20):
        k = p[0]
        if k == 'rcptr' or k == 'refval':
            p = strip_upd(p[1])
        elif k == 'ref' and mem is not None and p[1][0][0] == 'loc' and p[1] in mem:
            p = strip_upd(mem[p[1]])       # reference to a local that holds an Rc value
        elif k in ('call', 'pcall') and re.search(r'Option::<T>::(unwrap|expect)$', p[1]):
            x = strip_upd(p[2][0])
            w = weak_link(x, alias)
            if w:
                return alias.get(w, w)
            break
        elif k == 'deref' and strip_upd(p[1])[0] in ('param', 'rcptr', 'refval', 'field', 'variant', 'index'):
            p = strip_upd(p[1])
        elif k == 'pcall' and re.search(r'as std::ops::Deref>::deref$', p[1]) and len(p[2]) == 1:
            p = strip_upd(p[2][0])
        elif k == 'ref' and p[1][0][0] == 'ext' and strip_upd(p[1][0][1])[0] == 'refval':
            x = strip_upd(p[1][0][1])[1]
            for e in p[1][1]:
                x = sym.Explorer.project(x, e)
            p = strip_upd(x)
        elif k == 'field' and str(p[2]) == '0' and strip_upd(p[1])[0] == 'variant' and strip_upd(p[1])[2] == 'Some':
            x = strip_upd(strip_upd(p[1])[1])
            w = weak_link(x, alias)
            if w:
                return alias.get(w, w)
            break
        elif k == 'field' and strip_upd(p[1])[0] == 'agg':
            p = strip_upd(sym.Explorer.project(strip_upd(p[1]), ('f', p[2])))
        else:
            break
    s = show(noepoch(p))
    return alias.get(s, s)


def weak_link(x, alias):
    """Weak::upgrade(&OBJ.cell.FIELD) -> 'OBJ.FIELD'"""
    if x[0] in ('pcall', 'call') and x[1].endswith('::upgrade') and len(x[2]) == 1:
        r = strip_upd(x[2][0])
        if r[0] == 'ref' and len(r[1][1]) == 1 and r[1][1][0][0] == 'f' and r[1][0][0] == 'ext':
            cellp = strip_upd(r[1][0][1])
            if cellp[0] == 'cell':
                rr = strip_upd(cellp[1])
                if rr[0] == 'ref' and rr[1][0][0] == 'ext':
                    return '%s.%s' % (obj_root(rr[1][0][1], alias), r[1][1][0][1])
    return None


def atom_name(term, alias):
    """canonical name of a leaf term, or None when the term is not a recognised atom"""
    t = strip_upd(term)
    k = t[0]
    if k == 'param':
        return alias.get(t[2], t[2])
    if k == 'field':
        inner = strip_upd(t[1])
        if inner[0] == 'deref':
            ptr = strip_upd(inner[1])
            # field of the RefCell part of an event: *cell(&(*obj).mutable).FIELD
            if ptr[0] == 'cell':
                r = strip_upd(ptr[1])
                if r[0] == 'ref' and r[1][0][0] == 'ext' and len(r[1][1]) == 1 and r[1][1][0][0] == 'f':
                    return '%s.%s' % (obj_root(r[1][0][1], alias), t[2])
                return None
            return '%s.%s' % (obj_root(ptr, alias), t[2])
        if inner[0] in ('param',):
            return '%s.%s' % (alias.get(inner[2], inner[2]), t[2])
        if inner[0] == 'field' or inner[0] == 'variant':
            base = atom_name(inner, alias)
            if base:
                return '%s.%s' % (base, t[2])
        return None
    if k == 'variant':
        base = atom_name(t[1], alias)
        s = '(%s as %s)' % (base, t[2]) if base else None
        return alias.get(s, s) if s else None
    if k == 'pcall':
        m = re.search(r'::([A-Za-z_0-9]+)$', t[1])
        args = [obj_root(a, alias) for a in t[2]]
        s = '%s(%s)' % (m.group(1) if m else short(t[1]), ', '.join(args))
        return alias.get(s, s)
    if k == 'discr':
        inner = weak_link(strip_upd(t[1]), alias) or atom_name(t[1], alias)
        if inner is None:
            inner = show(noepoch(t[1]))
        s = 'discr(%s)' % inner
        return alias.get(s, s)
    return None


class Table:
    """decision table of one body (or of the prefix of its paths up to a designated event)"""

    def __init__(self, facts, body, alias=None, domains=None):
        self.facts = facts
        self.body = body
        self.alias = alias or {}
        self.domains = dict(domains or {})     # atom name -> list of values
        self.rows = []                         # (conds, outcome, path)
        self.atoms = {}                        # name -> domain

    # ---- domains
    def enum_domain(self, ty):
        ty = sym.strip_generics(ty)
        vs = self.facts.enum_variants(ty)
        if vs is None:
            return None
        return [('enum', ty, v) for v in vs]

    def domain_of(self, name, term):
        if name in self.domains:
            return self.domains[name]
        t = strip_upd(term)
        ty = self.type_of(t)
        if ty == 'bool':
            return [False, True]
        if ty:
            d = self.enum_domain(ty)
            if d:
                return d
        raise CannotTabulate('no finite domain known for atom %s (type %s)' % (name, ty))

    def type_of(self, t):
        if t[0] == 'param':
            return self.body.locals[t[1]]['ty']
        if t[0] == 'field':
            fname = t[2]
            # field of a local ADT: find the unique field with that name
            cands = set()
            for a in self.facts.adts.values():
                for v in a['variants']:
                    for fl in v['fields']:
                        if fl['name'] == fname:
                            cands.add(fl['ty'])
            if len(cands) == 1:
                return cands.pop()
            return None
        if t[0] == 'pcall':
            b = self.facts.bodies.get(t[1])
            if b is not None:
                return b.j.get('sig_output')
            return None
        return None

    # ---- evaluation of a value tree under a valuation
    def ev(self, v, val):
        v = strip_upd(v)
        k = v[0]
        if k == 'c':
            return v[1]
        if k == 'agg' and v[1] == 'adt' and not v[4]:
            return ('enum', sym.strip_generics(v[5]), v[2])
        if k == 'refval':
            return self.ev(v[1], val)
        if k == 'op':
            name = v[1]
            a = self.ev(v[2], val)
            if name == 'not':
                return not a
            b = self.ev(v[3], val)
            if name == 'eq':
                return a == b
            if name == 'ne':
                return a != b
            if name == 'bitand':
                return a and b
            if name == 'bitor':
                return a or b
            if name == 'bitxor':
                return a != b
            raise CannotTabulate('operator %s in a table condition' % name)
        if k == 'discr':
            n = atom_name(v, self.alias)
            if n in val:
                return val[n]
            x = self.ev(v[1], val)
            if isinstance(x, tuple) and x[0] == 'enum':
                ex = sym.Explorer(self.facts, self.body)
                return ex.enum_discr(x[1], x[2])[1]
            raise CannotTabulate('discriminant of %s' % show(v[1]))
        n = atom_name(v, self.alias)
        if n is not None and n in val:
            return val[n]
        raise CannotTabulate('term %s is not a finite-domain atom' % show(noepoch(v)))

    def collect_atoms(self, v):
        """register the atoms a value tree depends on"""
        v = strip_upd(v)
        k = v[0]
        if k == 'c' or (k == 'agg' and not v[4]):
            return
        if k == 'refval':
            return self.collect_atoms(v[1])
        if k == 'op':
            for x in v[2:]:
                self.collect_atoms(x)
            return
        if k == 'discr':
            inner = strip_upd(v[1])
            n_in = atom_name(inner, self.alias)
            ty = self.type_of(inner) if inner[0] in ('param', 'field', 'pcall') else None
            if n_in and ty and self.enum_domain(ty):
                self.collect_atoms(inner)     # discriminant of an enum atom: evaluate through the atom
                return
            n = atom_name(v, self.alias)
            if n is None:
                raise CannotTabulate('unnameable discriminant %s' % show(noepoch(v)))
            if n not in self.atoms:
                self.atoms[n] = self.domains.get(n) or [0, 1]   # Option-like: None / Some
            return
        n = atom_name(v, self.alias)
        if n is None:
            raise CannotTabulate('term %s is not a recognised atom' % show(noepoch(v)))
        if n not in self.atoms:
            self.atoms[n] = self.domain_of(n, v)

    # ---- building
    def add_row(self, conds, outcome, path, outcome_terms=()):
        for (v, c) in conds:
            self.collect_atoms(v)
        for t in outcome_terms:
            self.collect_atoms(t)
        self.rows.append((conds, outcome, path))

    def cond_holds(self, conds, val):
        for (v, c) in conds:
            x = self.ev(v, val)
            if c[0] == 'eq':
                k = c[1]
                if isinstance(x, bool) or isinstance(k, bool):
                    if bool(x) != bool(k):
                        return False
                elif x != k:
                    return False
            else:
                if x in c[1]:
                    return False
        return True

    def valuations(self, restrict=None):
        names = sorted(self.atoms)
        doms = [self.atoms[n] for n in names]
        for combo in itertools.product(*doms):
            val = dict(zip(names, combo))
            if restrict is None or restrict(val):
                yield val

    def tabulate(self, outcome_eval, restrict=None):
        """yields (valuation, outcome value, path); fails closed unless exactly one row applies"""
        n = 0
        for val in self.valuations(restrict):
            hits = []
            for (conds, outcome, path) in self.rows:
                if self.cond_holds(conds, val):
                    o = outcome_eval(self, outcome, val)
                    if all(o != h[0] for h in hits):
                        hits.append((o, path))
            if len(hits) != 1:
                raise CannotTabulate('valuation %s selects %d different outcomes (table is not a function)'
                                     % (fmt_val(val), len(hits)))
            n += 1
            yield val, hits[0][0], hits[0][1]


def fmt_val(val, keys=None):
    out = []
    for k in sorted(val):
        if keys is not None and k not in keys:
            continue
        v = val[k]
        if isinstance(v, tuple) and v[0] == 'enum':
            v = v[2]
        elif isinstance(v, bool):
            v = int(v)
        out.append('%s=%s' % (k, v))
    return ','.join(out)


def prefix_conds(path, upto_index):
    """normalised assumptions of the branches taken before event number `upto_index`"""
    out = []
    for e in path.events[:upto_index]:
        if e['k'] == 'branch':      # branches of expanded helpers (depth > 0) count as well
            out.extend(sym.normalise_cond(e['val'], e['cond']))
    return out


def event_cell_stores(path, lo=0, hi=None):
    """stores into RefCell parts of events between event indices: list of (index, object ptr, field, value)"""
    out = []
    evs = path.events[lo:hi]
    for i, e in enumerate(evs):
        if e['k'] != 'store':
            continue
        base, pth = e['loc']
        if base[0] == 'ext' and len(pth) == 1 and pth[0][0] == 'f':
            ptr = strip_upd(base[1])
            if ptr[0] == 'cell':
                r = strip_upd(ptr[1])
                if r[0] == 'ref' and r[1][0][0] == 'ext':
                    out.append((lo + i, r[1][0][1], pth[0][1], e['val']))
    return out
