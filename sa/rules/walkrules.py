"""Rules on the contour walk of connect_edges.rs: T-result-events (which events are walked), T-other-pos (pairing of the two
ends of a result segment by position), T-walk (shape of the walk loop), T-next-pos, T-mark.  Used by C02 and C04."""
import re
import sym
from sym import show, noepoch, strip_upd, short
from rules.tables import obj_root, event_cell_stores, atom_name, weak_link

ORDER = 'boolean::connect_edges::order_events'
CONNECT = 'boolean::connect_edges::connect_edges'
NEXTPOS = 'boolean::connect_edges::get_next_pos'
MARK = 'boolean::connect_edges::mark_as_processed'


def iter_payload(v):
    """True when v is the payload of an iterator `next()`"""
    x = strip_upd(v)
    if x[0] == 'field' and str(x[2]) in ('0', '1') and strip_upd(x[1])[0] == 'variant' and strip_upd(x[1])[2] == 'Some':
        it = strip_upd(strip_upd(x[1])[1])
        return it[0] in ('call', 'pcall') and it[1].endswith('::next')
    if x[0] == 'field' and str(x[2]) in ('0', '1'):
        return iter_payload(x[1])
    return False


def ev_name(v, p, alias=None):
    return obj_root(v, alias or {}, p.final.mem)


RT_NONE = [None]
RT_VARIANTS = [()]


def _selection_atoms(p, extra=()):
    """partial valuation of L (event.left), R (event in result), H (other event alive), O (other event in result) on a path;
    unknown conditions are returned separately"""
    val, unknown = {}, []
    for (v, c) in list(p.conds) + list(extra):
        x = strip_upd(v)
        s = show(noepoch(x))
        other = 'other_event' in s
        nm = atom_name(x, {})
        if nm and nm.endswith('.left') and not other:
            val['L'] = bool(c[1])
        elif x[0] == 'op' and x[1] in ('ne', 'eq') and len(x) == 4 and 'result_transition' in show(noepoch(x[2])) \
                and show(noepoch(x[3])).endswith('None{}'):
            truth = bool(c[1]) if x[1] == 'ne' else (not c[1])
            val['O' if other else 'R'] = truth
        elif x[0] == 'discr' and 'Weak::upgrade' in s and other and not s.rstrip(')').endswith('.result_transition'):
            val['H'] = (c == ('eq', 1))
        elif x[0] == 'discr' and s.rstrip(')').endswith('.result_transition') and RT_NONE[0] is not None:
            # `matches!(.., ResultTransition::None)`: a test of the discriminant
            is_none = None
            if c[0] == 'eq':
                is_none = int(c[1]) == RT_NONE[0]
            elif c[0] == 'notin':
                excl = [int(z) for z in c[1]]
                if RT_NONE[0] in excl:
                    is_none = False
                elif len(excl) == len(RT_VARIANTS[0]) - 1:
                    is_none = True
            if is_none is None:
                unknown.append(s[:80])
            else:
                val['O' if other else 'R'] = not is_none
        elif x[0] == 'discr' and re.search(r'(next|next_back)\(', s) and not other:
            continue            # the iterator of the loop
        elif x[0] == 'havoc' or (x[0] == 'op' and x[1] in ('lt', 'gt') and 'index(' in s):
            continue            # loop-carried flag / the ordering loop
        else:
            unknown.append(s[:80])
    return val, unknown


def check_result_events(ctx, rep, rule='T-result-events'):
    """an event is walked iff it is the left end of a result segment, or the right end of one (its left end is in the result).
    The selection is read either from the paths of the selecting loop of order_events (pushed or not) or from the closure given
    to `Iterator::filter` on sorted_events (true or false), and compared row by row with (L and R) or (not L and H and O)."""
    import itertools
    b, ps = rep.explore(ctx, ORDER, rule)
    if b is None:
        return
    vs = ctx.facts().enum_variants('boolean::sweep_event::ResultTransition') or []
    RT_VARIANTS[0] = tuple(vs)
    RT_NONE[0] = vs.index('None') if 'None' in vs else None
    loops = sorted(b.loops())
    first = loops[0] if loops else None
    rows = []       # (partial valuation, selected?)
    bad = set()
    filt = None
    for p in ps:
        for e in p.calls():
            if e['callee'].endswith('::filter') and 'Iterator' in e['callee'] and len(e['args']) == 2:
                c = strip_upd(e['args'][1])
                recv_ok = any(x[0] == 'param' and x[2] == 'sorted_events' for x in sym.walk(e['args'][0]))
                if c[0] == 'agg' and c[1] == 'closure' and recv_ok:
                    filt = c[2]
    if filt is not None and filt in ctx.facts().bodies:
        bc, pc = rep.explore(ctx, filt, rule)
        for p in pc or []:
            if p.end != 'return':
                continue
            r = strip_upd(sym.simplify(sym.subst(p.ret, p.conds)))
            if sym.is_const(r):
                val, unknown = _selection_atoms(p)
                rows.append((val, bool(r[1])))
            else:
                # the closure returns the last operand of its condition unevaluated: both outcomes
                unknown = []
                for truth in (False, True):
                    val, unknown = _selection_atoms(p, extra=[(r, ('eq', truth))])
                    rows.append((val, truth))
            for u in unknown:
                bad.add(u)
    else:
        for p in ps:
            if p.end != 'backedge' or p.end_info != first:
                continue
            val, unknown = _selection_atoms(p)
            for u in unknown:
                bad.add(u)
            pushed = [e for e in p.calls() if e['callee'].endswith('::push') and 'Vec' in e['callee']]
            if pushed:
                a = strip_upd(pushed[0]['args'][1])
                while a[0] in ('deref', 'refval', 'rcptr') and len(a) > 1:
                    a = strip_upd(a[1])
                is_event = iter_payload(a) or (a[0] in ('call', 'pcall') and a[2] and iter_payload(strip_upd(a[2][0])))
                if not is_event:
                    bad.add('pushes %s' % show(noepoch(a))[:60])
            rows.append((val, bool(pushed)))
    for u in sorted(bad):
        rep.ob(rule, 'selection-condition-modelled', False, 'the selection of result events depends on `%s`, which is not one of: the left flag, '
               'the result transition of the event, the presence / result transition of its other event' % u, loc=b.loc(b.j['line_lo']),
               reason='cannot-tabulate')
    n = 0
    for (L, R, H, O) in itertools.product((False, True), repeat=4):
        full = {'L': L, 'R': R, 'H': H, 'O': O}
        outs = set(sel for (val, sel) in rows if all(full[k] == v for k, v in val.items()))
        exp = (L and R) or ((not L) and H and O)
        n += 1
        rep.ob(rule, 'row:left=%d,in_result=%d,has_other=%d,other_in_result=%d' % (L, R, H, O), outs == {exp},
               'an event belongs to the walk iff it is the left end of a result segment or the right end of one; with left=%s in_result=%s '
               'other alive=%s other in_result=%s order_events %s, expected %s' % (L, R, H, O, sorted(map(str, outs)), exp),
               loc=b.loc(b.j['line_lo']), reason='table-row')
    rep.rows_compared += n
    rep.floor(rule, 'selection paths', len(rows), 5)


def check_other_pos(ctx, rep, rule='T-other-pos'):
    """after ordering: other_pos := own index, then the two ends of every result segment exchange their positions"""
    b, ps = rep.explore(ctx, ORDER, rule)
    if b is None:
        return
    n_init = n_swap = 0
    for p in ps:
        if p.end != 'backedge':
            continue
        cs = [s for s in event_cell_stores(p) if s[2] == 'other_pos']
        # restrict to the stores after the loop header this path ends at
        last = max(i for i, e in enumerate(p.events) if e['k'] == 'loophead' and e['bb'] == p.end_info)
        cs = [s for s in cs if s[0] > last]
        if not cs:
            continue
        if len(cs) == 1:
            i, ptr, fld, val = cs[0]
            v = strip_upd(val)
            ok = v[0] == 'cast' and iter_payload(v[2]) and iter_payload(ptr if strip_upd(ptr)[0] != 'rcptr' else strip_upd(strip_upd(ptr)[1])[1] if strip_upd(strip_upd(ptr)[1])[0] == 'deref' else ptr)
            n_init += 1
            rep.ob(rule, 'initialise-with-own-index', bool(ok),
                   'other_pos must first be set to the event\'s own position in result_events (enumerate index); stored %s' % show(noepoch(val))[:60],
                   loc=b.loc(b.j['line_lo']), reason='provenance')
        elif len(cs) == 2:
            n_swap += 1
            (i1, p1, _, v1), (i2, p2, _, v2) = cs
            e1, e2 = ev_name(p1, p), ev_name(p2, p)
            def src(v):
                nm = atom_name(strip_upd(v), {})
                return nm
            s1, s2 = src(v1), src(v2)
            left_true = any(atom_name(strip_upd(v), {}) == e1 + '.left' and c[1] is True for (v, c) in p.conds)
            ok = e2 == e1 + '.other_event' and s1 == e2 + '.other_pos' and s2 == e1 + '.other_pos' and left_true
            rep.ob(rule, 'exchange-positions', ok,
                   'for every left event with a right event the two must exchange other_pos: %s.other_pos <- %s, %s.other_pos <- %s (left '
                   'tested: %s)' % (e1, s1, e2, s2, left_true), loc=b.loc(b.j['line_lo']), reason='provenance')
        else:
            rep.ob(rule, 'other_pos-stores', False, '%d stores of other_pos in one loop iteration' % len(cs), loc=b.loc(b.j['line_lo']), reason='provenance')
    rep.floor(rule, 'initialisation paths', n_init, 1)
    rep.floor(rule, 'exchange paths', n_swap, 1)


def _mentions_param(v, name):
    return any(y[0] == 'param' and y[2] == name for y in sym.walk(v))


def _processed_test(x):
    """membership of a position in the processed set: `processed.contains(&p)` or `processed[p as usize]`"""
    x = strip_upd(x)
    if x[0] in ('call', 'pcall') and x[1].endswith('::contains') and x[2] and _mentions_param(x[2][0], 'processed'):
        return True
    y = x
    while y[0] in ('deref', 'refval') and len(y) > 1:
        y = strip_upd(y[1])
    if y[0] == 'index' and _mentions_param(y[1], 'processed'):
        return True
    if y[0] in ('call', 'pcall') and re.search(r'Index<.*>>::index$', y[1]) and y[2] and _mentions_param(y[2][0], 'processed'):
        return True
    return False


def check_next_pos(ctx, rep, rule='T-next-pos'):
    """get_next_pos walks the cycle of one vertex: candidates map[pos], map[map[pos]], ...; the first candidate that is back at
    `pos` ends the search with None, the first unprocessed one is returned, processed ones are skipped.  Both loop forms are
    accepted: (A) the loop variable holds the previous position and the candidate is map[variable] (variable starts at pos), or
    (B) the loop variable *is* the candidate (starts at map[pos], advanced with map[candidate])."""
    b, ps = rep.explore(ctx, NEXTPOS, rule)
    if b is None:
        return

    def nm(v, hv):
        x = strip_upd(v)
        for _ in range(8):
            if x[0] == 'cast':
                x = strip_upd(x[2])
            elif x[0] in ('deref', 'refval') and len(x) > 1:
                x = strip_upd(x[1])
            else:
                break
        if x[0] == 'param' and x[1] == 1:
            return 'S'
        if x[0] == 'havoc' and hv is not None and (x[1], x[2]) == hv:
            return 'H'
        if x[0] == 'index' and _mentions_param(x[1], 'iteration_map'):
            return 'M(%s)' % nm(x[2], hv)
        if x[0] in ('call', 'pcall') and re.search(r'Index<.*>>::index$', x[1]) and len(x[2]) == 2 and _mentions_param(x[2][0], 'iteration_map'):
            return 'M(%s)' % nm(x[2][1], hv)
        return '?' + show(noepoch(x))[:30]

    rows = set()
    form = None
    problems = []
    for p in ps:
        lh = [e for e in p.events if e['k'] == 'loophead']
        if not lh:
            continue
        pre = {l: v for l, v in lh[0].get('pre', {}).items() if strip_upd(v)[0] != 'undef'}
        cands = [(l, nm(v, None)) for l, v in pre.items() if nm(v, None) in ('S', 'M(S)')]
        if len(cands) != 1:
            problems.append('loop variable not identified: %s' % {l: show(noepoch(v))[:30] for l, v in pre.items()})
            continue
        L, h0 = cands[0]
        hv = (lh[0]['bb'], L)
        f_ = 'A' if h0 == 'S' else 'B'
        form = form or f_
        C = 'M(H)' if f_ == 'A' else 'H'
        back = proc = None
        for (v, c) in p.conds:
            x = strip_upd(v)
            if x[0] == 'op' and x[1] in ('eq', 'ne') and len(x) == 4:
                names = {nm(x[2], hv), nm(x[3], hv)}
                if names == {C, 'S'}:
                    back = bool(c[1]) if x[1] == 'eq' else (not c[1])
                    continue
                problems.append('compares %s' % sorted(names))
            elif _processed_test(x):
                proc = bool(c[1])
                # what is tested: the value behind the reference at the time of the call / the index
                tested = None
                for e in p.calls():
                    if e['callee'].endswith('::contains') and noepoch(strip_upd(e.get('ret', ('c', 0)))) == noepoch(x):
                        a1 = strip_upd(e['args'][1])
                        tested = nm(e.get('ref_vals', {}).get(1, a1), hv)
                y = x
                while y[0] in ('deref', 'refval') and len(y) > 1:
                    y = strip_upd(y[1])
                if y[0] == 'index':
                    tested = nm(y[2], hv)
                elif y[0] in ('call', 'pcall') and re.search(r'Index<.*>>::index$', y[1]) and len(y[2]) == 2:
                    tested = nm(y[2][1], hv)
                if tested != C:
                    problems.append('tests whether %s is processed (the candidate is %s)' % (tested, C))
        if p.end == 'return':
            r = strip_upd(p.ret)
            if r[0] == 'agg' and r[2] == 'Some':
                got = nm(r[4][0], hv)
                rows.add(('Some', back, proc, got == C))
            elif r[0] == 'agg' and r[2] == 'None':
                rows.add(('None', back, proc, True))
            else:
                problems.append('returns %s' % show(noepoch(r))[:40])
        elif p.end == 'backedge':
            fin = None
            for k, v in p.final.mem.items():
                if k[0][0] == 'loc' and k[0][2] == L and k[1] == ():
                    fin = nm(v, hv)
            want = C if f_ == 'A' else 'M(H)'
            rows.add(('continue', back, proc, fin == want))
    exp = {('None', True, None, True), ('Some', False, False, True), ('continue', False, True, True)}
    rep.ob(rule, 'next-unprocessed-in-group-or-None', rows == exp and not problems,
           'get_next_pos must follow iteration_map from pos: a candidate back at the start -> None; an unprocessed candidate -> Some(it); a '
           'processed one -> go on with iteration_map[candidate]. Found rows (outcome, back at start, processed, value ok) %s%s'
           % (sorted(map(str, rows)), '; ' + '; '.join(sorted(set(problems))[:3]) if problems else ''), loc=b.loc(b.j['line_lo']), reason='table-row')
    rep.ob(rule, 'starts-at-pos', form in ('A', 'B'), 'the walk around a vertex must start from the given position (first candidate '
           'iteration_map[pos])', loc=b.loc(b.j['line_lo']), reason='provenance')


def check_mark(ctx, rep, rule='T-mark'):
    b, ps = rep.explore(ctx, MARK, rule)
    if b is None:
        return
    for p in ps:
        ins = [e for e in p.calls() if e['callee'].endswith('::insert')]
        cs = [s for s in event_cell_stores(p) if s[2] == 'output_contour_id']
        ins_ok = len(ins) == 1 and strip_upd(ins[0]['args'][0])[0] == 'param' and strip_upd(ins[0]['args'][1])[0] == 'param' \
            and strip_upd(ins[0]['args'][1])[2] == 'pos'
        if not ins:
            # a flag vector instead of a set: processed[pos as usize] = true
            flags = [e for e in p.events if e['k'] == 'store' and e['loc'][0][0] == 'ext' and _mentions_param(e['loc'][0][1], 'processed')]
            ins = flags
            ins_ok = len(flags) == 1 and sym.is_const(strip_upd(flags[0]['val'])) and strip_upd(flags[0]['val'])[1] is True \
                and any(pe[0] == 'i' and _mentions_param(pe[1], 'pos') and not _mentions_param(pe[1], 'contour_id') for pe in flags[0]['loc'][1])
        ok = ins_ok and len(cs) == 1 and strip_upd(cs[0][3])[0] == 'param' and strip_upd(cs[0][3])[2] == 'contour_id' \
            and re.search(r'result_events\[\(pos as usize\)\]', show(noepoch(cs[0][1]))) is not None
        rep.ob(rule, 'mark=insert(pos)+set_output_contour_id(result_events[pos], contour_id)', ok,
               'mark_as_processed must record `pos` as processed and give result_events[pos] the contour id; found inserts=%d stores=%s'
               % (len(ins), [show(noepoch(s[1]))[:50] for s in cs]), loc=b.loc(b.j['line_lo']), reason='provenance')


def idx_name(v, p):
    """name of a position expression in the walk: i (outer loop index), pos (loop-carried), other(pos), next(pos..)"""
    x = strip_upd(v)
    while x[0] == 'cast':
        x = strip_upd(x[2])
    if iter_payload(x):
        return 'i'
    if x[0] == 'havoc':
        return 'pos'
    nm = atom_name(x, {})
    if nm and nm.endswith('.other_pos'):
        m = re.search(r'\[\((.*) as usize\)\]', show(noepoch(x)))
        inner = strip_upd(x[1])
        # result_events[IDX].other_pos
        for y in sym.walk(x):
            if y[0] == 'index':
                return 'other(%s)' % idx_name(y[2], p)
            if y[0] in ('call', 'pcall') and re.search(r'Index<.*>>::index$', y[1]) and len(y[2]) == 2:
                return 'other(%s)' % idx_name(y[2][1], p)
        return 'other(?)'
    if x[0] == 'field' and str(x[2]) == '0' and strip_upd(x[1])[0] == 'variant':
        src = strip_upd(strip_upd(x[1])[1])
        if src[0] in ('call', 'pcall') and src[1].endswith('get_next_pos'):
            return 'next(%s)' % idx_name(src[2][0], p)
    if x[0] == 'ref' and x[1][0][0] == 'loc' and x[1] in p.final.mem:
        return idx_name(p.final.mem[x[1]], p)
    return '?' + show(noepoch(x))[:40]


def event_index(v, p):
    """IDX when v is (a pointer to / the Rc of) result_events[IDX]"""
    for y in sym.walk(v):
        if y[0] in ('call', 'pcall') and re.search(r'Index<.*>>::index$', y[1]) and len(y[2]) == 2:
            return idx_name(y[2][1], p)
        if y[0] == 'index':
            return idx_name(y[2], p)
    x = strip_upd(v)
    if x[0] == 'ref' and x[1][0][0] == 'loc' and x[1] in p.final.mem:
        return event_index(p.final.mem[x[1]], p)
    return None


def check_walk(ctx, rep, rule='T-walk'):
    # a helper that contains the walk loop is expanded into connect_edges (its loop is handled like connect_edges' own)
    b, ps = rep.explore(ctx, CONNECT, rule, expand_loops=True)
    if b is None:
        return
    outer = inner = None
    for p in ps:
        last = None
        for e in p.events:
            if e['k'] == 'loophead':
                last = e['bb']
            elif e['k'] == 'call' and e.get('depth', 0) == 0:
                if e['callee'].endswith('initialize_from_context') and outer is None:
                    outer = last
                elif e['callee'] == NEXTPOS and inner is None:
                    inner = last
    if outer is None or inner is None or outer == inner:
        rep.ob(rule, 'two-nested-loops', False, 'cannot find the loop over start positions (around initialize_from_context: %s) and the walk loop '
               '(around get_next_pos: %s) in connect_edges and the helpers it calls' % (outer, inner), loc=b.loc(b.j['line_lo']), reason='cannot-tabulate')
        return
    n = 0
    for p in ps:
        calls = [e for e in p.calls()]
        names = [short(e['callee']).split('::')[-1] for e in calls]
        skipped = any(strip_upd(v)[0] in ('call', 'pcall') and strip_upd(v)[1].endswith('::contains') and c[1] is True for (v, c) in p.conds)
        if p.end == 'return' or skipped:
            if skipped:
                rep.ob(rule, 'processed-start-is-skipped', 'initialize_from_context' not in names, 'a processed start position starts a contour',
                       loc=b.loc(b.j['line_lo']), reason='dominance')
            continue
        if 'initialize_from_context' not in names:
            continue
        n += 1
        init = calls[names.index('initialize_from_context')]
        # a contour is started only at a position that is known not to have been processed yet
        def _is_proc(v):
            x = strip_upd(v)
            if x[0] in ('call', 'pcall') and x[1].endswith('::contains'):
                return True
            y = x
            while y[0] in ('deref', 'refval') and len(y) > 1:
                y = strip_upd(y[1])
            return y[0] == 'index' or (y[0] in ('call', 'pcall') and re.search(r'Index<.*>>::index$', y[1]) is not None)
        li0 = p.events.index(init)
        tested = any(e['k'] == 'branch' and _is_proc(e['val']) and e['cond'] == ('eq', False) for e in p.events[:li0]) or \
            any(e['k'] == 'branch' and strip_upd(e['val'])[0] == 'op' and strip_upd(e['val'])[1] == 'not' and _is_proc(strip_upd(e['val'])[2])
                and e['cond'] == ('eq', True) for e in p.events[:li0])
        rep.ob(rule, 'contour-starts-at-unprocessed-position', tested,
               'a contour is initialised on a path that has not established that position i is unprocessed (every result event would start '
               'a contour of its own, edges are walked more than once)', loc=b.loc(init['line']), reason='dominance')
        if len(init['args']) != 3:
            rep.ob(rule, 'contour-initialised-from-start-event', False,
                   'initialize_from_context is called with %d arguments; the walk rule models (event, &mut contours, contour_id) because the '
                   'hole/parent registration happens there' % len(init['args']), loc=b.loc(init['line']), reason='cannot-tabulate')
            continue
        cid = noepoch(strip_upd(init['args'][2]))
        cid_ok = cid[0] == 'cast' and strip_upd(cid[2])[0] in ('call', 'pcall') and strip_upd(cid[2])[1].endswith('::len')
        start_ok = event_index(init['args'][0], p) == 'i'
        rep.ob(rule, 'contour-initialised-from-start-event', start_ok and cid_ok,
               'a new contour must be initialised from result_events[i] with contour_id = contours.len(); found event index %s, id %s'
               % (event_index(init['args'][0], p), show(cid)[:50]), loc=b.loc(init['line']), reason='provenance')
        # the inner loop starts at pos = i
        lh = [e for e in p.events if e['k'] == 'loophead' and e['bb'] == inner]
        pre_ok = False
        if lh:
            pre_ok = any(idx_name(v, p) == 'i' for v in lh[0].get('pre', {}).values())
        rep.ob(rule, 'walk-starts-at-i', pre_ok, 'the walk must start at position i', loc=b.loc(b.j['line_lo']), reason='provenance')
        # body of the walk loop
        li = p.events.index(lh[0]) if lh else 0
        # before the walk: the contour receives its first vertex, the point of the start event (the walk pushes the point of every
        # event it moves to, and ends when it is back at this point without pushing it again)
        first = [e for e in p.events[:li] if e['k'] == 'call' and e['depth'] == 0 and e['callee'].endswith('::push')
                 and 'points' in show(noepoch(e['args'][0]))]
        rep.ob(rule, 'contour-starts-with-start-point', len(first) == 1 and event_index(first[0]['args'][1], p) == 'i',
               'before the walk the point of result_events[i] must be pushed onto the new contour exactly once; found %s'
               % [event_index(e['args'][1], p) for e in first], loc=b.loc(init['line']), reason='provenance')
        body = [e for e in p.events[li:] if e['k'] == 'call' and e['depth'] == 0]
        bn = [short(e['callee']).split('::')[-1] for e in body]
        marks = [e for e in body if e['callee'] == MARK]
        pushes = [e for e in body if e['callee'].endswith('::push') and 'points' in show(noepoch(e['args'][0]))]
        nexts = [e for e in body if e['callee'] == NEXTPOS]
        ok = len(marks) == 2 and len(pushes) == 1 and len(nexts) == 1
        detail = 'marks=%d point-pushes=%d get_next_pos=%d' % (len(marks), len(pushes), len(nexts))
        if ok:
            m1, m2 = idx_name(marks[0]['args'][2], p), idx_name(marks[1]['args'][2], p)
            pushed = event_index(pushes[0]['args'][1], p)
            nx = idx_name(nexts[0]['args'][0], p)
            same_cid = all(noepoch(strip_upd(m['args'][3])) == cid for m in marks)
            order_ok = body.index(marks[0]) < body.index(marks[1]) < body.index(pushes[0]) < body.index(nexts[0])
            ok = m1 == 'pos' and m2 == 'other(pos)' and pushed == 'other(pos)' and nx == 'other(pos)' and same_cid and order_ok
            detail = 'mark(%s), mark(%s), push(point of %s), get_next_pos(%s), same contour id: %s, in this order: %s' % (m1, m2, pushed, nx, same_cid, order_ok)
        rep.ob(rule, 'walk-step:%s' % p.end, ok,
               'one walk step must be: mark(pos); pos = other_pos(pos); mark(pos); push(point(pos)); get_next_pos(pos, ..) with the contour\'s '
               'id; found %s' % detail, loc=b.loc(b.j['line_lo']), reason='provenance')
        # exits of the walk: it stops exactly when the vertex has no unprocessed continuation, or when it is back at the point
        # the contour started from; nothing else may end or prolong a contour
        if nexts:
            gi = p.events.index(nexts[0])
            has_next = closed = None
            other = []
            for e in p.events[gi:]:
                if e['k'] != 'branch' or e.get('depth', 0) != 0:
                    continue
                v = strip_upd(e['val'])
                if v[0] == 'discr' and noepoch(strip_upd(v[1])) == noepoch(strip_upd(nexts[0]['ret'])):
                    has_next = (e['cond'] == ('eq', 1))
                elif v[0] == 'op' and v[1] in ('eq', 'ne') and len(v) == 4:
                    ia, ib = event_index(v[2], p), event_index(v[3], p)
                    pa, pb = show(noepoch(v[2])), show(noepoch(v[3]))
                    if pa.endswith('.point') and pb.endswith('.point') and {ia, ib} == {'next(other(pos))', 'i'}:
                        closed = e['cond'][1] if v[1] == 'eq' else (not e['cond'][1])
                    else:
                        other.append(show(noepoch(v))[:70])
                else:
                    other.append(show(noepoch(v))[:70])
            stays = (p.end == 'backedge' and p.end_info == inner)
            exp_stays = (has_next is True and closed is False)
            rep.ob(rule, 'walk-exit:%s' % ('continues' if stays else 'ends'), not other and stays == exp_stays,
                   'the walk of a contour must end exactly when get_next_pos returns None or the next event is back at the contour\'s '
                   'first point; this path %s with next=%s, back-at-start=%s, and also tests %s'
                   % ('continues' if stays else 'ends', has_next, closed, other), loc=b.loc(nexts[0]['line']), reason='dominance')
        # the finished contour is appended
        if p.end == 'backedge' and p.end_info == outer:
            fin = [e for e in body if e['callee'].endswith('::push') and 'points' not in show(noepoch(e['args'][0]))]
            rep.ob(rule, 'contour-appended', len(fin) == 1, 'a finished contour must be pushed onto `contours` exactly once (found %d)' % len(fin),
                   loc=b.loc(b.j['line_lo']), reason='dominance')
    rep.floor(rule, 'walk paths', n, 3)


# ------------------------------------------------------------------------------- T-vertex-cycle

PIO = 'boolean::connect_edges::precompute_iteration_order'


def _lin(v, names):
    """index expression as a linear form over the group boundaries i0 (group start), i1 (end of R events), i2 (end of L events),
    the chain variable j and opaque leaves: ({symbol: coefficient}, constant)"""
    x = strip_upd(v)
    if x[0] == 'havoc':
        return ({names.get((x[1], x[2]), 'h%s_%s' % (x[1], x[2])): 1}, 0)
    if x[0] == 'cast':
        return _lin(x[2], names)
    if x[0] == 'field' and str(x[2]) == '0':
        y = strip_upd(x[1])
        if y[0] == 'op' and y[1] in ('addwithoverflow', 'subwithoverflow') and len(y) == 4:
            return _comb(_lin(y[2], names), _lin(y[3], names), 1 if y[1].startswith('add') else -1)
        if y[0] == 'variant' and y[2] == 'Some':
            it = strip_upd(y[1])
            if it[0] in ('call', 'pcall') and it[1].endswith('::next'):
                return ({'j': 1}, 0)
    if x[0] == 'op' and x[1] in ('add', 'sub') and len(x) == 4:
        return _comb(_lin(x[2], names), _lin(x[3], names), 1 if x[1] == 'add' else -1)
    if sym.is_const(x) and isinstance(x[1], int) and not isinstance(x[1], bool):
        return ({}, int(x[1]))
    return ({'?' + show(noepoch(x))[:30]: 1}, 0)


def _comb(a, b, sign):
    d = dict(a[0])
    for k, c in b[0].items():
        d[k] = d.get(k, 0) + sign * c
        if d[k] == 0:
            del d[k]
    return (d, a[1] + sign * b[1])


def _ix(v, names):
    """canonical text of an index expression (linear arithmetic normalised): i2-1, j+1, i0, 0, ..."""
    d, c = _lin(v, names)
    if not d:
        return str(c)
    parts = []
    for k in sorted(d, key=lambda k_: (d[k_] < 0, k_)):
        co = d[k]
        parts.append(('' if co == 1 else '-' if co == -1 else '%d*' % co) + k)
    s = '+'.join(parts).replace('+-', '-')
    if c:
        s += '%+d' % c
    return s


def _ix_diff(a, b, names):
    """(symbolic part, constant) of a - b"""
    d, c = _comb(_lin(a, names), _lin(b, names), -1)
    return (frozenset(d.items()), c)


def _nonempty(op, negated, k, truth):
    """does `len + k OP 0` (len = group length >= 0; negated: `-len + k OP 0`) say that the group is non-empty? None if it says neither"""
    # evaluate the comparison for len = 0 and len = 1, 2: it must separate 0 from the positives
    def ev(n):
        v = (-n if negated else n) + k
        return {'gt': v > 0, 'lt': v < 0, 'ge': v >= 0, 'le': v <= 0, 'ne': v != 0, 'eq': v == 0}[op]
    at0, pos = ev(0), {ev(1), ev(2), ev(5)}
    if len(pos) != 1 or at0 in pos:
        return None
    return truth == pos.pop()


def check_vertex_cycle(ctx, rep, rule='T-vertex-cycle'):
    """precompute_iteration_order: within one vertex group [R events i0..i1)[L events i1..i2) the map must be the cycle
    R ascending -> last L -> L descending -> first R"""
    b, ps = rep.explore(ctx, PIO, rule)
    if b is None:
        return
    heads = sorted(b.loops())
    if len(heads) != 5:
        rep.ob(rule, 'five-loops', False, 'precompute_iteration_order has %d loops; the rule models the group loop, the R scan, the L scan and the two '
               'chain loops' % len(heads), loc=b.loc(b.j['line_lo']), reason='cannot-tabulate')
        return
    # the scan variable i is the local havoc'd at the first three headers
    ilocal = None
    for p in ps:
        for e in p.events:
            if e['k'] == 'loophead' and e['bb'] == heads[1]:
                for (v, c) in p.conds:
                    for y in sym.walk(v):
                        if y[0] == 'havoc' and y[1] == heads[0]:
                            ilocal = y[2]
    if ilocal is None:
        rep.ob(rule, 'scan-variable', False, 'cannot identify the scan variable of the group loop', loc=b.loc(b.j['line_lo']), reason='cannot-tabulate')
        return
    names = {(heads[0], ilocal): 'i0', (heads[1], ilocal): 'i1', (heads[2], ilocal): 'i2'}
    got = set()
    ranges = set()
    for p in ps:
        has_r = has_l = None
        for (v, c) in p.conds:
            x = strip_upd(v)
            if x[0] == 'op' and x[1] in ('gt', 'lt', 'ne', 'eq', 'ge', 'le') and len(x) == 4:
                # a group is non-empty iff its length is positive: i1 > i0, i1 - i0 > 0, i1 != i0, i1 - i0 >= 1 ...
                d = _ix_diff(x[2], x[3], names)
                for form, which in (({'i1': 1, 'i0': -1}, 'r'), ({'i2': 1, 'i1': -1}, 'l'), ({'i0': 1, 'i1': -1}, '-r'), ({'i1': 1, 'i2': -1}, '-l')):
                    for k_ in (0, 1, -1):
                        if d == (frozenset(form.items()), k_):
                            val = _nonempty(x[1], which.startswith('-'), k_, bool(c[1]))
                            if val is not None:
                                if which.endswith('r'):
                                    has_r = val
                                else:
                                    has_l = val
        # `for (slot, v) in map[a..b].iter_mut().zip(c..) { *slot = v }` is map[j] = j + (c - a) for j in a..b
        zipped = {}
        for e in p.events:
            if e['k'] != 'loophead':
                continue
            for l, v in e.get('pre', {}).items():
                z = strip_upd(v)
                while z[0] in ('call', 'pcall') and z[1].endswith('into_iter') and len(z[2]) == 1:
                    z = strip_upd(z[2][0])
                if not (z[0] in ('call', 'pcall') and z[1].endswith('Iterator::zip') and len(z[2]) == 2):
                    continue
                sl, cnt = strip_upd(z[2][0]), strip_upd(z[2][1])
                if not (sl[0] in ('call', 'pcall') and sl[1].endswith('::iter_mut') and len(sl[2]) == 1):
                    continue
                im = strip_upd(sl[2][0])
                if not (im[0] in ('call', 'pcall') and im[1].endswith('index_mut') and len(im[2]) == 2):
                    continue
                r_ = strip_upd(im[2][1])
                if r_[0] == 'agg' and r_[5].endswith('::Range') and len(r_[4]) == 2:
                    rng = ('excl', r_[4][0], r_[4][1])
                elif r_[0] in ('call', 'pcall') and r_[1].endswith('RangeInclusive::<Idx>::new') and len(r_[2]) == 2:
                    rng = ('incl', r_[2][0], r_[2][1])
                else:
                    continue
                if cnt[0] == 'agg' and cnt[5].endswith('::RangeFrom') and len(cnt[4]) == 1:
                    zipped[l] = (rng, cnt[4][0])

        def zip_item(v, part):
            x = strip_upd(v)
            if x[0] == 'deref':
                x = strip_upd(x[1])
            if x[0] == 'field' and str(x[2]) == str(part):
                y = strip_upd(x[1])
                if y[0] == 'field' and str(y[2]) == '0' and strip_upd(y[1])[0] == 'variant':
                    c_ = strip_upd(strip_upd(y[1])[1])
                    if c_[0] in ('call', 'pcall') and c_[1].endswith('::next') and len(c_[2]) == 1:
                        a_ = strip_upd(c_[2][0])
                        if a_[0] == 'ref' and a_[1][0][0] == 'loc':
                            return a_[1][0][2]
            return None

        for e in p.events:
            if e['k'] == 'store' and e['loc'][0][0] == 'ext':
                base = strip_upd(e['loc'][0][1])
                zl = zip_item(base, 0)
                if zl is not None and zl in zipped and zip_item(e['val'], 1) == zl and not e['loc'][1]:
                    (kind, a_, b_), c_ = zipped[zl]
                    d, k_ = _comb(_lin(c_, names), _lin(a_, names), -1)
                    got.add(('chain', 'j%+d' % k_ if not d and k_ else '?'))
                    ranges.add((kind, _ix(a_, names), _ix(b_, names)))
                    continue
                if base[0] in ('call', 'pcall') and base[1].endswith('index_mut') and len(base[2]) == 2:
                    idx = _ix(base[2][1], names)
                    val = _ix(e['val'], names)
                    if idx == 'j':
                        got.add(('chain', val))
                    else:
                        got.add((idx, val, has_r, has_l))
            if e['k'] == 'call' and e.get('depth', 0) == 0 and e['callee'].endswith('into_iter'):
                a = strip_upd(e['args'][0])
                if a[0] == 'agg' and a[5].endswith('Range'):
                    ranges.add(('excl', _ix(a[4][0], names), _ix(a[4][1], names)))
                elif a[0] in ('call', 'pcall') and a[1].endswith('RangeInclusive::<Idx>::new'):
                    ranges.add(('incl', _ix(a[2][0], names), _ix(a[2][1], names)))
    exp_fixed = {('i1-1', 'i2-1', True, True), ('i1-1', 'i0', True, False), ('i1', 'i0', True, True), ('i1', 'i2-1', False, True)}
    fixed = set(g for g in got if g[0] != 'chain')
    chains = set(g[1] for g in got if g[0] == 'chain')
    ok1 = fixed == exp_fixed
    rep.ob(rule, 'group-ends', ok1,
           'end links of a vertex group must be map[i1-1] = (L events ? i2-1 : i0) and map[i1] = (R events ? i0 : i2-1) (i0 group start, i1 end of R '
           'events, i2 end of L events); unexpected %s, missing %s' % (sorted(map(str, fixed - exp_fixed)), sorted(map(str, exp_fixed - fixed))),
           loc=b.loc(b.j['line_lo']), reason='table-row', expected=sorted(map(str, exp_fixed)), found=sorted(map(str, fixed)))
    ok2 = chains == {'j+1', 'j-1'} and ranges >= {('excl', 'i0', 'i1-1'), ('incl', 'i1+1', 'i2-1')}
    rep.ob(rule, 'chains', ok2,
           'R events must be chained upwards (map[j] = j+1 for j in i0..i1-1) and L events downwards (map[j] = j-1 for j in i1+1..=i2-1); found '
           'chains %s over ranges %s' % (sorted(chains), sorted(ranges)), loc=b.loc(b.j['line_lo']), reason='table-row')
    # the scans: R scan stops at the first event that is not identical to data[i0] or is a left event; L scan at the first non-identical
    scans = {heads[1]: set(), heads[2]: set()}
    for p in ps:
        if p.end != 'backedge' or p.end_info not in scans:
            continue
        last = max(i for i, e in enumerate(p.events) if e['k'] == 'loophead' and e['bb'] == p.end_info)
        cs = []
        for e in p.events[last:]:
            if e['k'] == 'call' and e['callee'].endswith('Fn::call'):
                f_ = strip_upd(e['args'][0])
                which = 'identical' if (f_[0] == 'ref' and f_[1][0][2] == 2) or (f_[0] == 'param' and f_[1] == 2) else 'is_left'
                args = strip_upd(e['args'][1])
                idxs = []
                for a in (args[4] if args[0] == 'agg' else []):
                    aa = strip_upd(a)
                    ix = '?'
                    if aa[0] == 'ref' and aa[1][1] and aa[1][1][-1][0] == 'i':
                        ix = _ix(aa[1][1][-1][1], names)
                    elif aa[0] == 'ref' and aa[1][0][0] == 'loc' and aa[1] in p.final.mem:
                        # x_ref: a local holding &data[i0]
                        inner = strip_upd(p.final.mem[aa[1]])
                        if inner[0] == 'ref' and inner[1][1] and inner[1][1][-1][0] == 'i':
                            ix = _ix(inner[1][1][-1][1], names)
                    idxs.append(ix)
                if which == 'identical':
                    idxs = sorted(idxs)       # the predicate handed in is symmetric (vertex-predicates below)
                which = '%s(%s)' % (which, ','.join(idxs))
                res = None
                for (v, c) in p.conds:
                    if noepoch(strip_upd(v)) == noepoch(strip_upd(e['ret'])):
                        res = c[1]
                cs.append((which, res))
        scans[p.end_info].add(tuple(cs))
    r_ok = scans[heads[1]] == {(('identical(i0,i1)', True), ('is_left(i1)', False))}
    l_ok = bool(scans[heads[2]]) and all(s and s[0] == ('identical(i0,i2)', True) for s in scans[heads[2]])
    rep.ob(rule, 'scans', r_ok and l_ok,
           'the R scan must advance over events identical to the group\'s first event that are not left events, the L scan over identical '
           'events; found R scan %s, L scan %s' % (sorted(scans[heads[1]]), sorted(scans[heads[2]])), loc=b.loc(b.j['line_lo']), reason='table-row')
    # the scan variable: starts at 0, every scan step advances it by exactly one, and a group / a scan step is only entered
    # while it is below data.len()
    why = []
    first = [e for p in ps for e in p.events if e['k'] == 'loophead' and e['bb'] == heads[0]]
    init = strip_upd(first[0].get('pre', {}).get(ilocal, ('c', None))) if first else ('c', None)
    if not (sym.is_const(init) and init[1] == 0 and not isinstance(init[1], bool)):
        why.append('the scan does not start at index 0 (starts at %s)' % show(noepoch(init))[:30])

    def below_len(p, header):
        """the path assumes  i < data.len()  for the scan variable as it is at `header`"""
        me = names[(header, ilocal)]
        for (v, c) in p.conds:
            x = strip_upd(v)
            if x[0] != 'op' or len(x) != 4 or x[1] not in ('lt', 'gt', 'le', 'ge', 'ne', 'eq') or c[0] != 'eq':
                continue
            d, k_ = _comb(_lin(x[2], names), _lin(x[3], names), -1)
            lens = [s_ for s_ in d if 'len(' in s_]
            if set(d) - set(lens) != {me} or len(lens) != 1 or d[me] + d[lens[0]] != 0 or abs(d[me]) != 1:
                continue
            # d = +-(i - len) + k_ ; truth for i - len in -2..2 must be exactly (i - len < 0)
            ok_ = True
            for delta in (-2, -1, 0, 1, 2):
                val = d[me] * delta + k_
                t = {'lt': val < 0, 'gt': val > 0, 'le': val <= 0, 'ge': val >= 0, 'ne': val != 0, 'eq': val == 0}[x[1]]
                ok_ = ok_ and (t == bool(c[1])) == (delta < 0)
            if ok_:
                return True
        return False

    n_scan = 0
    for p in ps:
        if p.end == 'backedge' and p.end_info in (heads[1], heads[2]):
            n_scan += 1
            fin = None
            for k, v in p.final.mem.items():
                if k[0][0] == 'loc' and k[0][2] == ilocal and k[1] == ():
                    fin = _lin(v, names)
            me = names[(p.end_info, ilocal)]
            if fin != ({me: 1}, 1):
                why.append('a scan step does not advance the index by exactly one (%s -> %s)' % (me, fin))
            if not below_len(p, p.end_info):
                why.append('a scan step is taken without the index being below data.len()')
        hs = [e['bb'] for e in p.events if e['k'] == 'loophead']
        if heads[0] in hs and heads[1] in hs[hs.index(heads[0]):] and not below_len(p, heads[0]):
            why.append('a vertex group is started without the index being below data.len()')
    rep.ob(rule, 'scan-steps', not why and n_scan >= 2,
           'the scans of precompute_iteration_order must visit every index once, inside the data: %s' % '; '.join(sorted(set(why))[:3]),
           loc=b.loc(b.j['line_lo']), reason='dominance')
    check_vertex_predicates(ctx, rep, rule)


def _pred_eval(v, env, params):
    """truth value of a predicate closure's result for concrete points / flags of its arguments"""
    x = strip_upd(v)
    if sym.is_const(x):
        return x[1]
    if x[0] == 'op' and x[1] == 'not':
        return not _pred_eval(x[2], env, params)
    if x[0] == 'op' and len(x) == 4 and x[1] in ('bitand', 'bitor', 'bitxor'):
        a, b = bool(_pred_eval(x[2], env, params)), bool(_pred_eval(x[3], env, params))
        return {'bitand': a and b, 'bitor': a or b, 'bitxor': a != b}[x[1]]
    if x[0] == 'op' and len(x) == 4 and x[1] in ('eq', 'ne', 'lt', 'gt', 'le', 'ge'):
        a, b = _pred_eval(x[2], env, params), _pred_eval(x[3], env, params)
        return {'eq': a == b, 'ne': a != b, 'lt': a < b, 'gt': a > b, 'le': a <= b, 'ge': a >= b}[x[1]]
    # leaves: <param>.point[.x|.y], <param>.left
    path = []
    y = x
    while y[0] in ('field', 'deref', 'rcptr', 'refval', 'cell') or (y[0] == 'ref' and y[1][0][0] == 'ext'):
        if y[0] == 'field':
            path.append(str(y[2]))
            y = strip_upd(y[1])
        elif y[0] == 'ref':
            path += [str(st[1]) for st in reversed(y[1][1]) if st[0] == 'f']
            y = strip_upd(y[1][0][1])
        else:
            y = strip_upd(y[1])
    path = [q for q in reversed(path) if q != 'mutable']
    if y[0] == 'param' and y[1] in params:
        who = params[y[1]]
        if path == ['point']:
            return env[who + '.point']
        if path == ['point', 'x']:
            return env[who + '.point'][0]
        if path == ['point', 'y']:
            return env[who + '.point'][1]
        if path == ['left']:
            return env[who + '.left']
    raise ValueError(show(noepoch(x))[:70])


def check_vertex_predicates(ctx, rep, rule='T-vertex-cycle'):
    """the grouping is only as good as the predicates handed to precompute_iteration_order: events belong to one vertex exactly
    when their points are equal (both coordinates), the L / R kind is the left flag; the data is what order_events returned"""
    import itertools
    b, ps = rep.explore(ctx, CONNECT, rule, expand_loops=True)
    if b is None:
        return
    call = None
    path = None
    for p in ps:
        for e in p.calls('precompute_iteration_order'):
            call, path = e, p
            break
        if call:
            break
    if call is None:
        return      # the map is built some other way: T-walk / T-next-pos report what they cannot follow
    args = call['args']
    ok = len(args) == 3
    why = []
    if ok:
        data = call.get('ref_vals', {}).get(0)
        tr = list(sym.walk(args[0])) + (list(sym.walk(data)) if data is not None else [])
        locs = [x[1] for x in tr if x[0] == 'ref' and x[1][0][0] == 'loc']
        for l in locs:
            if l in path.final.mem:
                tr += list(sym.walk(path.final.mem[l]))
        if not any(x[0] in ('call', 'pcall') and x[1].endswith('order_events') for x in tr):
            ok = False
            why.append('the data is not the result of order_events')
        for i, (who, want) in ((1, ('identical', lambda e: e['a.point'] == e['b.point'])), (2, ('is_left', lambda e: e['a.left']))):
            c = strip_upd(args[i])
            name = c[2] if c[0] == 'agg' and c[1] == 'closure' else (c[1][1] if c[0] == 'c' and isinstance(c[1], tuple) and c[1][0] == 'fn' else None)
            if name is None or ctx.facts().body(name) is None:
                ok = False
                why.append('%s predicate is not a closure or function of this crate' % who)
                continue
            try:
                bc, pc = ctx.paths(name)
            except sym.CannotAnalyse as e_:
                ok = False
                why.append('%s predicate: %s' % (who, e_))
                continue
            rep.analysed.add(name)
            first = 2 if bc.j.get('kind') == 'Closure' else 1
            params = {first: 'a', first + 1: 'b'}
            pts = [(0, 0), (0, 1), (1, 0), (1, 1)]
            try:
                for pa, pb, la in itertools.product(pts, pts, (False, True)):
                    env = {'a.point': pa, 'b.point': pb, 'a.left': la, 'b.left': la}
                    for q in pc:
                        if q.end != 'return':
                            continue
                        if not all((bool(_pred_eval(v, env, params)) == bool(cc[1])) if cc[0] == 'eq' else True for (v, cc) in q.conds):
                            continue
                        if bool(_pred_eval(q.ret, env, params)) != bool(want(env)):
                            ok = False
                            why.append('%s predicate is %s for a.point=%s b.point=%s left=%s' % (who, not want(env), pa, pb, la))
                            raise StopIteration
            except StopIteration:
                pass
            except (ValueError, KeyError, TypeError) as e_:
                ok = False
                why.append('%s predicate cannot be evaluated: %s' % (who, e_))
    rep.ob(rule, 'vertex-predicates', ok,
           'precompute_iteration_order must be given the ordered result events, `same point` (both coordinates equal) and `is a left event`: %s'
           % '; '.join(why[:3]), loc=b.loc(call['line']), reason='table-row')
