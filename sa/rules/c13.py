"""C13 planar subdivision bookkeeping (partly decided)."""
from rules import sweeprules, pirules

LEVEL = 'other'
EXPLANATION = __doc__


def run(ctx, rep):
    sweeprules.check_loop(ctx, rep)
    sweeprules.check_break(ctx, rep)
    sweeprules.check_comparator(ctx, rep)
