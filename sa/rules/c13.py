"""C13 planar subdivision bookkeeping (partly decided)."""
from rules import sweeprules, pirules, fillrules

from rules import looprules

LEVEL = 'other'
EXPLANATION = __doc__


def run(ctx, rep):
    fillrules.check_process_polygon(ctx, rep)
    fillrules.check_fill_queue(ctx, rep)
    fillrules.check_divide(ctx, rep, rules=('S-divide', None))
    pirules.check_endpoint_guards(ctx, rep, rule='S-nonzero')
    # which segment is split where (and that segments meeting in a shared end point are left alone): the table of the splitting step
    pirules.check_code(ctx, rep, rule='T-code')
    sweeprules.check_loop(ctx, rep)
    sweeprules.check_break(ctx, rep)
    sweeprules.check_comparator(ctx, rep)
    looprules.check_loops(ctx, rep)
