"""Rules on the splay tree: M-size (size bookkeeping), M-stable (references handed out stay valid: lookups move boxes,
never node contents), M-direction (comparator convention), M-mirror (sibling symmetry, SplaySet delegation).  Used by C17."""
import re
import sym
from sym import show, noepoch, strip_upd, short
from facts import callee_name
from rules.common import CallGraph, all_statements, all_terms

T = 'splay::tree::SplayTree::<K, V, C>::'
IT = '<splay::tree::IntoIter<K, V> as std::iter::'
LESS, EQUAL, GREATER = 255, 0, 1
ORD = {LESS: 'Less', EQUAL: 'Equal', GREATER: 'Greater'}


def ret_kind(p):
    r = strip_upd(p.ret) if p.ret else None
    if r is None:
        return '?'
    if r[0] == 'agg' and r[5].endswith('Option'):
        return r[2]
    return 'other'


def size_stores(p, field):
    out = []
    for e in p.events:
        if e['k'] == 'store' and e.get('depth', 0) == 0:
            base, pth = e['loc']
            if base[0] == 'ext' and strip_upd(base[1])[0] == 'param' and pth == (('f', field),):
                out.append(e['val'])
    return out


def delta(v, field):
    """+1 / -1 / 0(const zero) / None for a value stored into self.FIELD"""
    x = strip_upd(v)
    if sym.is_const(x) and x[1] == 0:
        return 'zero'
    if x[0] == 'field' and str(x[2]) == '0':
        y = strip_upd(x[1])
        if y[0] == 'op' and y[1] in ('addwithoverflow', 'subwithoverflow') and len(y) == 4:
            a, b = strip_upd(y[2]), strip_upd(y[3])
            if a[0] == 'field' and a[2] == field and sym.is_const(b) and b[1] == 1:
                return +1 if y[1].startswith('add') else -1
    if x[0] == 'op' and x[1] in ('add', 'sub') and len(x) == 4:
        a, b = strip_upd(x[2]), strip_upd(x[3])
        if a[0] == 'field' and a[2] == field and sym.is_const(b) and b[1] == 1:
            return +1 if x[1] == 'add' else -1
    return None


def check_new(ctx, rep, rule='M-size'):
    """a new tree is empty: size 0, no root"""
    b, ps = rep.explore(ctx, T + 'new', rule)
    if b is None:
        return
    ok = bool(ps)
    found = ''
    for p in ps:
        r = strip_upd(p.ret) if p.ret else ('c', 0)
        d = dict(zip(r[3], r[4])) if r[0] == 'agg' and r[3] else {}
        sz = strip_upd(d.get('size', ('c', '?')))
        root = show(noepoch(d.get('root', ('c', '?'))))
        found = 'size=%s root=%s' % (show(sz), root[:50])
        ok = ok and sym.is_const(sz) and sz[1] == 0 and 'None' in root and 'Some' not in root
    rep.ob(rule, 'new-is-empty', ok, 'SplayTree::new must start with size 0 and no root; found %s' % found, loc=b.loc(b.j['line_lo']),
           reason='table-row')


def check_size(ctx, rep, rule='M-size'):
    spec = [
        (T + 'insert', 'size', {'None': [+1], 'Some': []}),
        (T + 'remove', 'size', {'Some': [-1], 'None': []}),
        (IT + 'Iterator>::next', 'remaining', {'Some': [-1], 'None': []}),
        (IT + 'DoubleEndedIterator>::next_back', 'remaining', {'Some': [-1], 'None': []}),
    ]
    for fn, field, exp in spec:
        b, ps = rep.explore(ctx, fn, rule)
        if b is None:
            continue
        seen = set()
        for p in ps:
            if p.end != 'return':
                continue
            k = ret_kind(p)
            ds = [delta(v, field) for v in size_stores(p, field)]
            ok = k in exp and ds == exp[k]
            if (k, ok) in seen:
                continue
            seen.add((k, ok))
            rep.ob(rule, '%s:returns-%s' % (short(fn), k), ok,
                   '%s changes `%s` by %s on a path returning %s; expected %s (the cached length must equal the number of stored keys)'
                   % (short(fn), field, ds, k, exp.get(k)), loc=b.loc(b.j['line_lo']), reason='table-row', expected=exp.get(k), found=ds)
    b, ps = rep.explore(ctx, T + 'clear', rule)
    if b is not None:
        for p in ps:
            if p.end == 'return':
                ds = [delta(v, 'size') for v in size_stores(p, 'size')]
                rep.ob(rule, 'clear:size=0', ds == ['zero'], 'clear() must set size to 0; stores %s' % ds, loc=b.loc(b.j['line_lo']), reason='table-row')
    b, ps = rep.explore(ctx, T + 'len', rule)
    if b is not None:
        for p in ps:
            r = strip_upd(p.ret)
            rep.ob(rule, 'len-reads-size', r[0] == 'field' and r[2] == 'size', 'len() returns %s' % show(noepoch(r))[:50], loc=b.loc(b.j['line_lo']),
                   reason='table-row')
    b, ps = rep.explore(ctx, '<splay::tree::SplayTree<K, V, C> as std::iter::IntoIterator>::into_iter', rule)
    if b is not None:
        for p in ps:
            if p.end != 'return':
                continue
            r = strip_upd(p.ret)
            d = dict(zip(r[3], r[4])) if r[0] == 'agg' else {}
            rem = strip_upd(d.get('remaining', ('c', None)))
            rep.ob(rule, 'into_iter:remaining=size', rem[0] == 'field' and rem[2] == 'size', 'into_iter hands %s to `remaining`' % show(noepoch(rem))[:50],
                   loc=b.loc(b.j['line_lo']), reason='table-row')


# ----------------------------------------------------------------------------------- M-stable

SHARED_LOOKUPS = ['get', 'find_key', 'contains', 'next', 'prev', 'min', 'max']
BOXTY = re.compile(r'^(std::boxed::Box<splay::node::Node<K, V>>|std::option::Option<std::boxed::Box<splay::node::Node<K, V>>>)$')


def check_stable(ctx, rep, rule='M-stable'):
    f = ctx.facts()
    node = f.adts.get('splay::node::Node')
    ok = False
    if node:
        fl = {x['name']: x['ty'] for x in node['variants'][0]['fields']}
        ok = fl.get('left') == fl.get('right') == 'std::option::Option<std::boxed::Box<splay::node::Node<K, V>>>'
    rep.ob(rule, 'children-are-boxed', ok, 'Node.left/right must be Option<Box<Node>>: references into a node rely on nodes never moving',
           reason='inventory')
    tree = f.adts.get('splay::tree::SplayTree')
    ok = False
    if tree:
        fl = {x['name']: x['ty'] for x in tree['variants'][0]['fields']}
        ok = fl.get('root') == 'std::cell::UnsafeCell<std::option::Option<std::boxed::Box<splay::node::Node<K, V>>>>'
    rep.ob(rule, 'root-is-boxed', ok, 'SplayTree.root must be UnsafeCell<Option<Box<Node>>>', reason='inventory')
    cg = CallGraph(f)
    roots = [T + m for m in SHARED_LOOKUPS]
    for r in roots:
        rep.anchor(ctx, r)
    reach = sorted(n for n in cg.reachable([r for r in roots if r in f.bodies]) if n in f.bodies and n.startswith('splay::'))
    rep.info['bodies reachable from &self lookups'] = [short(x) for x in reach]
    rep.floor(rule, 'bodies reachable from &self lookups', len(reach), 12)
    n_moves = 0
    for name in reach:
        b = f.bodies[name]
        rep.analysed.add(name)
        for _, t in all_terms(b):
            if t['k'] != 'call':
                continue
            cn = callee_name(t)
            if re.match(r'^std::mem::(swap|replace|take)$', cn) or re.match(r'^std::option::Option::<T>::(take|replace|insert)$', cn):
                n_moves += 1
                targs = t['callee'].get('args', [])
                moved = targs[0] if targs else '?'
                if cn.startswith('std::option::Option::<T>'):
                    moved = 'std::option::Option<%s>' % moved
                rep.ob(rule, 'moves-boxes-only:%s:%s' % (short(name), short(cn)), bool(BOXTY.match(moved)),
                       '%s in %s moves a value of type %s: restructuring during a lookup may only move Box<Node> pointers, never node contents '
                       '(keys / values handed out by reference would change under the caller)' % (cn, name, moved), loc=b.loc(t['line']), reason='inventory')
        for _, st in all_statements(b):
            if st['k'] != 'assign':
                continue
            pl = st['place']
            fs = [e for e in pl['p'] if e['k'] == 'field']
            if any(e['k'] == 'deref' for e in pl['p']) and fs and fs[-1]['name'] in ('key', 'value'):
                rep.ob(rule, 'no-write-to-key-value:%s' % short(name), False,
                       '%s assigns to a node\'s %s field during a lookup' % (name, fs[-1]['name']), loc=b.loc(st['line']), reason='inventory')
            # moving a whole Node out of its box
            rv = st['rv']
            if rv['k'] == 'use' and rv['op']['k'] == 'move' and rv['op']['place']['ty'].startswith('splay::node::Node<') \
                    and any(e['k'] == 'deref' for e in rv['op']['place']['p']):
                rep.ob(rule, 'no-move-out-of-box:%s' % short(name), False, '%s moves a Node out of its box during a lookup' % name,
                       loc=b.loc(st['line']), reason='inventory')
        for _, t in all_terms(b):
            if t['k'] == 'drop' and t.get('needs_drop') and t['ty'].startswith('std::boxed::Box<splay::node::Node<'):
                rep.ob(rule, 'no-node-freed:%s' % short(name), False, '%s can free a node during a lookup' % name, loc=b.loc(t['line']), reason='inventory')
    rep.floor(rule, 'swap/replace/take sites in lookup code', n_moves, 14)
    rep.ob(rule, 'lookup-code-scanned', True)


# -------------------------------------------------------------------------------- M-direction

def cmp_branch(p, b=None):
    """(ordering, comparator args ok) of the first comparator call on a path through a lookup loop"""
    for (v, c) in p.conds:
        x = strip_upd(v)
        if x[0] == 'discr':
            y = strip_upd(x[1])
            if y[0] in ('call', 'pcall') and y[1].endswith('Fn::call') and c[0] == 'eq':
                args = strip_upd(y[2][1])
                ok = False
                if args[0] == 'agg' and len(args[4]) == 2:
                    a0, a1 = strip_upd(args[4][0]), strip_upd(args[4][1])
                    is_query = a0[0] == 'param' or (a0[0] == 'ref' and a0[1][0][0] == 'loc' and a0[1][1] == () and
                                                     (b is None or a0[1][0][2] <= b.arg_count))
                    ok = is_query and a1[0] == 'ref' and bool(a1[1][1]) and a1[1][1][-1] == ('f', 'key')
                return c[1], ok
            if y[0] in ('call', 'pcall') and y[1].endswith('Fn::call') and c[0] == 'notin':
                rest = [o for o in (LESS, EQUAL, GREATER) if o not in [int(z) for z in c[1]]]
                if len(rest) == 1:
                    return rest[0], cmp_branch_args_ok(y, b)
                return ('many', tuple(rest)), cmp_branch_args_ok(y, b)
    return None, False


def cmp_branch_args_ok(y, b=None):
    args = strip_upd(y[2][1])
    if args[0] == 'agg' and len(args[4]) == 2:
        a0, a1 = strip_upd(args[4][0]), strip_upd(args[4][1])
        is_query = a0[0] == 'param' or (a0[0] == 'ref' and a0[1][0][0] == 'loc' and a0[1][1] == () and (b is None or a0[1][0][2] <= b.arg_count))
        return is_query and a1[0] == 'ref' and bool(a1[1][1]) and a1[1][1][-1] == ('f', 'key')
    return False


def final_local(b, p, name):
    for k, v in p.final.mem.items():
        if k[0][0] == 'loc' and k[1] == () and b.locals[k[0][2]].get('name') == name:
            return v
    return None


def child_followed(v):
    s = show(noepoch(v)) if v is not None else ''
    m = re.search(r'\.(left|right) as Some\)\.0\)$', s)
    return m.group(1) if m else None


def _orderings(p, b):
    """the comparator outcomes a path stands for (a `_ =>` arm covers several)"""
    o, ok = cmp_branch(p, b)
    if o is None:
        return []
    if isinstance(o, tuple) and o[0] == 'many':
        return [(x, ok) for x in o[1]]
    return [(o, ok)]


def check_direction(ctx, rep, rule='M-direction'):
    for fn, record_on, var in (('next', LESS, 'successor'), ('prev', GREATER, 'predecessor')):
        b, ps = rep.explore(ctx, T + fn, rule)
        if b is None:
            continue
        seen = set()
        for p, o, args_ok in [(p, o, a) for p in ps for (o, a) in _orderings(p, b)]:
            # locals are identified by what they hold, not by their names
            child = None
            recorded = False
            for k, v in p.final.mem.items():
                if k[0][0] != 'loc' or k[1] != ():
                    continue
                c = child_followed(v)
                if c and p.end == 'backedge':
                    child = c
                vv = strip_upd(v)
                if vv[0] == 'agg' and vv[1] == 'adt' and vv[2] == 'Some' and vv[4] and strip_upd(vv[4][0])[0] == 'agg' and strip_upd(vv[4][0])[1] == 'tuple':
                    s = show(noepoch(vv))
                    if '.key' in s and '.value' in s:
                        recorded = True
            # which child was inspected
            looked = None
            for (v, c) in p.conds:
                s = show(noepoch(v))
                m = re.search(r'\.(left|right)\)$', s)
                if m and strip_upd(v)[0] == 'discr':
                    looked = m.group(1)
            exp_child = ('left' if o == LESS else 'right') if fn == 'next' else ('right' if o == GREATER else 'left')
            exp_rec = (o == record_on)
            ok = args_ok and looked == exp_child and recorded == exp_rec and (child in (None, exp_child))
            key = (ORD.get(o), ok)
            if key in seen:
                continue
            seen.add(key)
            rep.ob(rule, '%s:%s' % (fn, ORD.get(o)), ok,
                   '%s(): when comparator(key, node.key) is %s the search must go %s and %srecord the node as candidate; goes %s, records=%s, '
                   'comparator called as (query, &node.key)=%s' % (fn, ORD.get(o), exp_child, '' if exp_rec else 'not ', looked, recorded, args_ok),
                   loc=b.loc(b.j['line_lo']), reason='table-row')
        rep.floor(rule, '%s orderings' % fn, len(set(k for k, _ in seen)), 3)
        # the descent goes on while there is a child on the chosen side: for every ordering there is a path that follows the child
        # into the next iteration, and no path that has found such a child leaves the loop
        follows = set()
        stops = []
        for p, o, args_ok in [(p, o, a) for p in ps for (o, a) in _orderings(p, b)]:
            has_child = None
            for (v, c) in p.conds:
                sv = show(noepoch(v))
                if strip_upd(v)[0] == 'discr' and re.search(r'\.(left|right)\)$', sv):
                    has_child = (c == ('eq', 1))
            if has_child and p.end == 'backedge':
                follows.add(o)
            elif has_child and p.end == 'return':
                stops.append(ORD.get(o))
        rep.ob(rule, '%s:descends' % fn, follows == {LESS, EQUAL, GREATER} and not stops,
               '%s(): the search must continue into the child it chose whenever that child exists; it continues for %s and stops at an '
               'existing child for %s' % (fn, sorted(ORD.get(o) for o in follows), sorted(set(stops))), loc=b.loc(b.j['line_lo']), reason='table-row')
    # insert: old root goes to the right of the new node exactly on Less
    b, ps = rep.explore(ctx, T + 'insert', rule, opaque=('splay::node::Node',))
    if b is not None:
        seen = set()
        for p in ps:
            if p.end != 'return':
                continue
            o, args_ok = cmp_branch(p, b)
            if o is None or isinstance(o, tuple):
                continue
            pops = [short(e['callee']).split('::')[-1] for e in p.calls() if 'pop_' in e['callee']]
            links = [e['loc'][1][-1][1] for e in p.events if e['k'] == 'store' and e.get('depth', 0) == 0 and e['loc'][1]
                     and e['loc'][1][-1] in (('f', 'left'), ('f', 'right'))]
            nb = [e for e in p.calls() if e['callee'].endswith('new_boxed')]
            side = None
            if nb:
                l, r = strip_upd(nb[0]['args'][2]), strip_upd(nb[0]['args'][3])
                from rules.stackrules import is_none
                side = 'left' if not is_none(l) else ('right' if not is_none(r) else None)
            if o == EQUAL:
                ok = not pops and not nb and ret_kind(p) == 'Some'
                exp = 'replace the value, restructure nothing'
            else:
                want = 'left' if o == LESS else 'right'
                other = 'right' if o == LESS else 'left'
                ok = args_ok and pops == ['pop_' + want] and side == want and links == [other] and ret_kind(p) == 'None'
                exp = 'pop_%s, new node gets it as %s child, old root linked as %s child' % (want, want, other)
            if (o, ok) in seen:
                continue
            seen.add((o, ok))
            rep.ob(rule, 'insert:%s' % ORD.get(o), ok, 'insert() on %s must %s; found pops=%s, subtree passed as %s child, links=%s, returns %s'
                   % (ORD.get(o), exp, pops, side, links, ret_kind(p)), loc=b.loc(b.j['line_lo']), reason='table-row')
    # splay: first comparison decides which child is detached
    b, ps = rep.explore(ctx, 'splay::tree::splay', rule, opaque=('splay::node::Node',))
    if b is not None:
        seen = set()
        for p in ps:
            o, args_ok = cmp_branch(p, b)
            if o is None or isinstance(o, tuple):
                continue
            pops = [short(e['callee']).split('::')[-1] for e in p.calls() if 'pop_' in e['callee']]
            first = pops[0] if pops else None
            exp = {LESS: 'pop_left', GREATER: 'pop_right', EQUAL: None}[o]
            ok = args_ok and first == exp
            if (o, ok) in seen:
                continue
            seen.add((o, ok))
            rep.ob(rule, 'splay:%s' % ORD.get(o), ok, 'splay(): on %s the first child detached must be %s, is %s' % (ORD.get(o), exp, first),
                   loc=b.loc(b.j['line_lo']), reason='table-row')


def check_comparator_calls(ctx, rep, rule='M-direction'):
    """every call of the comparator in the tree is comparator(query key, &node.key), in this order (the arms of every match on the
    result are written for that convention), and the root-level decision of insert / remove is taken after splay(key, root)"""
    f = ctx.facts()
    n = 0
    for fn in sorted(f.bodies):
        if not (fn.startswith(T) or fn == 'splay::tree::splay') or '{closure' in fn:
            continue
        b = f.bodies[fn]
        if not any(callee_name(t).endswith('Fn::call') for _, t in b.calls()):
            continue
        bb, ps = rep.explore(ctx, fn, rule, opaque=('splay::node::Node', 'splay::tree::splay'))
        if bb is None:
            continue
        bad = None
        unsplayed = None
        for p in ps:
            splayed = False
            for e in p.events:
                if e['k'] != 'call' or e.get('depth', 0) != 0:
                    continue
                if e['callee'] == 'splay::tree::splay':
                    a0 = strip_upd(e['args'][0])
                    splayed = a0[0] == 'param' or (a0[0] == 'ref' and a0[1][0][0] == 'loc' and a0[1][0][2] <= bb.arg_count)
                if not e['callee'].endswith('Fn::call'):
                    continue
                n += 1
                args = strip_upd(e['args'][1])
                ok = False
                if args[0] == 'agg' and len(args[4]) == 2:
                    a0, a1 = strip_upd(args[4][0]), strip_upd(args[4][1])
                    is_query = a0[0] == 'param' or (a0[0] == 'ref' and a0[1][0][0] == 'loc' and a0[1][1] == () and a0[1][0][2] <= bb.arg_count)
                    ok = is_query and a1[0] == 'ref' and bool(a1[1][1]) and a1[1][1][-1] == ('f', 'key')
                if not ok and bad is None:
                    bad = e
                if short(fn).split('::')[-1] in ('insert', 'remove') and not splayed and unsplayed is None:
                    unsplayed = e
        rep.ob(rule, 'comparator-arguments:%s' % short(fn), bad is None,
               '%s calls the comparator with %s; every call must be comparator(query key, &node.key)'
               % (short(fn), [show(noepoch(a))[:50] for a in strip_upd(bad['args'][1])[4]] if bad else ''),
               loc=bb.loc(bad['line']) if bad else None, reason='table-row')
        if short(fn).split('::')[-1] in ('insert', 'remove'):
            rep.ob(rule, 'root-decision-after-splay:%s' % short(fn), unsplayed is None,
                   '%s compares the key with the root without having splayed the key to the root first: the comparison says nothing about '
                   'the rest of the tree' % short(fn), loc=bb.loc(unsplayed['line']) if unsplayed else None, reason='dominance')
    rep.floor(rule, 'comparator calls on paths', n, 20)


# ----------------------------------------------------------------------------------- M-mirror

SWAP = [('pop_left', 'pop_right'), ('left', 'right'), ('min_node', 'max_node'), ('next_back', 'next'), ('Less', 'Greater')]


def mirror_text(s):
    out = s
    for a, b in SWAP:
        out = re.sub(r'\b%s\b' % a, '\x00', out)
        out = re.sub(r'\b%s\b' % b, a, out)
        out = out.replace('\x00', b)
    return out


def signature(p, b):
    sig = []
    for e in p.events:
        if e.get('depth', 0) != 0:
            continue
        if e['k'] == 'call':
            # plumbing of the `?` operator is not part of the shape
            if re.search(r'(ops::Try>::branch|::from_residual)$', e['callee']):
                continue
            sig.append('call:' + short(e['callee']).split('::')[-1])
        elif e['k'] == 'store':
            fs = [x[1] for x in e['loc'][1] if x[0] == 'f']
            sig.append('store:' + '.'.join(str(x) for x in fs))
        elif e['k'] == 'branch':
            v = strip_upd(e['val'])
            s = show(noepoch(v))
            m = re.search(r'\.(left|right)\)$', s)
            c = e['cond'][1]
            what = m.group(1) if m else ('cmp' if 'Fn::call' in s else 'x')
            if 'Fn::call' in s:
                if v[0] == 'discr' and not isinstance(c, bool) and c in ORD:
                    c = ORD[c]
                elif v[0] == 'op' and v[1] in ('eq', 'ne'):
                    what = 'cmp%s%s' % ('==' if v[1] == 'eq' else '!=', show(strip_upd(v[3])).replace('{}', '').split('::')[-1])
            sig.append('br:%s=%s' % (what, c))
    sig.append('end:' + p.end + ':' + (ret_kind(p) if p.end == 'return' else ''))
    # the order of branches is kept; the other tokens are compared as a multiset (independent stores may be written in any order)
    br = [x for x in sig if x.startswith('br:') or x.startswith('end:')]
    rest = [x for x in sig if not (x.startswith('br:') or x.startswith('end:'))]
    return (br, rest)


def canon(sig, mirror=False):
    br, rest = sig
    if mirror:
        br = [mirror_text(x) for x in br]
        rest = [mirror_text(x) for x in rest]
    return '|'.join(br) + ' # ' + '|'.join(sorted(rest))


def check_mirror(ctx, rep, rule='M-mirror'):
    pairs = [(IT + 'Iterator>::next', IT + 'DoubleEndedIterator>::next_back'),
             (T + 'min_node', T + 'max_node'),
             ('splay::node::Node::<K, V>::pop_left', 'splay::node::Node::<K, V>::pop_right')]
    for a, b_ in pairs:
        ba, pa = rep.explore(ctx, a, rule, opaque=('splay::node::Node',) if 'IntoIter' in a else ())
        bb, pb = rep.explore(ctx, b_, rule, opaque=('splay::node::Node',) if 'IntoIter' in a else ())
        if ba is None or bb is None:
            continue
        sa = sorted(canon(signature(p, ba)) for p in pa)
        sb = sorted(canon(signature(p, bb), mirror=True) for p in pb)
        rep.ob(rule, '%s~%s' % (short(a).split('::')[-1], short(b_).split('::')[-1]), sa == sb,
               '%s and %s are not mirror images (left<->right): %d vs %d path signatures, first difference: %s'
               % (short(a), short(b_), len(sa), len(sb), first_diff(sa, sb)), loc=ba.loc(ba.j['line_lo']), reason='table-row')
    # self-mirrored bodies: the set of path signatures is closed under the renaming
    for fn in ('splay::tree::splay',):
        b, ps = rep.explore(ctx, fn, rule, opaque=('splay::node::Node',))
        if b is None:
            continue
        s1 = sorted(canon(signature(p, b)) for p in ps)
        s2 = sorted(canon(signature(p, b), mirror=True) for p in ps)
        rep.ob(rule, '%s-arms' % short(fn).split('::')[-1], s1 == s2,
               'the Less and Greater arms of %s are not mirror images: %s' % (fn, first_diff(s1, s2)), loc=b.loc(b.j['line_lo']), reason='table-row')
        rep.floor(rule, 'path signatures of %s' % short(fn), len(s1), 9)
    # SplaySet delegates to the like-named SplayTree method
    f = ctx.facts()
    expect = {'len': 'len', 'clear': 'clear', 'contains': 'contains', 'find': 'find_key', 'next': 'next', 'prev': 'prev', 'insert': 'insert',
              'remove': 'remove', 'min': 'min', 'max': 'max'}
    n = 0
    for m, target in expect.items():
        name = 'splay::set::SplaySet::<T, C>::' + m
        b = f.bodies.get(name)
        if b is None:
            rep.ob(rule, 'delegate:%s' % m, False, 'SplaySet::%s not found' % m, reason='anchor-missing')
            continue
        rep.analysed.add(name)
        callees = [callee_name(t) for _, t in b.calls() if callee_name(t).startswith('splay::tree::SplayTree')]
        n += 1
        rep.ob(rule, 'delegate:%s' % m, callees == [T + target],
               'SplaySet::%s must delegate to SplayTree::%s, calls %s' % (m, target, [short(c) for c in callees]), loc=b.loc(b.j['line_lo']),
               reason='table-row')
    # further like-named delegations: iterator adaptors of the set, min/max of the tree
    SI_ = '<splay::set::IntoIter<T> as std::iter::'
    TI_ = '<splay::tree::IntoIter<K, V> as std::iter::'
    more = [(SI_ + 'Iterator>::next', TI_ + 'Iterator>::next'),
            (SI_ + 'DoubleEndedIterator>::next_back', TI_ + 'DoubleEndedIterator>::next_back'),
            (SI_ + 'Iterator>::size_hint', TI_ + 'Iterator>::size_hint'),
            ('<splay::set::SplaySet<T, C> as std::iter::IntoIterator>::into_iter', '<splay::tree::SplayTree<K, V, C> as std::iter::IntoIterator>::into_iter'),
            (T + 'min', T + 'min_node'), (T + 'max', T + 'max_node')]
    for name, target in more:
        b = f.bodies.get(name)
        if b is None:
            rep.ob(rule, 'delegate:%s' % short(name), False, '%s not found' % name, reason='anchor-missing')
            continue
        rep.analysed.add(name)
        callees = [callee_name(t) for _, t in b.calls() if 'splay::tree::' in callee_name(t)]
        n += 1
        rep.ob(rule, 'delegate:%s' % short(name), callees == [target],
               '%s must delegate to %s, calls %s' % (short(name), short(target), [short(c) for c in callees]), loc=b.loc(b.j['line_lo']),
               reason='table-row')
    # Extend: every item the iterator yields is inserted once (key and value in this order), nothing else is
    for name, nargs, target in (('<splay::tree::SplayTree<K, V, C> as std::iter::Extend<(K, V)>>::extend', 3, T + 'insert'),
                                ('<splay::set::SplaySet<T, C> as std::iter::Extend<T>>::extend', 2, 'splay::set::SplaySet::<T, C>::insert')):
        be, pe = rep.explore(ctx, name, rule)
        if be is None:
            continue
        ok = bool(pe)
        for p in pe:
            ins = [e for e in p.calls() if e['callee'] == target and e.get('depth', 0) == 0]
            yielded = any(strip_upd(v)[0] == 'discr' and 'next(' in show(noepoch(v)) and c == ('eq', 1) for (v, c) in p.conds)
            if p.end == 'backedge' and yielded:
                good = len(ins) == 1 and len(ins[0]['args']) == nargs and show(noepoch(ins[0]['args'][0])) == 'self'
                # the loop runs over the argument itself, not over an adaptor of it
                its = [strip_upd(v) for e in p.events if e['k'] == 'loophead' for v in e.get('pre', {}).values()
                       if strip_upd(v)[0] in ('call', 'pcall') and strip_upd(v)[1].endswith('into_iter')]
                good = good and len(its) >= 1 and all(len(x[2]) == 1 and strip_upd(x[2][0])[0] == 'param' for x in its)
                if good:
                    pay = [show(noepoch(a)) for a in ins[0]['args'][1:]]
                    good = all('next(' in s and 'as Some).0' in s for s in pay) and (nargs == 2 or (pay[0].endswith('.0') and pay[1].endswith('.1')))
                ok = ok and good
            elif p.end == 'return':
                ok = ok and not ins
        n += 1
        rep.ob(rule, 'delegate:%s' % short(name), ok, '%s must insert every item the iterator yields exactly once' % short(name),
               loc=be.loc(be.j['line_lo']), reason='table-row')
    rep.floor(rule, 'SplaySet delegations', n, 18)


# ------------------------------------------------------------------ what the thin wrappers return (M-returns)

def _result_shape(v, p, target, assume):
    """what a wrapper returns, as a function of the delegate's result: 'result', 'none', 'some(result)', 'some(result.0)',
    True / False, or ('other', text).  `assume` is 'none' / 'some' (what this row assumes about an Option result) or None."""
    x = strip_upd(v)

    def is_result(y):
        y = strip_upd(y)
        if y[0] == 'ref' and y[1][0][0] == 'loc' and p is not None:
            y = strip_upd(p.final.mem.get(y[1], y))
        return y[0] in ('call', 'pcall') and y[1] == target

    if is_result(x):
        return 'result'
    if sym.is_const(x) and isinstance(x[1], bool):
        return bool(x[1])
    if x[0] == 'op' and x[1] == 'not':
        r = _result_shape(x[2], p, target, assume)
        return (not r) if isinstance(r, bool) else ('other', show(noepoch(x))[:80])
    if x[0] in ('pcall', 'call') and re.search(r'Option::<T>::is_(none|some)$', x[1]) and len(x[2]) == 1 and is_result(x[2][0]):
        if assume is None:
            return ('needs-assumption', x[1].split('::')[-1])
        return (assume == 'none') == x[1].endswith('is_none')
    if x[0] == 'op' and x[1] in ('eq', 'ne') and len(x) == 4:
        a, b = strip_upd(x[2]), strip_upd(x[3])
        for l_, r_ in ((a, b), (b, a)):
            if l_[0] == 'discr' and is_result(l_[1]) and sym.is_const(r_):
                if assume is None:
                    return ('needs-assumption', 'discr')
                return ((assume == 'some') == (int(r_[1]) == 1)) == (x[1] == 'eq')
    if x[0] == 'agg' and x[5].endswith('Option'):
        if x[2] == 'None':
            return 'none'
        pl = strip_upd(x[4][0])
        if pl[0] == 'field' and str(pl[2]) == '0' and strip_upd(pl[1])[0] == 'variant' and is_result(strip_upd(pl[1])[1]):
            return 'some(result)'
        if pl[0] == 'field' and str(pl[2]) == '0':
            q = strip_upd(pl[1])
            if q[0] == 'field' and str(q[2]) == '0' and strip_upd(q[1])[0] == 'variant' and is_result(strip_upd(q[1])[1]):
                return 'some(result.0)'
    return ('other', show(noepoch(x))[:80])


def _wrapper_table(ps, target):
    """{assumption: set of shapes} over the returning paths of a thin wrapper around one call of `target`"""
    table = {'none': set(), 'some': set()}
    for p in ps:
        if p.end != 'return':
            continue
        assume = None
        ok = True
        for (v, c) in p.conds:
            x = strip_upd(v)
            if x[0] == 'discr' and strip_upd(x[1])[0] in ('call', 'pcall') and strip_upd(x[1])[1] == target:
                if c[0] == 'eq':
                    assume = 'some' if int(c[1]) == 1 else 'none'
                elif c[0] == 'notin':
                    assume = 'none' if 1 in [int(z) for z in c[1]] else 'some'
            else:
                ok = False
        for a in ([assume] if assume else ['none', 'some']):
            table[a].add(_result_shape(p.ret, p, target, a) if ok else ('other', 'the result depends on %s' % show(noepoch(p.conds[0][0]))[:60]))
    return table


def _int_eval(v, leaf_ok, n):
    """value of an integer / bool expression over one leaf (the element count), None when it is anything else"""
    x = strip_upd(v)
    if sym.is_const(x):
        return x[1]
    if leaf_ok(x):
        return n
    if x[0] == 'op' and x[1] == 'not':
        r = _int_eval(x[2], leaf_ok, n)
        return None if r is None else (not r)
    if x[0] == 'op' and len(x) == 4 and x[1] in ('eq', 'ne', 'lt', 'le', 'gt', 'ge'):
        a, b = _int_eval(x[2], leaf_ok, n), _int_eval(x[3], leaf_ok, n)
        if a is None or b is None:
            return None
        return {'eq': a == b, 'ne': a != b, 'lt': a < b, 'le': a <= b, 'gt': a > b, 'ge': a >= b}[x[1]]
    return None


def check_returns(ctx, rep, rule='M-returns'):
    """the wrappers of SplaySet (and the element-count accessors) return what a sorted set returns, as a function of what the
    tree method they delegate to returned: insert = "was absent", remove = "was present", next/prev/iteration = the key of the
    pair, is_empty = (len == 0).  Evaluated per outcome of the delegate (None / Some), so `is_none()`, `!is_some()`, a match
    and `map_or(true, |_| false)` are the same thing to the rule."""
    S = 'splay::set::SplaySet::<T, C>::'
    SI_ = '<splay::set::IntoIter<T> as std::iter::'
    TI_ = '<splay::tree::IntoIter<K, V> as std::iter::'
    ident = {'none': {'none', 'result'}, 'some': {'some(result)', 'result'}}
    key = {'none': {'none'}, 'some': {'some(result.0)'}}
    spec = [(S + 'insert', T + 'insert', {'none': {True}, 'some': {False}}, 'true exactly when the key was absent'),
            (S + 'remove', T + 'remove', {'none': {False}, 'some': {True}}, 'true exactly when the key was present'),
            (S + 'next', T + 'next', key, 'the key of the successor pair'),
            (S + 'prev', T + 'prev', key, 'the key of the predecessor pair'),
            (SI_ + 'Iterator>::next', TI_ + 'Iterator>::next', key, 'the key of the pair'),
            (SI_ + 'DoubleEndedIterator>::next_back', TI_ + 'DoubleEndedIterator>::next_back', key, 'the key of the pair'),
            (S + 'contains', T + 'contains', ident, 'the result unchanged'),
            (S + 'find', T + 'find_key', ident, 'the result unchanged'),
            (S + 'min', T + 'min', ident, 'the result unchanged'),
            (S + 'max', T + 'max', ident, 'the result unchanged'),
            (S + 'len', T + 'len', ident, 'the result unchanged')]
    n = 0
    for name, target, exp, text in spec:
        b, ps = rep.explore(ctx, name, rule, opaque=('splay::tree::',))
        if b is None:
            continue
        tab = _wrapper_table(ps, target)
        ok = all(tab[a] and tab[a] <= exp[a] for a in ('none', 'some'))
        n += 1
        rep.ob(rule, 'returns:%s' % short(name), ok,
               '%s must return %s (delegate: %s); per outcome of the delegate it returns %s' % (short(name), text, short(target),
                                                                                      dict((a, sorted(map(str, tab[a]))) for a in tab)),
               loc=b.loc(b.j['line_lo']), reason='table-row')
        # the key handed on is the caller's
        for p in ps:
            for e in p.calls():
                if e['callee'] == target:
                    rest = [strip_upd(a) for a in e['args'][1:]]
                    good = all(a[0] == 'param' or (a[0] == 'agg' and not a[4]) for a in rest)
                    rep.ob(rule, 'arguments:%s' % short(name), good, '%s must hand its own argument to %s' % (short(name), short(target)),
                           loc=b.loc(e['line']), reason='provenance')
    # element counts: len() is the cached size, is_empty() is len() == 0
    for name, leaf in ((S + 'is_empty', r'(SplayTree::<K, V, C>::len$|SplaySet::<T, C>::len$)'), (T + 'is_empty', None), (T + 'len', None)):
        b, ps = rep.explore(ctx, name, rule, opaque=('splay::tree::',) if leaf else ())
        if b is None:
            continue

        def leaf_ok(x, leaf=leaf):
            if leaf and x[0] in ('call', 'pcall') and re.search(leaf, x[1]):
                return True
            while x[0] == 'deref':
                x = strip_upd(x[1])
            return x[0] == 'field' and x[2] == 'size' and not leaf
        rets = [p.ret for p in ps if p.end == 'return']
        ok = bool(rets) and all(not p.conds for p in ps if p.end == 'return')
        if name.endswith('::len'):
            ok = ok and all(_int_eval(r, leaf_ok, 7) == 7 for r in rets)
            what = 'the cached element count'
        else:
            ok = ok and all([_int_eval(r, leaf_ok, k) for k in (0, 1, 2)] == [True, False, False] for r in rets)
            what = 'true exactly when the element count is 0'
        n += 1
        rep.ob(rule, 'returns:%s' % short(name), ok, '%s must return %s; it returns %s' % (short(name), what, [show(noepoch(r))[:60] for r in rets]),
               loc=b.loc(b.j['line_lo']), reason='table-row')
    rep.floor(rule, 'wrappers evaluated', n, 14)


def first_diff(a, b):
    for x, y in zip(a, b):
        if x != y:
            return '%s  VS  %s' % (x[:140], y[:140])
    return 'length %d vs %d' % (len(a), len(b))


# ----------------------------------------------------------------------------------- M-lookup

def equal_truth(p):
    """(truth of "comparator(query, &root.key) == Equal" on the path, the comparator call value) or (None, None)"""
    for (v, c) in p.conds:
        x = strip_upd(v)
        if x[0] == 'op' and x[1] in ('eq', 'ne') and len(x) == 4:
            a, b2 = strip_upd(x[2]), strip_upd(x[3])
            for call, other in ((a, b2), (b2, a)):
                if call[0] in ('call', 'pcall') and call[1].endswith('Fn::call') and other[0] == 'agg' and other[2] in ('Equal', 'Less', 'Greater'):
                    if other[2] != 'Equal':
                        return 'other:%s' % other[2], call
                    t = c[1] if x[1] == 'eq' else (not c[1])
                    return t, call
        if x[0] == 'discr':
            y = strip_upd(x[1])
            if y[0] in ('call', 'pcall') and y[1].endswith('Fn::call'):
                if c[0] == 'eq':
                    return c[1] == EQUAL, y
                if c[0] == 'notin':
                    return (EQUAL not in c[1]) and None, y
    return None, None


def _is_root_payload(v):
    """&*box((*UnsafeCell::get(&self.root) as Some).0) or the Some payload slot itself"""
    s = show(noepoch(strip_upd(v)))
    return 'UnsafeCell::get(&*self.root)' in s and ('Some' in s)


def check_lookup(ctx, rep, rule='M-lookup'):
    """get / get_mut / find_key / contains / remove decide membership by `comparator(key, &root.key) == Equal` *after*
    splaying for the same key; splay() stops only on Equal or when the child in the direction of the comparison is missing"""
    n = 0
    for m, field in (('get', 'value'), ('get_mut', 'value'), ('find_key', 'key'), ('remove', 'value')):
        b, ps = rep.explore(ctx, T + m, rule)
        if b is None:
            continue
        seen = set()
        for p in ps:
            if p.end != 'return':
                continue
            splays = [e for e in p.calls() if e['callee'].endswith('tree::splay')]
            root_none = any(strip_upd(v)[0] == 'discr' and 'self.root' in show(noepoch(v)) and
                            (c == ('eq', 0) or (c[0] == 'notin' and 1 in [int(z) for z in c[1]])) for (v, c) in p.conds)
            k = ret_kind(p)
            if not splays:
                ok = root_none and k == 'None'
                key = ('empty', ok)
                if key in seen:
                    continue
                seen.add(key)
                n += 1
                rep.ob(rule, '%s:empty-tree' % m, ok, '%s() without a splay must be the empty-tree path and return None (root None: %s, returns %s)'
                       % (m, root_none, k), loc=b.loc(b.j['line_lo']), reason='table-row')
                continue
            eqt, call = equal_truth(p)
            first = splays[0]
            a0 = strip_upd(first['args'][0])
            args_ok = a0[0] == 'param' and a0[2] == 'key' and _is_root_payload(first['args'][1])
            cmp_ok = False
            if call is not None:
                tup = strip_upd(call[2][1])
                if tup[0] == 'agg' and len(tup[4]) == 2:
                    q, nk = strip_upd(tup[4][0]), strip_upd(tup[4][1])
                    cmp_ok = q[0] == 'param' and q[2] == 'key' and _is_root_payload(nk) and show(noepoch(nk)).endswith('.key')
                # the membership comparison must come after the splay
                ci = [i for i, e in enumerate(p.events) if e['k'] == 'call' and e['callee'].endswith('Fn::call')]
                si = p.events.index(first)
                cmp_ok = cmp_ok and bool(ci) and min(ci) > si
            if eqt is True:
                want = 'Some'
                r = strip_upd(p.ret)
                payload = show(noepoch(strip_upd(r[4][0]))) if r[0] == 'agg' and r[4] else ''
                ret_ok = k == 'Some' and payload.endswith('.' + field) and 'self.root' in payload
            elif eqt is False:
                want = 'None'
                ret_ok = k == 'None'
            else:
                want = '?'
                ret_ok = False
            ok = args_ok and cmp_ok and ret_ok
            key = (eqt, ok)
            if key in seen:
                continue
            seen.add(key)
            n += 1
            rep.ob(rule, '%s:equal=%s' % (m, eqt), ok,
                   '%s() must splay for `key` at the root, then compare comparator(key, &root.key) with Equal, and return %s(root.%s) exactly '
                   'when it is Equal; this path: splay args ok=%s, comparison ok=%s, Equal=%s, returns %s %s'
                   % (m, 'Some', field, args_ok, cmp_ok, eqt, k, show(noepoch(p.ret))[:60]), loc=b.loc(b.j['line_lo']), reason='table-row')
    # contains = find_key(key).is_some()
    b, ps = rep.explore(ctx, T + 'contains', rule)
    if b is not None:
        ok = bool(ps)
        for p in ps:
            fk = [e for e in p.calls() if e['callee'].endswith('::find_key')]
            r = strip_upd(p.ret) if p.ret is not None else ('?',)
            good = len(fk) == 1 and [show(noepoch(a)) for a in fk[0]['args']] == ['self', 'key'] and r[0] in ('call', 'pcall') and r[1].endswith('Option::<T>::is_some')
            ok = ok and good
        n += 1
        rep.ob(rule, 'contains:is-find_key-is_some', ok, 'contains(key) must be find_key(key).is_some()', loc=b.loc(b.j['line_lo']), reason='table-row')
    # exits of splay()
    b, ps = rep.explore(ctx, 'splay::tree::splay', rule)
    if b is not None:
        seen = set()
        n_exit = 0
        for p in ps:
            if p.end != 'return':
                continue
            n_exit += 1
            o, _ = cmp_branch(p, b)
            if isinstance(o, tuple):
                o = None
            last = strip_upd(p.conds[-1][0]) if p.conds else ('?',)
            lc = p.conds[-1][1] if p.conds else None
            why = None
            if o == EQUAL:
                ok = len([1 for (v, c) in p.conds if strip_upd(v)[0] == 'discr']) == 1
                why = 'Equal'
            elif o in (LESS, GREATER):
                want = 'left' if o == LESS else 'right'
                s = show(noepoch(last))
                ok = last[0] == 'discr' and lc == ('eq', 0) and s.rstrip(')').endswith('.' + want)
                why = 'missing-%s-child' % want
                # every comparison on the path points the same way
                for (v, c) in p.conds:
                    x = strip_upd(v)
                    if x[0] == 'op' and x[1] in ('eq', 'ne') and 'Fn::call' in show(noepoch(x)):
                        y = strip_upd(x[3])
                        named = y[2] if y[0] == 'agg' else None
                        truth = c[1] if x[1] == 'eq' else (not c[1])
                        ok = ok and named == ORD[o] and truth is True
            else:
                ok = False
            key = (o, why, ok)
            if key in seen:
                continue
            seen.add(key)
            n += 1
            rep.ob(rule, 'splay-exit:%s:%s' % (ORD.get(o), why), ok,
                   'splay() may stop only when the comparison is Equal or the child in the direction of the comparison is missing; this exit has '
                   'first comparison %s and last test %s %s' % (ORD.get(o), show(noepoch(last))[:80], lc), loc=b.loc(b.j['line_lo']), reason='table-row')
        rep.floor(rule, 'splay exit paths', n_exit, 5)
    rep.floor(rule, 'lookup rows', n, 16)
    rep.rows_compared += n
