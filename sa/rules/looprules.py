"""L-complete: the loops of the pipeline run over *all* elements of what they iterate.

A loop over an operand, a ring, the sorted events, the result events or the contours that goes through an adaptor which cuts
or drops elements (skip, take, step_by, take_while, skip_while, map_while, a zip whose partner may be shorter, a sub-slice)
silently leaves part of the input unprocessed; every other rule states what one iteration must do and would not notice.
filter is allowed (the rules that own the loop check the predicate: W-collapsed, T-result-events, T-assemble); index ranges
must be `0..len` (the re-sorting loop of order_events and the chain loops of precompute_iteration_order have rules of their
own).  Used by C02 C04 C05 C07 C09 C13."""
import re
import sym
from sym import show, noepoch, strip_upd, short
from rules.fillrules import _range_len, _lin_len, resolve_process_polygon, FILL, PROCESS

CUTTING = re.compile(r'Iterator::(skip|take|step_by|take_while|skip_while|map_while|nth|scan)$')
SLICING = re.compile(r'(ops::Index<.*Range.*>>::index|slice::<impl \[T\]>::(split_at|split_first|split_last|chunks|windows|get)|Vec::<T(, A)?>::(drain|split_off|truncate))$')

FUNCS = ['boolean::fill_queue::fill_queue', 'boolean::connect_edges::order_events', 'boolean::connect_edges::connect_edges',
         'boolean::boolean_operation']


def cut_reason(v):
    """why the iterator value v may not yield every element of its source; None when nothing suspicious is found"""
    if sym.consecutive_pairs_source(v) is not None:
        return None     # zip(iter(P), P[1..] / skip(1)): all pairs of neighbours, i.e. all edges of a ring
    for x in sym.walk(v):
        if x[0] in ('call', 'pcall'):
            if CUTTING.search(x[1]):
                return 'goes through %s' % short(x[1])
            if SLICING.search(x[1]):
                return 'iterates a part of the collection (%s)' % short(x[1])
            if x[1].endswith('Iterator::zip') and len(x[2]) == 2:
                # fine when one side is provably at least as long as the other
                lens = []
                for a in x[2]:
                    n = _range_len(a)
                    if n == 'inf':
                        lens.append('inf')
                    elif n is not None:
                        lens.append(('lin', tuple(sorted(n[0].items())), n[1]))
                    else:
                        src = None
                        for y in sym.walk(a):
                            if y[0] == 'param':
                                src = ('lin', ((y[2], 1),), 0)
                                break
                        lens.append(src)
                a_, b_ = lens
                if 'inf' in (a_, b_):
                    continue
                if a_ is not None and a_ == b_:
                    continue
                return 'is zipped with an iterator that may be shorter (%s)' % show(noepoch(x))[:90]
        if x[0] == 'subslice':
            return 'iterates a sub-slice'
    return None


def check_loops(ctx, rep, rule='L-complete'):
    f = ctx.facts()
    funcs = list(FUNCS)
    pp = resolve_process_polygon(ctx) or PROCESS
    funcs.append(pp)
    # local helpers of fill_queue.rs that contain loops
    for n, b in f.bodies.items():
        if n.startswith('boolean::fill_queue::') and n not in funcs and '{closure' not in n and b.j.get('promoted') is None and b.loops():
            funcs.append(n)
    funcs += sorted(n for n in f.bodies if n.startswith('boolean::boolean_operation::{closure') or n.startswith('boolean::connect_edges::connect_edges::{closure'))
    n_loops = 0
    for fn in funcs:
        if fn not in f.bodies:
            continue
        kw = {'expand_loops': True} if fn.endswith('connect_edges::connect_edges') else {}
        b, ps = rep.explore(ctx, fn, rule, **kw)
        if b is None:
            continue
        seen = set()
        early = None
        for p in ps:
            # a `for` loop is left only when its iterator is exhausted: a path that got an element and then leaves the function
            # (break / return out of the loop body) drops the rest of the input
            if p.end == 'return' and early is None:
                locs = set()
                for e in p.events:
                    if e['k'] == 'loophead' and e.get('depth', 0) == 0:
                        locs |= set(e.get('pre', {}).keys())
                    elif e['k'] == 'branch' and e.get('depth', 0) == 0 and locs:
                        v = strip_upd(e['val'])
                        if v[0] == 'discr':
                            c = strip_upd(v[1])
                            if c[0] in ('call', 'pcall') and re.search(r'Iterator(<.*>)?>?::next$|::next$', c[1]) and len(c[2]) == 1:
                                a = strip_upd(c[2][0])
                                if a[0] == 'ref' and a[1][0][0] == 'loc' and a[1][0][2] in locs and e['cond'] == ('eq', 1):
                                    early = e
        for p in ps:
            for e in p.events:
                if e['k'] != 'loophead':
                    continue
                for l, v in e.get('pre', {}).items():
                    x = strip_upd(v)
                    if x[0] not in ('call', 'pcall') or not re.search(r'(::into_iter|::iter|::iter_mut|Iterator::\w+)$', x[1]):
                        continue
                    key = (str(e['bb']), noepoch(x))
                    if key in seen:
                        continue
                    seen.add(key)
                    n_loops += 1
                    why = cut_reason(x)
                    rep.ob(rule, 'loop-runs-over-everything:%s' % short(fn), why is None,
                           'a loop of %s %s: part of the input is never processed (iterator: %s)' % (short(fn), why, show(noepoch(x))[:120]),
                           loc=b.loc(b.j['line_lo']), reason='dominance')
                    # index loops over the result events start at 0 and end at the length
                    if fn.endswith('connect_edges::connect_edges'):
                        y = x
                        while y[0] in ('call', 'pcall') and y[1].endswith('into_iter') and len(y[2]) == 1:
                            y = strip_upd(y[2][0])
                        rng = None
                        if y[0] == 'agg' and y[5].endswith('::Range') and len(y[4]) == 2:
                            rng = (y[4][0], y[4][1], 0)
                        elif y[0] in ('call', 'pcall') and y[1].endswith('RangeInclusive::<Idx>::new') and len(y[2]) == 2:
                            rng = (y[2][0], y[2][1], 1)      # lo..=hi is lo..hi+1
                        if rng is not None:
                            from rules.walkrules import _lin
                            lo, hi = _lin(rng[0], {}), _lin(rng[1], {})
                            lens = [k for k in hi[0] if 'len(' in k]
                            ok = (not lo[0]) and lo[1] == 0 and len(hi[0]) == 1 and len(lens) == 1 and hi[0][lens[0]] == 1 and hi[1] + rng[2] == 0
                            rep.ob(rule, 'walk-covers-all-positions', ok,
                                   'the start positions of the contour walk must run over 0..result_events.len(); found %s' % show(noepoch(y))[:80],
                                   loc=b.loc(b.j['line_lo']), reason='dominance')
        rep.ob(rule, 'loop-left-only-when-exhausted:%s' % short(fn), early is None,
               'a loop of %s is left (break / return) on a path that had just taken an element from its iterator: the remaining elements '
               'are never processed' % short(fn), loc=b.loc(early['line']) if early else None, reason='dominance')
    rep.floor(rule, 'loops with an iterator', n_loops, 8)
