"""C03 support: P-refcell (no RefCell borrow can fail) and P-inventory (ledger of panic-capable sites)."""
import re
import sym
from sym import show, noepoch, strip_upd, short
from facts import callee_name
from rules.common import CallGraph, entry_bodies, all_terms

BORROW_RE = re.compile(r'^std::cell::RefCell::<T>::(borrow|borrow_mut|try_borrow|try_borrow_mut)$')
GUARD_TY = re.compile(r'^std::cell::(Ref|RefMut)<')


def check_refcell(ctx, rep, rule='P-refcell'):
    f = ctx.facts()
    cg = CallGraph(f)
    # bodies that can (transitively) borrow a cell
    borrowers = set()
    for n in f.bodies:
        r = cg.reachable([n])
        if any(x.startswith('ext:std::cell::RefCell::<T>::borrow') for x in r):
            borrowers.add(n)
    direct = [n for n, b in f.bodies.items() if any(t['k'] == 'call' and BORROW_RE.match(callee_name(t)) for _, t in all_terms(b))]
    n_sites = 0
    for name in sorted(direct):
        b = f.bodies[name]
        imp = (b.j.get('impl') or {})
        in_accessor = imp.get('self_ty', '').startswith('boolean::sweep_event::SweepEvent<') and not imp.get('trait')
        rep.ob(rule, 'borrow-in-accessor:%s' % short(name), in_accessor,
               '%s borrows the RefCell of an event directly; borrows must stay inside the small accessor methods of SweepEvent so that no '
               'guard can be held across other event accesses' % name, loc=b.loc(b.j['line_lo']), reason='inventory')
        try:
            bb, ps = ctx.paths(name)
        except sym.CannotAnalyse as e:
            rep.ob(rule, 'analysable:%s' % short(name), False, 'cannot analyse %s: %s' % (name, e), reason='cannot-tabulate')
            continue
        rep.analysed.add(name)
        rep.paths_enumerated += len(ps)
        site_ok = {}
        for p in ps:
            live = []     # (guard value, kind, line)
            for e in p.events:
                if e['k'] == 'call' and e.get('refcell'):
                    key = (e['line'], e['refcell'])
                    site_ok.setdefault(key, True)
                    for (g, kind, line) in live:
                        if kind == 'borrow_mut' or e['refcell'] == 'borrow_mut':
                            site_ok[key] = False
                            rep.ob(rule, 'overlap:%s' % short(name), False,
                                   'a %s at line %s is taken while the %s guard from line %s is still alive: BorrowMutError at run time if '
                                   'both denote the same event' % (e['refcell'], e['line'], kind, line), loc=bb.loc(e['line']), reason='dominance')
                    live.append((e['ret'], e['refcell'], e['line']))
                elif e['k'] == 'drop' and GUARD_TY.match(e['ty']):
                    v = strip_upd(e['val'])
                    live = [(g, k, l) for (g, k, l) in live if strip_upd(g) != v]
                elif e['k'] == 'call' and live and not e.get('inlined') and not e.get('refcell'):
                    cn = e['callee']
                    if cn in borrowers:
                        kinds = [k for (_, k, _) in live]
                        rep.ob(rule, 'call-under-guard:%s->%s' % (short(name), short(cn)), False,
                               '%s calls %s, which borrows an event cell, while holding a %s guard' % (name, cn, '/'.join(kinds)),
                               loc=bb.loc(e['line']), reason='dominance')
                        for key in site_ok:
                            site_ok[key] = False
        for key, ok in site_ok.items():
            n_sites += 1
            if ok:
                rep.ob(rule, 'guard-range-clean:%s:%s' % (short(name), key[1]), True)
    rep.floor(rule, 'RefCell borrow sites', n_sites, 19)
    # positive control
    fx = ctx.fixture()
    if fx is not None:
        import engine
        hit = fixture_double_borrow(ctx, fx)
        rep.ob('positive-control', 'refcell-overlap', hit, 'the guard-overlap rule does not fire on the positive-control crate', reason='floor')


def fixture_double_borrow(ctx, fx):
    from models import Purity
    b = fx.body('Cellular::double_borrow')
    if b is None:
        return False
    ex = sym.Explorer(fx, b, Purity(fx))
    for p in ex.explore():
        live = 0
        for e in p.events:
            if e['k'] == 'call' and e.get('refcell'):
                if live:
                    return True
                live += 1
            elif e['k'] == 'drop' and GUARD_TY.match(e['ty']):
                live = max(0, live - 1)
    return False


# ------------------------------------------------------------------------------------ inventory

PANIC_CALL = re.compile(r'(Option::<T>::(unwrap|expect)$|Result::<T, E>::(unwrap|expect)$|::panicking::|rt::panic_fmt$|rt::begin_panic|'
                        r'ops::Index(Mut)?<.*>>::index(_mut)?$|slice::<impl \[T\]>::swap$|Vec::<T(, A)?>::(remove|swap_remove|insert|split_off)$|'
                        r'::unreachable|assert_failed)')
COMPILER_ASSERTS = ('MisalignedPointerDereference', 'NullPointerDereference')


def panic_sites(facts, names):
    """dict key -> count; key = (function, kind, detail)"""
    out = {}
    for name in names:
        b = facts.bodies[name]
        for i, t in all_terms(b):
            key = None
            if t['k'] == 'assert':
                if t['assert_kind'] in COMPILER_ASSERTS:
                    continue
                key = (short(name), 'assert', t['assert_kind'])
            elif t['k'] == 'call':
                cn = callee_name(t)
                if PANIC_CALL.search(cn):
                    key = (short(name), 'call', short(cn))
            if key:
                out.setdefault(key, []).append(b.loc(t['line']))
    return out
