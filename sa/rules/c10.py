"""C10 f32/f64 agreement (partly decided: one generic body for both instantiations, sibling nextafter impls, argument order into
the orientation predicate, no precision-specific constants).  Accuracy of f32 results and coordinate-wise equality are numeric
and not decided."""
import re
import sym
from sym import show, noepoch, strip_upd, short
from facts import callee_name
from rules import degreerules
from rules.common import all_statements, all_terms

LEVEL = 'other'
EXPLANATION = __doc__

WIDTH_CALLS = re.compile(r'(mem::size_of|any::TypeId|any::type_name|NumCast::from|ToPrimitive::to_f(32|64)|cast::cast|FromPrimitive::from_f(32|64)|'
                         r'f(32|64)::from_bits|::to_bits$|Float::(epsilon|integer_decode|max_value|min_value|min_positive_value|is_normal|is_subnormal|classify)$|'
                         r'f(32|64)::(is_normal|is_subnormal|classify)$|MANTISSA_DIGITS)')


def scan_width(facts):
    out = []
    for name, b in facts.bodies.items():
        imp = b.j.get('impl') or {}
        if imp.get('auto_derived'):
            continue
        for _, st in all_statements(b):
            if st['k'] == 'assign' and st['rv']['k'] == 'cast' and re.match(r'^(FloatToFloat|FloatToInt|IntToFloat)', st['rv']['kind']):
                out.append((name, 'cast %s %s -> %s' % (st['rv']['kind'], st['rv']['from'], st['rv']['to']), b.loc(st['line'])))
        for _, t in all_terms(b):
            if t['k'] == 'call':
                cn = callee_name(t)
                if WIDTH_CALLS.search(cn):
                    out.append((name, 'call ' + cn, b.loc(t['line'])))
    return out


def run(ctx, rep):
    f = ctx.facts()
    # N-generic
    hits = scan_width(f)
    for (name, what, loc) in hits:
        rep.ob('N-generic', '%s:%s' % (short(name), what.split()[0] + ':' + what.split()[1][:30]), False,
               '%s contains width-specific float code (%s): the f32 and f64 instantiations would no longer run the same generic computation'
               % (name, what), loc=loc, reason='inventory')
    rep.ob('N-generic', 'no-width-specific-code', not hits, '')
    fx = ctx.fixture()
    if fx is not None:
        rep.ob('positive-control', 'width-specific-code', len(scan_width(fx)) >= 2, 'the width scan does not fire on the positive-control crate',
               reason='floor')
    # concrete float types: only the f64 orientation sign (result of signed_area / orient2d), float literals it is compared with, and
    # the two NextAfter impls.  Decided per local from where its value comes from, not from the name of the function holding it.
    concrete = sorted(n for n, b in f.bodies.items() if not (b.j.get('impl') or {}).get('auto_derived')
                      and any(re.search(r'^f(32|64)$', l['ty']) for l in b.locals))
    extra = []
    for n in concrete:
        b = f.bodies[n]
        if 'NextAfter' in n:
            continue
        fl = set(i for i, l in enumerate(b.locals) if re.search(r'^f(32|64)$', l['ty']))
        ok_src = True
        why = None
        for _, st in all_statements(b):
            if st['k'] != 'assign' or st['place']['p'] or st['place']['l'] not in fl:
                continue
            rv = st['rv']
            if rv['k'] == 'use':
                op = rv['op']
                if op['k'] == 'const' or (op['k'] in ('copy', 'move') and not op['place']['p'] and op['place']['l'] in fl):
                    continue
                if op['k'] in ('copy', 'move') and op['place']['ty'] in ('f32', 'f64'):
                    continue        # a field / deref of the same concrete type (e.g. a captured sign)
            ok_src, why = False, 'line %s: %s' % (st['line'], rv['k'])
        for _, tm in all_terms(b):
            if tm['k'] == 'call' and not tm['dest']['p'] and tm['dest']['l'] in fl:
                cn = callee_name(tm)
                if not (cn.endswith('signed_area::signed_area') or cn.endswith('robust::orient2d') or cn in f.bodies):
                    ok_src, why = False, 'line %s: result of %s' % (tm['line'], cn)
        if not ok_src:
            extra.append('%s (%s)' % (n, why))
    rep.info['bodies naming a concrete float type'] = concrete
    rep.ob('N-generic', 'concrete-float-types-confined', not extra,
           'a value of a concrete float type is computed in %s; only the f64 orientation sign returned by signed_area / orient2d, the literals '
           'it is compared with and the two NextAfter impls may name f32/f64' % extra, reason='inventory')
    # N-sibling
    sigs = {}
    for ty in ('f32', 'f64'):
        name = '<%s as boolean::helper::NextAfter>::nextafter' % ty
        b, ps = rep.explore(ctx, name, 'N-sibling')
        if b is None:
            continue
        sig = {}
        for p in ps:
            if p.end != 'return':
                continue
            up = None
            for (v, c) in p.conds:
                if strip_upd(v)[0] == 'param':
                    up = c[1]
            r = strip_upd(p.ret)
            tgt = None
            if r[0] in ('pcall', 'call') and r[1].endswith('next_after') and len(r[2]) == 2 and strip_upd(r[2][0])[0] == 'param':
                k = strip_upd(r[2][1])
                if k[0] == 'c' and isinstance(k[1], tuple) and k[1][0] == 'float':
                    tgt = (k[1][1], k[1][2])
                elif k[0] == 'c' and isinstance(k[1], tuple) and k[1][0] == 'item':
                    m = re.search(r'\b(f32|f64)::(consts::|<impl f(?:32|64)>::)?(NEG_INFINITY|INFINITY)$', k[1][1])
                    if m:
                        tgt = ('-inf' if m.group(m.lastindex) == 'NEG_INFINITY' else 'inf', m.group(1))
            sig[up] = tgt
        sigs[ty] = sig
        ok = sig == {True: ('inf', ty), False: ('-inf', ty)}
        rep.ob('N-sibling', 'nextafter:%s' % ty, ok,
               '<%s as NextAfter>::nextafter must step towards +INFINITY of its own type when `up`, else towards NEG_INFINITY; found %s' % (ty, sig),
               loc=b.loc(b.j['line_lo']), reason='table-row')
    rep.floor('N-sibling', 'NextAfter impls', len(sigs), 2)
    # N-orient
    b, ps = rep.explore(ctx, 'boolean::signed_area::signed_area', 'N-orient', inline=True)
    if b is not None:
        ok = False
        found = None
        for p in ps:
            r = strip_upd(p.ret) if p.ret else ('c', 0)
            if r[0] in ('pcall', 'call') and r[1].endswith('orient2d') and len(r[2]) == 3:
                names = []
                for a in r[2]:
                    aa = strip_upd(a)
                    if aa[0] == 'agg' and len(aa[4]) == 2 and aa[3] == ('x', 'y'):
                        x, y = strip_upd(aa[4][0]), strip_upd(aa[4][1])
                        if x[0] == 'field' and y[0] == 'field' and x[2] == 'x' and y[2] == 'y' and x[1] == y[1] and strip_upd(x[1])[0] == 'param':
                            names.append(strip_upd(x[1])[2])
                            continue
                    names.append('?')
                found = names
                ok = names == ['p0', 'p1', 'p2']
        rep.ob('N-orient', 'signed_area=orient2d(p0,p1,p2),x->x,y->y', ok,
               'signed_area must pass (x,y) of p0, p1, p2 to orient2d in this order; found %s' % found, loc=b.loc(b.j['line_lo']), reason='provenance')
    import witness
    witness.check(ctx, rep, ['WPairings', 'WPairingsNeg'], rule='W-types')
    # no precision-specific constant / tolerance
    degreerules.check_degrees(ctx, rep, rule='R-degree')
