"""Rules on connect_edges.rs: T-parent (the four parent cases of Fig. 4 of the Martinez paper + hole/parent pairing),
P-sentinel (a negative sentinel must not be used as an index without a dominating sign test), G-sinks.
Used by C02, C03, C04."""
import re
import sym
from sym import show, noepoch, strip_upd, short
from rules.tables import obj_root, atom_name, weak_link, event_cell_stores

INIT = 'boolean::connect_edges::Contour::<F>::initialize_from_context'
CONNECT = 'boolean::connect_edges::connect_edges'
ALIAS = {'event.prev_in_result': 'lower'}


def classify_id(v):
    """which contour id a value denotes: 'lower' (lower.output_contour_id), 'lower.hole_of', 'self' (contour_id param)"""
    x = strip_upd(v)
    while x[0] == 'cast':
        x = strip_upd(x[2])
    n = atom_name(x, ALIAS)
    if n == 'lower.output_contour_id':
        return 'lower'
    if x[0] == 'param' and x[2] == 'contour_id':
        return 'self'
    if x[0] == 'field' and str(x[2]) == '0':
        inner = strip_upd(x[1])
        if inner[0] == 'variant' and inner[2] == 'Some':
            src = strip_upd(inner[1])
            if src[0] == 'field' and src[2] == 'hole_of':
                idx = contour_index(src[1])
                if idx:
                    return '%s.hole_of' % idx
    return 'other:' + show(noepoch(x))[:70]


def contour_index(v):
    """'lower' when v is contours[lower.output_contour_id as usize] (through the slice parameter)"""
    x = strip_upd(v)
    if x[0] == 'index':
        base = strip_upd(x[1])
        if base[0] == 'deref' and strip_upd(base[1])[0] == 'param' and strip_upd(base[1])[2] == 'contours':
            return classify_id(x[2])
    return None


def check_parent(ctx, rep, rule='T-parent'):
    b, ps = rep.explore(ctx, INIT, rule)
    if b is None:
        return
    n = 0
    seen = set()
    for p in ps:
        if p.end != 'return':
            continue
        at = {}
        for (v, c) in p.conds:
            x = strip_upd(v)
            if x[0] == 'discr':
                w = weak_link(strip_upd(x[1]), ALIAS)
                if w:
                    at['has_lower'] = (c == ('eq', 1))
                    continue
                inner = strip_upd(x[1])
                if inner[0] == 'field' and inner[2] == 'hole_of' and contour_index(inner[1]) == 'lower':
                    at['lower_is_hole'] = (c == ('eq', 1))
                    continue
            if x[0] == 'op' and x[1] in ('eq', 'ne'):
                a0 = atom_name(strip_upd(x[2]), ALIAS)
                b0 = strip_upd(x[3])
                if a0 == 'lower.result_transition' and b0[0] in ('agg', 'c'):
                    variant = b0[2] if b0[0] == 'agg' else b0[1][2]
                    val = c[1] if x[1] == 'eq' else (not c[1])
                    if variant == 'OutIn':
                        at['lower_out_in'] = val
                    elif variant == 'InOut':
                        at['lower_out_in'] = not val
                    continue
            # other conditions (sign / range tests on the id) do not select the case
        r = strip_upd(p.ret)
        if not (r[0] == 'agg' and r[5].endswith('Contour')):
            rep.ob(rule, 'returns-contour', False, 'initialize_from_context returns %s' % show(noepoch(r))[:80], loc=b.loc(b.j['line_lo']),
                   reason='cannot-tabulate')
            continue
        d = dict(zip(r[3], r[4]))
        ho = strip_upd(d['hole_of'])
        hole_of = 'None' if ho[2] == 'None' else classify_id(ho[4][0])
        pushes = []
        for e in p.calls():
            if e['callee'].endswith('::push') and 'Vec' in e['callee']:
                tgt = strip_upd(e['args'][0])
                where = 'other'
                if tgt[0] == 'ref' and tgt[1][1] and tgt[1][1][-1] == ('f', 'hole_ids'):
                    base, pth = tgt[1]
                    # ext(contours)[idx].hole_ids
                    idx = [el for el in pth if el[0] == 'i']
                    if base[0] == 'ext' and strip_upd(base[1])[0] == 'param' and strip_upd(base[1])[2] == 'contours' and len(idx) == 1:
                        where = classify_id(idx[0][1])
                pushes.append((where, classify_id(e['args'][1])))
        # oracle, for every value of the atoms this path did not test (an untested atom the outcome depends on is a missing case)
        import itertools
        free = [a for a in ('has_lower', 'lower_out_in', 'lower_is_hole') if a not in at]
        for combo in itertools.product((False, True), repeat=len(free)):
            at2 = dict(at)
            at2.update(dict(zip(free, combo)))
            if not at2['has_lower']:
                exp, case = 'None', 'no-lower-edge'
            elif not at2['lower_out_in']:
                exp, case = 'None', 'lower-InOut'
            elif at2['lower_is_hole'] is False:
                exp, case = 'lower', 'lower-OutIn-exterior'
            else:
                exp, case = 'lower.hole_of', 'lower-OutIn-hole'
            if free:
                case += ':untested(%s)' % ','.join(free)
            exp_push = [] if exp == 'None' else [(exp, 'self')]
            ok = hole_of == exp and pushes == exp_push
            if case in seen and ok:
                continue
            seen.add(case)
            n += 1
            rep.ob(rule, case, ok,
                   'case %s: the new contour must get hole_of=%s and be registered exactly there (pushes %s); found hole_of=%s, pushes %s'
                   % (case, exp, exp_push, hole_of, pushes), loc=b.loc(b.j['line_lo']), reason='table-row',
                   expected={'hole_of': exp, 'pushes': exp_push}, found={'hole_of': hole_of, 'pushes': pushes})
            if not ok:
                rep.violations[-1]['path'] = ['%s:%s' % (b.file, l) for l in p.branch_lines()]
                break
    rep.rows_compared += n
    rep.floor(rule, 'parent cases', n, 4)
    # is_exterior reads hole_of
    bi, pi = rep.explore(ctx, 'boolean::connect_edges::Contour::<F>::is_exterior', rule)
    if bi is not None:
        ok = False
        for p in pi:
            r = strip_upd(p.ret) if p.ret else ('c', 0)
            ok = r[0] in ('pcall', 'call') and r[1].endswith('Option::<T>::is_none') and 'hole_of' in show(noepoch(r[2][0]))
        rep.ob(rule, 'is_exterior=hole_of.is_none', ok and len(pi) == 1, 'Contour::is_exterior must be hole_of.is_none()',
               loc=bi.loc(bi.j['line_lo']), reason='table-row')


# ------------------------------------------------------------------------------------- P-sentinel

def sentinel_fields(ctx, rep, rule):
    """fields of the events' mutable part that start out negative (found in SweepEvent::new_rc)"""
    b, ps = rep.explore(ctx, 'boolean::sweep_event::SweepEvent::<F>::new_rc', rule)
    out = {}
    if b is None:
        return out
    for p in ps:
        for x in sym.walk(p.ret) if p.ret else []:
            if x[0] == 'agg' and x[1] == 'adt' and x[5].endswith('MutablePart'):
                for name, val in zip(x[3], x[4]):
                    v = strip_upd(val)
                    if sym.is_const(v) and isinstance(v[1], int) and not isinstance(v[1], bool) and v[1] < 0:
                        out[name] = v[1]
    return out


def check_sentinel(ctx, rep, bodies, rule='P-sentinel'):
    sf = sentinel_fields(ctx, rep, rule)
    rep.ob(rule, 'sentinel-fields-found', bool(sf), 'no negative initial value found in SweepEvent::new_rc (expected output_contour_id = -1)',
           reason='anchor-missing')
    rep.info['sentinel fields'] = sf
    n_sites = 0
    for name in bodies:
        try:
            b, ps = ctx.paths(name)
        except sym.CannotAnalyse:
            continue
        rep.analysed.add(b.id)
        for p in ps:
            for e in p.events:
                idx = None
                if e['k'] == 'assert' and e['kind'] == 'BoundsCheck' and e.get('depth', 0) == 0:
                    idx = e.get('index')
                elif e['k'] == 'call' and e.get('depth', 0) == 0 and re.search(r'ops::Index(Mut)?<.*>>::index(_mut)?$', e['callee']) and len(e['args']) == 2:
                    idx = e['args'][1]
                if idx is None:
                    continue
                src = None
                for x in sym.walk(idx):
                    if x[0] == 'cast' and x[1].startswith('IntToInt') and x[3] == 'usize':
                        inner = strip_upd(x[2])
                        if inner[0] == 'field' and inner[2] in sf and strip_upd(inner[1])[0] == 'deref' and strip_upd(strip_upd(inner[1])[1])[0] == 'cell':
                            src = inner
                if src is None:
                    continue
                n_sites += 1
                guarded = False
                for (v, c) in p.conds:
                    x = strip_upd(v)
                    if x[0] == 'op' and len(x) == 4 and noepoch(strip_upd(x[2])) == noepoch(src) and sym.is_const(strip_upd(x[3])) and strip_upd(x[3])[1] == 0:
                        if (x[1] == 'lt' and c[1] is False) or (x[1] == 'ge' and c[1] is True):
                            guarded = True
                ctxname = branch_context(p)
                rep.ob(rule, '%s/%s' % (sym.short(name), ctxname), guarded,
                       '%s (initial value %d) is cast to usize and used as an index without a dominating `>= 0` test on this path; '
                       'the sibling branch of the same function guards exactly this' % (src[2], sf[src[2]]),
                       loc=b.loc(e['line']), reason='dominance')
    rep.floor(rule, 'sentinel-derived index sites on paths', n_sites, 4)


def branch_context(p):
    out = []
    for (v, c) in p.conds:
        x = strip_upd(v)
        if x[0] == 'op' and x[1] in ('eq', 'ne') and len(x) == 4:
            b0 = strip_upd(x[3])
            if b0[0] in ('agg', 'c') and (b0[0] == 'agg' or isinstance(b0[1], tuple)):
                variant = b0[2] if b0[0] == 'agg' else b0[1][2]
                val = c[1] if x[1] == 'eq' else (not c[1])
                out.append(variant if val else 'not-' + variant)
    return '+'.join(out) or 'any'


# ---------------------------------------------------------------------------------------- G-sinks

def check_sinks(ctx, rep, rule='G-sinks'):
    """every Coord pushed to a contour is the .point of an element of result_events (the ordered result events)"""
    b, ps = rep.explore(ctx, CONNECT, rule, expand_loops=True)
    if b is None:
        return
    n = 0
    bad = set()
    for p in ps:
        for e in p.calls():
            if e['callee'].endswith('::push') and 'Vec' in e['callee']:
                tgt = show(noepoch(e['args'][0]))
                if 'points' not in tgt:
                    continue
                n += 1
                v = strip_upd(e['args'][1])
                ok = False
                if v[0] == 'field' and v[2] == 'point':
                    src = show(noepoch(v[1]))
                    ok = 'order_events' in src or 'index' in src
                    # the element must come from the vector returned by order_events
                    from rules.oprules import tree
                    ok = any(x[0] == 'call' and x[1].endswith('order_events') for x in tree(v, p))
                if not ok:
                    bad.add(show(noepoch(v))[:100])
    rep.ob(rule, 'contour-points-are-event-points', not bad,
           'connect_edges pushes coordinates that are not the point of a result event: %s' % sorted(bad),
           loc=b.loc(b.j['line_lo']), reason='provenance')
    rep.floor(rule, 'point pushes on paths', n, 2)
