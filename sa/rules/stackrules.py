"""Bounded stack: K-norec (no code recursion reachable from the API, drop glue included), K-teardown (the recursive drop
glue of tree nodes only ever runs on nodes whose children were taken), K-events (event ownership does not chain).
Used by C03 and C18."""
import re
import sym
from sym import show, noepoch, strip_upd, short
from rules.common import CallGraph, entry_bodies


def is_none(v):
    x = strip_upd(v)
    if x[0] == 'agg' and x[1] == 'adt' and x[2] == 'None' and x[5].endswith('Option'):
        return True
    if x[0] == 'c' and isinstance(x[1], tuple) and x[1][0] == 'enum' and x[1][2] == 'None':
        return True
    return False


def recursive_drop_types(cg):
    """types whose drop glue is part of a cycle (recursive by type), and the types whose glue reaches one"""
    drops = set(n for n in cg.edges if n.startswith('drop:'))
    sccs = cg.sccs(drops)
    core = set(x for s in sccs for x in s)
    reach = set()
    for d in drops:
        if cg.reachable([d]) & core:
            reach.add(d)
    return sccs, core, reach


def check_norec(ctx, rep, rule='K-norec'):
    f = ctx.facts()
    cg = CallGraph(f)
    entries = entry_bodies(f)
    reach = cg.reachable(entries)
    rep.info['call graph'] = {'entry points': len(entries), 'nodes reachable': len(reach),
                              'local bodies reachable': len([n for n in reach if n in f.bodies]),
                              'drop-glue nodes reachable': len([n for n in reach if n.startswith('drop:')])}
    rep.floor(rule, 'reachable local bodies', len([n for n in reach if n in f.bodies]), 90)
    for n in reach:
        if n in f.bodies:
            rep.analysed.add(n)
    sccs = cg.sccs(reach)
    code_cycles = [s for s in sccs if any(n in f.bodies for n in s)]
    for s in code_cycles:
        locs = [n for n in s if n in f.bodies]
        w = cg.path(entries, locs[0]) or []
        b = f.bodies[locs[0]]
        rep.ob(rule, 'cycle:%s' % '+'.join(sorted(sym.short(x) for x in locs)), False,
               'recursion reachable from the public API: %s (depth depends on the data; reached via %s)'
               % (' -> '.join(sym.short(x) for x in s), ' -> '.join(sym.short(x) for x in w[-4:])),
               loc=b.loc(b.j['line_lo']), reason='recursion')
    rep.ob(rule, 'no-code-recursion', not code_cycles, '')
    return cg, entries, reach


NODE_OWNING = re.compile(r'^(std::option::Option<std::boxed::Box<splay::node::Node<.*>>>|std::boxed::Box<splay::node::Node<.*>>|'
                         r'splay::node::Node<.*>|std::cell::UnsafeCell<std::option::Option<std::boxed::Box<splay::node::Node<.*>>>>)$')


# Overwrite drops that are argued, not proved: the slot assigned to is vacant at that point.  Keyed by function and
# place (MIR temporaries written as `_`); a node-owning drop that is neither proved shallow nor listed is reported.
LEDGER = {
    'SplayTree::remove:(*_)': 'root slot: vacated by take() two statements earlier; only the detached left subtree and the comparator '
                              'are handed to splay in between',
    'SplayTree::remove:(*_).right': 'right child of the left subtree\'s new root: splaying for the removed key brings the maximum of that '
                                    'subtree to its root, which has no right child',
    'tree::splay:(*r)': 'link slot of the right assembly tree: either the fresh None local or the left field of the node linked last, '
                        'whose left child was popped before it was linked',
    'tree::splay:(*l)': 'mirror image of (*r)',
    'tree::splay:(*_).left': 'final assembly: the preceding mem::swap moved the root\'s left subtree into *l and the vacant slot\'s None '
                             'into the field',
    'tree::splay:(*_).right': 'mirror image of (*_).left',
}


def check_teardown(ctx, rep, cg, entries, reach, rule='K-teardown'):
    f = ctx.facts()
    sccs, core, fam = recursive_drop_types(cg)
    core_types = sorted(x[5:] for x in core)
    rep.info['types with recursive drop glue'] = core_types
    # only the tree node may be recursive by type
    bad = [t for t in core_types if 'splay::node::Node<' not in t]
    rep.ob(rule, 'only-Node-is-recursive-by-type', not bad,
           'drop glue of %s is recursive: dropping a long chain of these overflows the stack' % bad, reason='recursion')
    fam_types = set(x[5:] for x in fam)
    # (a) every other local type that owns nodes directly has a Drop impl that empties the field
    n_owner = 0
    for adt, a in f.adts.items():
        if adt.endswith('::Node'):
            continue
        for var in a['variants']:
            for fl in var['fields']:
                if not re.search(r'(Option<Box<|UnsafeCell<Option<Box<|Box<)(splay::)?node::Node<|(Option<std::boxed::Box<|std::boxed::Box<)splay::node::Node<', fl['ty']):
                    continue
                n_owner += 1
                inst = '%s.%s' % (sym.short(adt), fl['name'])
                if not a['has_dtor']:
                    rep.ob(rule, 'owner-has-Drop:' + inst, False,
                           '%s owns tree nodes in field `%s` (%s) but has no Drop impl: dropping it runs the recursive drop glue of Node '
                           'over the whole tree' % (adt, fl['name'], fl['ty']), reason='recursion')
                    continue
                rep.ob(rule, 'owner-has-Drop:' + inst, True)
                dtor = [n for n, b in f.bodies.items() if (b.j.get('impl') or {}).get('trait') == 'std::ops::Drop'
                        and (b.j['impl']['self_ty'].split('<')[0] == adt)]
                for d in dtor:
                    check_dtor_empties(ctx, rep, rule, d, fl['name'], inst)
    rep.floor(rule, 'node-owning fields outside Node', n_owner, 2)
    # (b) every drop of a node-owning raw type in reachable code happens on a childless / empty value
    ledger = []
    n_sites = 0
    n_proved = 0
    for name in sorted(n for n in reach if n in f.bodies):
        b = f.bodies[name]
        if not any(t['k'] == 'drop' and NODE_OWNING.match(t['ty']) or
                   (t['k'] == 'drop' and t['ty'].startswith('std::vec::Vec<std::boxed::Box<splay::node::Node<'))
                   for _, t in all_terms(b)):
            continue
        try:
            bb, ps = ctx.paths(name)
        except sym.CannotAnalyse as e:
            rep.ob(rule, 'analysable:%s' % sym.short(name), False, 'cannot analyse %s: %s' % (name, e), reason='cannot-tabulate')
            continue
        rep.paths_enumerated += len(ps)
        sites = {}
        for p in ps:
            for i, e in enumerate(p.events):
                if e['k'] != 'drop' or e.get('depth', 0) != 0 or not e.get('needs_drop', True):
                    continue
                ty = e['ty']
                vec = ty.startswith('std::vec::Vec<std::boxed::Box<splay::node::Node<')
                if not (NODE_OWNING.match(ty) or vec):
                    continue
                ok, why = shallow(p, i, e, ty)
                key = (e['bb'], place_name(bb, e))
                cur = sites.setdefault(key, {'ok': True, 'why': set(), 'line': e['line'], 'ty': ty, 'paths': 0})
                cur['paths'] += 1
                if not ok:
                    cur['ok'] = False
                    cur['why'].add(why)
        for (bbi, place), s in sorted(sites.items()):
            n_sites += 1
            inst = '%s:%s' % (sym.short(name), place)
            if s['ok']:
                n_proved += 1
                rep.ob(rule, 'drop-is-shallow:' + inst, True)
            elif inst in LEDGER:
                ledger.append({'site': inst, 'type': short_ty(s['ty']), 'argued': LEDGER[inst]})
                rep.ob(rule, 'drop-argued-vacant:' + inst, True)
            else:
                ledger.append({'site': inst, 'type': short_ty(s['ty']), 'why': sorted(s['why'])[:2], 'line': s['line']})
                rep.ob(rule, 'drop-is-shallow:' + inst, False,
                       'a value of type %s that may still own a subtree is dropped here (%s); the recursive drop glue of Node would '
                       'descend into it' % (short_ty(s['ty']), '; '.join(sorted(s['why'])[:2])), loc=bb.loc(s['line']), reason='recursion')
    rep.info['node drops'] = {'sites': n_sites, 'proved shallow on every path': n_proved}
    rep.floor(rule, 'node-owning drop sites', n_sites, 10)
    return ledger


def all_terms(b):
    rb = b.reachable_blocks()
    for i, bl in enumerate(b.blocks):
        if bl['cleanup'] or i not in rb:
            continue
        yield i, bl['term']


def short_ty(t):
    return re.sub(r'std::(option|boxed|vec|cell)::', '', t).replace('splay::node::', '')


def place_name(b, e):
    t = b.blocks[e['bb']]['term']
    import mirfmt
    return re.sub(r'_\d+', '_', mirfmt.place(b, t['place']))


def field_val(p, boxptr, field):
    """value of FIELD of the node a Box pointer denotes, in the final memory of the path *as of the drop* is not
    available; we use the events: the last store to that field before the drop"""
    return None


def shallow(p, idx, e, ty):
    """is the value dropped by event idx provably free of children?"""
    v = e['val']
    if ty.startswith('std::option::Option<') or ty.startswith('std::cell::UnsafeCell<'):
        if is_none(v):
            return True, ''
        for (cv, cc) in p.conds:
            x = strip_upd(cv)
            if x[0] == 'discr' and noepoch(strip_upd(x[1])) == noepoch(strip_upd(v)) and cc in (('eq', 0), ('notin', (1,))):
                # this path is taken only when the slot holds None, provided nothing wrote the slot since the test
                slot = e['loc']
                clean = True
                for ev in p.events[:idx]:
                    if ev['k'] == 'store' and noepoch(ev['loc']) == noepoch(slot):
                        clean = False
                    if ev['k'] == 'call' and not ev.get('pure') and not ev.get('inlined') and ev.get('depth', 0) == 0 \
                            and slot[0][0] == 'ext' and any(mentions_ptr(a, noepoch(slot[0][1])) for a in ev['args']):
                        clean = False
                if clean:
                    return True, ''
        return False, 'value %s is not known to be None' % show(noepoch(v))[:70]
    if ty.startswith('std::vec::Vec<'):
        # empty iff the last operation on this vector was a pop() that returned None
        loc = e['loc']
        last = None
        for ev in p.events[:idx]:
            if ev['k'] == 'call' and ev.get('depth', 0) == 0 and ev['args']:
                a0 = strip_upd(ev['args'][0])
                if a0[0] == 'ref' and a0[1] == loc:
                    last = ev
        if last is not None and last['callee'].endswith('::pop'):
            for (cv, cc) in p.conds:
                x = strip_upd(cv)
                if x[0] == 'discr' and noepoch(strip_upd(x[1])) == noepoch(strip_upd(last['ret'])) and cc in (('eq', 0), ('notin', (1,))):
                    return True, ''
        return False, 'work list not known to be empty'
    # Box<Node> or Node by value: both child fields must hold None at the time of the drop
    x = strip_upd(v)
    children = {}
    if v[0] == 'upd':
        for (pth, val) in v[2]:
            if len(pth) == 1 and pth[0][0] == 'f':
                children[pth[0][1]] = val
    if ty.startswith('std::boxed::Box<'):
        # stores through the box pointer before the drop
        for ev in p.events[:idx]:
            if ev['k'] == 'store' and ev['loc'][0][0] == 'ext' and noepoch(strip_upd(ev['loc'][0][1])) in (noepoch(x), ('boxptr', noepoch(x))) \
                    and len(ev['loc'][1]) == 1 and ev['loc'][1][0][0] == 'f':
                children[ev['loc'][1][0][1]] = ev['val']
            if ev['k'] == 'call' and not ev.get('pure') and not ev.get('inlined') and ev.get('depth', 0) == 0 \
                    and any(mentions_ptr(a, noepoch(x)) or mentions_ptr(a, ('boxptr', noepoch(x))) for a in ev['args']):
                children = {}      # an opaque call that is handed the node may have re-linked children
    missing = [c for c in ('left', 'right') if not (c in children and is_none(children[c]))]
    if not missing:
        return True, ''
    return False, 'child field(s) %s not known to be None' % ','.join(missing)


def mentions_ptr(v, x):
    """does the value tree v contain the pointer x other than underneath a load (deref)?"""
    stack = [noepoch(v)]
    while stack:
        y = stack.pop()
        if not isinstance(y, tuple) or not y:
            continue
        if y == x:
            return True
        if y[0] == 'deref':
            continue
        for z in y:
            if isinstance(z, tuple):
                stack.append(z)
    return False


def check_dtor_empties(ctx, rep, rule, dtor, field, inst):
    b, ps = rep.explore(ctx, dtor, rule)
    if b is None:
        return
    for p in ps:
        if p.end != 'return':
            continue
        # the field of *self must hold None at the end: look for the last store/move-model write reaching it
        ok = False
        for e in p.events:
            if e['k'] == 'store' and is_none(e['val']):
                base, pth = e['loc']
                s = show(noepoch(base[1])) if base[0] == 'ext' else ''
                if (pth and pth[-1] == ('f', field) and 'self' in s) or (not pth and ('self' in s and field in s)):
                    ok = True
        rep.ob(rule, 'Drop-empties:' + inst, ok,
               '%s does not leave `%s` empty on every path (the remaining subtree would be dropped recursively by the field drop)'
               % (dtor, field), loc=b.loc(b.j['line_lo']), reason='recursion')
        # and the taken tree must be handed to the iterative teardown, not dropped
        for e in p.events:
            if e['k'] == 'drop' and e.get('needs_drop') and NODE_OWNING.match(e['ty']) and not is_none(e['val']):
                rep.ob(rule, 'Drop-does-not-drop-subtree:' + inst, False,
                       '%s drops a %s that may own a subtree' % (dtor, short_ty(e['ty'])), loc=b.loc(e['line']), reason='recursion')


def check_events(ctx, rep, cg, rule='K-events'):
    """strong ownership from SweepEvent never returns to SweepEvent (the links are Weak)"""
    f = ctx.facts()
    starts = [n for n in cg.edges if n.startswith('drop:boolean::sweep_event::SweepEvent<')]
    rep.ob(rule, 'event-drop-glue-found', bool(starts), 'no drop glue node for SweepEvent found', reason='anchor-missing')
    for s in starts:
        r = cg.reachable([s]) - {s}
        back = [n for n in r if n.startswith('drop:boolean::sweep_event::SweepEvent<') or
                n.startswith('drop:std::rc::Rc<boolean::sweep_event::SweepEvent<')]
        rep.ob(rule, 'no-owning-link:%s' % short_ty(s[5:]), not back,
               'dropping an event drops another event through %s: a chain of events (sweep order / sweep line) would be torn down '
               'recursively and Rc cycles leak' % [short_ty(x[5:]) for x in back], reason='recursion')
