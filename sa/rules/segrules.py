"""Rules on segment_intersection.rs: G-clamp (every reported point is clamped to the common bounding box of the two
segments), I-ranges (parameter range tests, endpoint reuse, collinear overlap test), sibling symmetry of the box helper.
Used by C04 and C16."""
import re
import sym
from sym import show, noepoch, strip_upd, short
from facts import callee_name
from rules.common import CallGraph

INTER = 'boolean::segment_intersection::intersection'
IMPL = 'boolean::segment_intersection::intersection_impl'
CLAMP = 'boolean::segment_intersection::constrain_to_bounding_box'
BBOX = 'boolean::segment_intersection::get_intersection_bounding_box'


def pname(v):
    """dotted name of a parameter projection: p.x, bb.min.y, a1.x ..."""
    x = strip_upd(v)
    parts = []
    while x[0] == 'field':
        parts.append(str(x[2]))
        x = strip_upd(x[1])
    if x[0] == 'param':
        return '.'.join([x[2]] + parts[::-1])
    return None


def is_call(v, suffix):
    x = strip_upd(v)
    return x[0] in ('call', 'pcall') and x[1].endswith(suffix)


def check_clamp(ctx, rep, rule='G-clamp'):
    f = ctx.facts()
    b, ps = rep.explore(ctx, INTER, rule)
    if b is None:
        return
    n = 0
    for p in ps:
        if p.end != 'return':
            continue
        r = strip_upd(p.ret)
        if not (r[0] == 'agg' and r[5].endswith('LineIntersection')):
            rep.ob(rule, 'returns-LineIntersection', False, 'intersection() returns %s' % show(noepoch(r))[:80], loc=b.loc(b.j['line_lo']),
                   reason='cannot-tabulate')
            continue
        for i, payload in enumerate(r[4]):
            n += 1
            x = strip_upd(payload)
            ok = False
            why = show(noepoch(x))[:100]
            if is_call(x, 'constrain_to_bounding_box') and len(x[2]) == 2:
                pt, bb = strip_upd(x[2][0]), strip_upd(x[2][1])
                # point: payload i of intersection_impl(a1,a2,b1,b2); box: payload of get_intersection_bounding_box(a1,a2,b1,b2)
                def src(v, fn):
                    for y in sym.walk(v):
                        if y[0] in ('call', 'pcall') and y[1].endswith(fn):
                            return [pname(a) for a in y[2]]
                    return None
                a_pt = src(pt, 'intersection_impl')
                a_bb = src(bb, 'get_intersection_bounding_box')
                same_variant = pt[0] == 'field' and str(pt[2]) == str(i) and strip_upd(pt[1])[0] == 'variant' and strip_upd(pt[1])[2] == r[2]
                ok = a_pt == ['a1', 'a2', 'b1', 'b2'] and a_bb == ['a1', 'a2', 'b1', 'b2'] and same_variant
                why = 'point from intersection_impl%s payload %s.%s, box from get_intersection_bounding_box%s' % (a_pt, strip_upd(pt[1])[2] if pt[0] == 'field' and strip_upd(pt[1])[0] == 'variant' else '?', pt[2] if pt[0] == 'field' else '?', a_bb)
            rep.ob(rule, '%s.%d-clamped' % (r[2], i), ok,
                   'payload %d of LineIntersection::%s must be constrain_to_bounding_box(<same payload of intersection_impl(a1,a2,b1,b2)>, '
                   '<box of the same four points>); found %s' % (i, r[2], why), loc=b.loc(b.j['line_lo']), reason='provenance')
    rep.floor(rule, 'returned payloads', n, 3)
    # intersection_impl is private to intersection()
    cg = CallGraph(f)
    callers = sorted(n2 for n2, succ in cg.edges.items() if IMPL in succ and n2 in f.bodies)
    rep.ob(rule, 'unclamped-routine-has-one-caller', callers == [INTER],
           'intersection_impl (unclamped) is called from %s; only intersection() may call it' % callers, reason='inventory')
    # the clamp itself
    bc, pc = rep.explore(ctx, CLAMP, rule)
    if bc is None:
        return
    rows = 0
    for p in pc:
        if p.end != 'return':
            continue
        r = strip_upd(p.ret)
        d = dict(zip(r[3], r[4])) if r[0] == 'agg' else {}
        state = {'x': {}, 'y': {}}
        bad = None
        for (v, c) in p.conds:
            x = strip_upd(v)
            if x[0] != 'op' or len(x) != 4:
                bad = show(noepoch(x))[:60]
                continue
            a, bb_ = pname(x[2]), pname(x[3])
            op = x[1]
            if op == 'gt' and a and bb_:
                a, bb_, op = bb_, a, 'lt'          # a > b  ==  b < a
            if op != 'lt' or not a or not bb_:
                bad = show(noepoch(x))[:60]
                continue
            m1 = re.match(r'^p\.(x|y)$', a)
            m2 = re.match(r'^bb\.(min|max)\.(x|y)$', bb_)
            m3 = re.match(r'^bb\.(min|max)\.(x|y)$', a)
            m4 = re.match(r'^p\.(x|y)$', bb_)
            if m1 and m2 and m1.group(1) == m2.group(2) and m2.group(1) == 'min':
                state[m1.group(1)]['below'] = c[1]          # p.a < bb.min.a
            elif m3 and m4 and m3.group(2) == m4.group(1) and m3.group(1) == 'max':
                state[m4.group(1)]['above'] = c[1]          # bb.max.a < p.a
            else:
                bad = '%s < %s' % (a, bb_)
        if bad:
            rep.ob(rule, 'clamp-condition-modelled', False, 'constrain_to_bounding_box compares %s (expected p.a < bb.min.a / p.a > bb.max.a per axis)' % bad,
                   loc=bc.loc(bc.j['line_lo']), reason='cannot-tabulate')
            continue
        for axis in ('x', 'y'):
            s = state[axis]
            if s.get('below') is True:
                exp = 'bb.min.%s' % axis
            elif s.get('below') is False and s.get('above') is True:
                exp = 'bb.max.%s' % axis
            elif s.get('below') is False and s.get('above') is False:
                exp = 'p.%s' % axis
            else:
                exp = '?'
            got = pname(d.get(axis, ('c', 0)))
            rows += 1
            rep.ob(rule, 'clamp.%s:below=%s,above=%s' % (axis, s.get('below'), s.get('above')), got == exp,
                   'constrain_to_bounding_box returns %s for %s with (p below min: %s, p above max: %s); expected %s'
                   % (got, axis, s.get('below'), s.get('above'), exp), loc=bc.loc(bc.j['line_lo']), reason='table-row', expected=exp, found=got)
    rep.rows_compared += rows
    rep.floor(rule, 'clamp rows', rows, 12)


def check_ranges(ctx, rep, rule='I-ranges'):
    """shape of intersection_impl: mirrored parameter range tests, endpoint reuse, collinear overlap test"""
    b, ps = rep.explore(ctx, IMPL, rule, opaque=('boolean::segment_intersection::cross_product',
                                                 'boolean::segment_intersection::dot_product',
                                                 'boolean::segment_intersection::mid_point'))
    if b is None:
        return
    # name the scalar parameters by the computation that produced them
    def scalar(v):
        x = strip_upd(v)
        if x[0] in ('pcall', 'call'):
            n = short(x[1]).split('::')[-1]
            if n in ('zero', 'one'):
                return n
            if n in ('div', 'mul', 'add', 'sub', 'min', 'max'):
                return '%s(%s)' % (n, ','.join(scalar(a) for a in x[2]))
            if n in ('cross_product', 'dot_product'):
                return '%s(%s)' % (n[:-8], ','.join(vec(a) for a in x[2]))
            return n
        nm = pname(x)
        return nm or show(noepoch(x))[:30]

    def vec(v):
        x = strip_upd(v)
        if x[0] == 'agg' and x[5].endswith('Coord'):
            xs = scalar(x[4][0])
            m = re.match(r'^sub\((\w+)\.x,(\w+)\.x\)$', xs)
            ys = scalar(x[4][1])
            m2 = re.match(r'^sub\((\w+)\.y,(\w+)\.y\)$', ys)
            if m and m2 and m.groups() == m2.groups():
                return '%s-%s' % m.groups()
            return 'Coord(%s,%s)' % (xs, ys)
        return pname(x) or '?'

    S = 'div(cross(b1-a1,b2-b1),cross(a2-a1,b2-b1))'
    T = 'div(cross(b1-a1,a2-a1),cross(a2-a1,b2-b1))'
    cases = {}
    for p in ps:
        if p.end != 'return':
            continue
        conds = []
        for (v, c) in p.conds:
            x = strip_upd(v)
            if x[0] == 'op' and len(x) == 4:
                conds.append((x[1], scalar(x[2]), scalar(x[3]), c[1]))
            else:
                conds.append(('?', show(noepoch(x))[:40], '', c[1]))
        r = strip_upd(p.ret)
        kind = r[2] if r[0] == 'agg' else '?'
        pts = []
        for pl in (r[4] if r[0] == 'agg' else []):
            y = strip_upd(pl)
            if is_call(y, 'mid_point') and len(y[2]) == 3:
                pts.append((pname(y[2][0]), scalar(y[2][1]), vec(y[2][2])))
            else:
                pts.append(('?', show(noepoch(y))[:40], '?'))
        cases.setdefault((tuple(conds), kind, tuple(pts)), p)
    n = 0

    def find(pred):
        return [(c, k, pts) for (c, k, pts) in cases if pred(c, k, pts)]

    def has(conds, op, a, b_, val):
        return any(o == op and x == a and y == b_ and v == val for (o, x, y, v) in conds)

    # 1. parameter range tests are the mirrored pairs s<0 || s>1, t<0 || t>1 and lead to None
    for nm, expr in (('s', S), ('t', T)):
        for op, bound in (('lt', 'zero'), ('gt', 'one')):
            hits = find(lambda c, k, pts: has(c, op, expr, bound, True))
            n += 1
            rep.ob(rule, 'range:%s-%s-%s' % (nm, op, bound), bool(hits) and all(k == 'None' for (_, k, _) in hits),
                   'the test %s %s %s must exist and reject the crossing (found %d paths, kinds %s)'
                   % (nm, '<' if op == 'lt' else '>', '0' if bound == 'zero' else '1', len(hits), sorted(set(k for _, k, _ in hits))),
                   loc=b.loc(b.j['line_lo']), reason='table-row')
    # 2. exact endpoint parameters reuse the endpoint's own segment
    for nm, expr, base, d in (('s', S, 'a1', 'a2-a1'), ('t', T, 'b1', 'b2-b1')):
        for bound in ('zero', 'one'):
            hits = find(lambda c, k, pts: has(c, 'eq', expr, bound, True) and k == 'Point' and
                        not (nm == 't' and (has(c, 'eq', S, 'zero', True) or has(c, 'eq', S, 'one', True))))
            n += 1
            ok = bool(hits) and all(pts == ((base, expr, d),) for (_, _, pts) in hits)
            rep.ob(rule, 'endpoint:%s==%s' % (nm, '0' if bound == 'zero' else '1'), ok,
                   'when %s == %s the point must be computed on the segment %s belongs to (%s + %s*(%s)); found %s'
                   % (nm, bound, nm, base, nm, d, sorted(set(pts for (_, _, pts) in hits))[:2]), loc=b.loc(b.j['line_lo']), reason='table-row')
    # 3. general crossing: from a with parameter s
    hits = find(lambda c, k, pts: k == 'Point' and has(c, 'eq', S, 'zero', False) and has(c, 'eq', S, 'one', False)
                and has(c, 'eq', T, 'zero', False) and has(c, 'eq', T, 'one', False))
    n += 1
    rep.ob(rule, 'interior-crossing-point', bool(hits) and all(pts == (('a1', S, 'a2-a1'),) for (_, _, pts) in hits),
           'an interior crossing must be reported as a1 + s*(a2-a1); found %s' % sorted(set(pts for (_, _, pts) in hits))[:2],
           loc=b.loc(b.j['line_lo']), reason='table-row')
    # 4. collinear arm: overlap iff smin <= 1 && smax >= 0, point when smin == 1 or smax == 0, clipped to [0,1]
    ov = find(lambda c, k, pts: k == 'Overlap')
    n += 1
    ok = bool(ov)
    for (c, k, pts) in ov:
        smin = [x for (o, x, y, v) in c if o == 'le' and y == 'one' and v is True]
        smax = [x for (o, x, y, v) in c if o == 'ge' and y == 'zero' and v is True]
        ok = ok and len(smin) == 1 and len(smax) == 1 and smin[0].startswith('min(') and smax[0].startswith('max(')
        if ok:
            ok = pts == (('a1', 'max(%s,zero)' % smin[0], 'a2-a1'), ('a1', 'min(%s,one)' % smax[0], 'a2-a1'))
            ok = ok and has(c, 'eq', smin[0], 'one', False) and has(c, 'eq', smax[0], 'zero', False)
    rep.ob(rule, 'collinear-overlap', ok,
           'collinear segments must overlap iff smin <= 1 && smax >= 0 (not merely touching), reported as a1 + clamp(smin,smax)*(a2-a1); '
           'found %s' % [(pts, [x for x in c if x[0] in ('le', 'ge', 'lt', 'gt')][-2:]) for (c, k, pts) in ov][:1], loc=b.loc(b.j['line_lo']), reason='table-row')
    rep.rows_compared += n
    rep.floor(rule, 'distinct return cases of intersection_impl', len(cases), 12)


def check_bbox_symmetry(ctx, rep, rule='I-ranges'):
    """get_intersection_bounding_box treats its two segments alike and yields min=max(starts), max=min(ends) per axis"""
    b, ps = rep.explore(ctx, BBOX, rule)
    if b is None:
        return
    sigs = set()
    for p in ps:
        if p.end != 'return':
            continue
        r = strip_upd(p.ret)
        if r[0] == 'agg' and r[2] == 'Some':
            bb = strip_upd(r[4][0])
            d = dict(zip(bb[3], bb[4]))
            for corner, fn in (('min', 'max'), ('max', 'min')):
                c = strip_upd(d[corner])
                for i, axis in enumerate(('x', 'y')):
                    y = strip_upd(c[4][i])
                    ok = y[0] in ('pcall', 'call') and y[1].endswith('Float::' + fn) and len(y[2]) == 2
                    names = sorted(pname(a) or '?' for a in y[2]) if ok else []
                    ok = ok and len(names) == 2 and names[0][0] == 'a' and names[1][0] == 'b' and all(nm.endswith('.' + axis) for nm in names)
                    sigs.add((corner, axis, ok))
    bad = sorted((c, a) for (c, a, ok) in sigs if not ok)
    rep.ob(rule, 'bbox:min=max-of-starts,max=min-of-ends', bool(sigs) and not bad,
           'get_intersection_bounding_box must intersect the two segments\' boxes per axis (one coordinate of a and one of b in each '
           'min/max); wrong for %s' % bad, loc=b.loc(b.j['line_lo']), reason='table-row')


def check_algebra(ctx, rep, rule='I-algebra'):
    """The points intersection_impl reports, as exact rational functions of the eight input coordinates (helpers inlined):
    crossing arm: the point equals the intersection X of the two carrier lines; collinear arm (b1 = a1 + L*va,
    b2 = a1 + M*va substituted): every point the min/max clamp can select is an endpoint of one of the segments, and
    both b-endpoints are selectable."""
    from rules import ratfun
    from rules.ratfun import var, const, NotRational
    b, ps = rep.explore(ctx, IMPL, rule)
    if b is None:
        return
    A1, A2, B1, B2 = [(var('%s.x' % n), var('%s.y' % n)) for n in ('a1', 'a2', 'b1', 'b2')]
    va = (A2[0] - A1[0], A2[1] - A1[1])
    vb = (B2[0] - B1[0], B2[1] - B1[1])
    e = (B1[0] - A1[0], B1[1] - A1[1])
    cross = lambda p, q: p[0] * q[1] - p[1] * q[0]
    kross = cross(va, vb)
    s = cross(e, vb) / kross
    X = (A1[0] + s * va[0], A1[1] + s * va[1])
    col = cross(e, va)
    L, M = ratfun.pvar('L'), ratfun.pvar('M')
    dx = ratfun.padd(ratfun.pvar('a2.x'), ratfun.pvar('a1.x'), -1)
    dy = ratfun.padd(ratfun.pvar('a2.y'), ratfun.pvar('a1.y'), -1)
    env = {'b1.x': ratfun.padd(ratfun.pvar('a1.x'), ratfun.pmul(L, dx)), 'b1.y': ratfun.padd(ratfun.pvar('a1.y'), ratfun.pmul(L, dy)),
           'b2.x': ratfun.padd(ratfun.pvar('a1.x'), ratfun.pmul(M, dx)), 'b2.y': ratfun.padd(ratfun.pvar('a1.y'), ratfun.pmul(M, dy))}
    ends = {'a1': A1, 'a2': A2, 'b1': (B1[0].subst(env), B1[1].subst(env)), 'b2': (B2[0].subst(env), B2[1].subst(env))}
    n_cross = n_col = 0
    seen = set()
    selectable = set()
    for p in ps:
        if p.end != 'return':
            continue
        r = strip_upd(p.ret)
        if r[0] != 'agg' or r[2] not in ('Point', 'Overlap'):
            continue
        # which arm: the truth of the tests "kross (or its square) is non-zero" / "cross(e, va) (or its square) is non-zero"
        arm = None
        collinear_tested = False
        try:
            for (v, c) in p.conds:
                x = strip_upd(v)
                if x[0] != 'op' or len(x) != 4 or x[1] not in ('gt', 'ne', 'eq', 'lt'):
                    continue
                try:
                    lhs, rhs = ratfun.single(x[2]), ratfun.single(x[3])
                except NotRational:
                    continue
                other = lhs if rhs.is_zero() else rhs if lhs.is_zero() else None
                if other is None:
                    continue
                nonzero = c[1] if x[1] in ('gt', 'ne', 'lt') else (not c[1])
                if other.proportional(kross) or other.proportional(kross * kross):
                    if x[1] in ('gt', 'lt') and other.proportional(kross) and not other.proportional(kross * kross):
                        continue        # a sign test of kross is not a non-zero test
                    arm = 'crossing' if nonzero else (arm or 'parallel')
                elif other.proportional(col) or other.proportional(col * col):
                    if not nonzero:
                        collinear_tested = True
            pts = [strip_upd(q) for q in r[4]]
            coords = []
            for q in pts:
                if q[0] != 'agg' or len(q[4]) != 2:
                    raise NotRational('reported point is not a coordinate pair: %s' % show(noepoch(q))[:60])
                coords.append((ratfun.alternatives(q[4][0]), ratfun.alternatives(q[4][1])))
        except NotRational as ex:
            rep.ob(rule, 'rational:%s' % r[2], False, 'a point reported by intersection_impl is not a rational function of the inputs: %s' % ex,
                   loc=b.loc(b.j['line_lo']), reason='cannot-tabulate')
            continue
        if arm == 'crossing':
            n_cross += 1
            ok = r[2] == 'Point' and len(coords) == 1 and len(coords[0][0]) == 1 and len(coords[0][1]) == 1 \
                and coords[0][0][0].same(X[0]) and coords[0][1][0].same(X[1])
            key = ('crossing', ok)
            if key not in seen:
                seen.add(key)
                rep.ob(rule, 'crossing-point-is-the-line-intersection', ok,
                       'on a path where the carrier lines are not parallel the reported point must equal, as a rational function of the '
                       'inputs, a1 + ((b1-a1)x(b2-b1) / (a2-a1)x(b2-b1)) * (a2-a1); it does not (%s)' % show(noepoch(r))[:160],
                       loc=b.loc(b.j['line_lo']), reason='table-row')
        else:
            n_col += 1
            ok = collinear_tested and arm == 'parallel'
            bad = []
            for i, (xs, ys) in enumerate(coords):
                if len(xs) != len(ys):
                    ok = False
                    continue
                for ax, ay in zip(xs, ys):
                    sx, sy = ax.subst(env), ay.subst(env)
                    hit = [nm for nm, (ex_, ey_) in ends.items() if sx.same(ex_) and sy.same(ey_)]
                    if not hit:
                        ok = False
                        bad.append(i)
                    else:
                        selectable.update(hit)
            key = ('collinear', r[2], ok)
            if key not in seen:
                seen.add(key)
                rep.ob(rule, 'collinear-%s-points-are-segment-endpoints' % r[2].lower(), ok,
                       'in the collinear arm (reached only after both cross products tested zero: parallel=%s collinear=%s) every point the '
                       'clamp can select must be an endpoint of one of the two segments when b1 = a1 + L*(a2-a1), b2 = a1 + M*(a2-a1); '
                       'points %s are not' % (arm == 'parallel', collinear_tested, sorted(set(bad))), loc=b.loc(b.j['line_lo']), reason='table-row')
    rep.ob(rule, 'collinear-arm-can-report-both-b-endpoints', n_col == 0 or {'b1', 'b2'} <= selectable,
           'the overlap of collinear segments must be able to start / end at either endpoint of b; selectable endpoints: %s' % sorted(selectable),
           loc=b.loc(b.j['line_lo']), reason='table-row')
    rep.floor(rule, 'crossing-arm point returns', n_cross, 5)
    rep.floor(rule, 'collinear-arm point returns', n_col, 3)
    rep.rows_compared += n_cross + n_col
