"""Rules on segment_intersection.rs: G-clamp (every reported point is clamped to the common bounding box of the two
segments), I-ranges (parameter range tests, endpoint reuse, collinear overlap test), sibling symmetry of the box helper.
Used by C04 and C16."""
import re
import sym
from sym import show, noepoch, strip_upd, short
from facts import callee_name
from rules.common import CallGraph

INTER = 'boolean::segment_intersection::intersection'
IMPL = 'boolean::segment_intersection::intersection_impl'
CLAMP = 'boolean::segment_intersection::constrain_to_bounding_box'
BBOX = 'boolean::segment_intersection::get_intersection_bounding_box'


def pname(v):
    """dotted name of a parameter projection: p.x, bb.min.y, a1.x ..."""
    x = strip_upd(v)
    parts = []
    while x[0] in ('field', 'deref', 'refval'):
        if x[0] == 'field':
            parts.append(str(x[2]))
        x = strip_upd(x[1])
    if x[0] == 'param':
        return '.'.join([x[2]] + parts[::-1])
    return None


def is_call(v, suffix):
    x = strip_upd(v)
    return x[0] in ('call', 'pcall') and x[1].endswith(suffix)


def clamped_points(ctx, rep, rule):
    """(body, [(path, variant, [(raw point value, clamped?, box ok?)])]) for the return paths of intersection() with
    intersection_impl expanded into it, so that it does not matter in which of the two the clamp is applied"""
    b, ps = rep.explore(ctx, INTER, rule, expand=(IMPL,))
    if b is None:
        return None, []
    out = []
    for p in ps:
        if p.end != 'return':
            continue
        r = strip_upd(p.ret)
        if not (r[0] == 'agg' and r[5].endswith('LineIntersection')):
            rep.ob(rule, 'returns-LineIntersection', False, 'intersection() returns %s' % show(noepoch(r))[:80], loc=b.loc(b.j['line_lo']),
                   reason='cannot-tabulate')
            continue
        pts = []
        for payload in r[4]:
            x = strip_upd(payload)
            if is_call(x, 'constrain_to_bounding_box') and len(x[2]) == 2:
                raw, bb = x[2][0], strip_upd(x[2][1])
                for _ in range(4):
                    # the box may be handed on by reference to a local that holds it
                    if bb[0] == 'ref' and bb[1][0][0] == 'loc' and bb[1] in p.final.mem:
                        bb = strip_upd(p.final.mem[bb[1]])
                    elif bb[0] in ('refval',):
                        bb = strip_upd(bb[1])
                    else:
                        break
                src = None
                for y in sym.walk(bb):
                    if y[0] in ('call', 'pcall') and y[1].endswith('get_intersection_bounding_box'):
                        src = [pname(a) for a in y[2]]
                # the box must be the payload of the Option returned for the same four points (not a part or a copy with changes)
                whole = bb[0] == 'field' and str(bb[2]) == '0' and strip_upd(bb[1])[0] == 'variant' and strip_upd(bb[1])[2] == 'Some' \
                    and strip_upd(strip_upd(bb[1])[1])[0] in ('call', 'pcall')
                grouped = src is not None and len(src) == 4 and None not in src and \
                    {frozenset(src[:2]), frozenset(src[2:])} == {frozenset(('a1', 'a2')), frozenset(('b1', 'b2'))}
                # the routine is symmetric in the end points and in the segments when I-ranges/bbox holds (checked where this is used)
                pts.append((raw, True, grouped and whole))
            else:
                pts.append((payload, False, False))
        out.append((p, r[2], pts))
    return b, out


def _num(v, env):
    """concrete value of an expression over named parameter projections (comparisons, min / max / clamp)"""
    x = strip_upd(v)
    n_ = pname(x)
    if n_ in env:
        return env[n_]
    if sym.is_const(x):
        return x[1]
    if x[0] == 'op' and x[1] == 'not':
        return not _num(x[2], env)
    if x[0] == 'op' and len(x) == 4 and x[1] in ('lt', 'gt', 'le', 'ge', 'eq', 'ne'):
        l_, r_ = _num(x[2], env), _num(x[3], env)
        return {'lt': l_ < r_, 'gt': l_ > r_, 'le': l_ <= r_, 'ge': l_ >= r_, 'eq': l_ == r_, 'ne': l_ != r_}[x[1]]
    if x[0] in ('call', 'pcall') and re.search(r'Float::(min|max)$|::f(32|64)::<impl f(32|64)>::(min|max)$', x[1]) and len(x[2]) == 2:
        l_, r_ = _num(x[2][0], env), _num(x[2][1], env)
        return min(l_, r_) if x[1].endswith('min') else max(l_, r_)
    if x[0] in ('call', 'pcall') and re.search(r'::clamp$', x[1]) and len(x[2]) == 3:
        v_, lo_, hi_ = (_num(q, env) for q in x[2])
        return min(max(v_, lo_), hi_)
    raise ValueError(show(noepoch(x))[:60])



def check_clamp(ctx, rep, rule='G-clamp'):
    f = ctx.facts()
    b, rows = clamped_points(ctx, rep, rule)
    if b is None:
        return
    n = 0
    for (p, variant, pts) in rows:
        for i, (raw, clamped, box_ok) in enumerate(pts):
            n += 1
            rep.ob(rule, '%s.%d-clamped' % (variant, i), clamped and box_ok,
                   'payload %d of LineIntersection::%s must be constrain_to_bounding_box(<computed point>, <common box of the same four '
                   'points>); found %s (clamped: %s, box of a1,a2,b1,b2: %s)' % (i, variant, show(noepoch(raw))[:90], clamped, box_ok),
                   loc=b.loc(b.j['line_lo']), reason='provenance')
    rep.floor(rule, 'returned payloads', n, 8)
    # the box is accepted for any arrangement of the same two segments: the routine that computes it must be that symmetric
    check_bbox_symmetry(ctx, rep, rule=rule)
    # intersection_impl is private to intersection()
    cg = CallGraph(f)
    callers = sorted(n2 for n2, succ in cg.edges.items() if IMPL in succ and n2 in f.bodies)
    rep.ob(rule, 'unclamped-routine-has-one-caller', callers == [INTER],
           'intersection_impl (unclamped) is called from %s; only intersection() may call it' % callers, reason='inventory')
    # the clamp itself: evaluated on concrete positions of p relative to the box (below, on min, inside, on max, above; also a
    # degenerate box), per axis; every comparison form (<, <=, >, >=, min/max/clamp calls) is the same to this
    bc, pc = rep.explore(ctx, CLAMP, rule)
    if bc is None:
        return
    rows = 0

    num = _num

    boxes = [((1, 3), (0, 1, 2, 3, 4)), ((2, 2), (1, 2, 3))]
    bad_rows = []
    try:
        for (xbox, xs) in boxes:
            for (ybox, ys) in boxes:
                for px in xs:
                    for py in ys:
                        env = {'p.x': px, 'p.y': py, 'bb.min.x': xbox[0], 'bb.max.x': xbox[1], 'bb.min.y': ybox[0], 'bb.max.y': ybox[1]}
                        hits = 0
                        for p in pc:
                            if p.end != 'return':
                                continue
                            if not all((bool(num(v, env)) == bool(c[1])) if c[0] == 'eq' else (num(v, env) not in c[1]) for (v, c) in p.conds):
                                continue
                            hits += 1
                            r = strip_upd(p.ret)
                            d = dict(zip(r[3], r[4])) if r[0] == 'agg' else {}
                            got = tuple(num(d[ax], env) if ax in d else None for ax in ('x', 'y'))
                            exp = (min(max(px, xbox[0]), xbox[1]), min(max(py, ybox[0]), ybox[1]))
                            rows += 1
                            if got != exp:
                                bad_rows.append((env, got, exp))
                        if hits == 0:
                            bad_rows.append((env, 'no path', None))
    except (ValueError, KeyError, TypeError) as e:
        rep.ob(rule, 'clamp-condition-modelled', False, 'constrain_to_bounding_box cannot be evaluated on concrete positions: %s' % e,
               loc=bc.loc(bc.j['line_lo']), reason='cannot-tabulate')
        return
    for (env, got, exp) in bad_rows[:4]:
        rep.ob(rule, 'clamp:p=(%s,%s),box=[%s,%s]x[%s,%s]' % (env['p.x'], env['p.y'], env['bb.min.x'], env['bb.max.x'], env['bb.min.y'], env['bb.max.y']),
               False, 'constrain_to_bounding_box returns %s for p=(%s,%s) and the box [%s,%s]x[%s,%s]; expected %s'
               % (got, env['p.x'], env['p.y'], env['bb.min.x'], env['bb.max.x'], env['bb.min.y'], env['bb.max.y'], exp),
               loc=bc.loc(bc.j['line_lo']), reason='table-row', expected=str(exp), found=str(got))
    rep.ob(rule, 'clamp-is-the-nearest-point-of-the-box', not bad_rows, '%d of %d evaluated positions are not clamped to the box' % (len(bad_rows), rows),
           loc=bc.loc(bc.j['line_lo']), reason='table-row')
    rep.rows_compared += rows
    rep.floor(rule, 'clamp rows', rows, 12)


def _float_simplify(v):
    """exact floating-point identities only: 0*x = 0, 1*x = x, x+0 = x, x-0 = x (finite x)"""
    from rules.degreerules import callee_kind
    x = strip_upd(v)
    if x[0] in ('pcall', 'call'):
        kind = callee_kind(x[1])
        if kind in ('add', 'sub', 'mul') and len(x[2]) == 2:
            a, b = _float_simplify(x[2][0]), _float_simplify(x[2][1])
            za, zb = a == ('k', 0), b == ('k', 0)
            oa, ob = a == ('k', 1), b == ('k', 1)
            if kind == 'mul':
                if za or zb:
                    return ('k', 0)
                if oa:
                    return b
                if ob:
                    return a
                return ('mul', a, b)
            if kind == 'add':
                if za:
                    return b
                if zb:
                    return a
                return ('add', a, b)
            if zb:
                return a
            return ('sub', a, b)
        if kind == 'poly' and x[1].endswith('Zero::zero'):
            return ('k', 0)
        if kind == 'one':
            return ('k', 1)
    if x[0] == 'k':
        return x
    nm = pname(x)
    if nm:
        return ('v', nm)
    if x[0] == 'field' and x[2] in ('x', 'y'):
        inner = strip_upd(x[1])
        if inner[0] == 'agg' and x[2] in inner[3]:
            return _float_simplify(inner[4][inner[3].index(x[2])])
        # geo-types Coord arithmetic is component-wise (trusted): (a2 - a1).x is a2.x - a1.x, the same floating-point operation
        if inner[0] in ('pcall', 'call') and re.search(r'geo_types::Coord<T> as std::ops::(Add|Sub)>::(add|sub)$', inner[1]) and len(inner[2]) == 2:
            a, b = _float_simplify(('field', inner[2][0], x[2])), _float_simplify(('field', inner[2][1], x[2]))
            return ('sub' if inner[1].endswith('sub') else 'add', a, b)
    return ('?', show(noepoch(x))[:40])


def _subst_rat(v, target, const):
    """replace every sub-term that is (as a rational function) the parameter `target` by the constant 0 / 1"""
    from rules import ratfun
    x = strip_upd(v)
    if x[0] in ('pcall', 'call'):
        try:
            alts = ratfun.alternatives(x)
            if len(alts) == 1 and alts[0].same(target):
                return ('k', const)
        except ratfun.NotRational:
            pass
        return (x[0], x[1], tuple(_subst_rat(a, target, const) for a in x[2]), x[3] if len(x) > 3 else 0)
    if x[0] == 'field' and x[2] in ('x', 'y'):
        inner = strip_upd(x[1])
        if inner[0] == 'agg' and x[2] in inner[3]:
            return _subst_rat(inner[4][inner[3].index(x[2])], target, const)
    return x


def check_ranges(ctx, rep, rule='I-ranges'):
    """parameter range tests and endpoint reuse of the crossing arm, read from intersection() with intersection_impl expanded;
    s and t are recognised as rational functions of the inputs (not by the names of the helpers that compute them):
    s < 0, s > 1, t < 0, t > 1 each lead to None; when s (resp. t, with s strictly inside) is exactly 0 or 1 the reported
    point is the floating-point expression p + s*d of the segment that parameter belongs to, so that s == 0 reproduces the end
    point bit for bit; collinear arm: overlap iff smin <= 1 && smax >= 0, a single point when smin == 1 or smax == 0."""
    from rules import ratfun
    from rules.ratfun import var, NotRational
    b, rows_ = clamped_points(ctx, rep, None)
    if b is None:
        return
    A1, A2, B1, B2 = [(var('%s.x' % n), var('%s.y' % n)) for n in ('a1', 'a2', 'b1', 'b2')]
    va = (A2[0] - A1[0], A2[1] - A1[1])
    vb = (B2[0] - B1[0], B2[1] - B1[1])
    e = (B1[0] - A1[0], B1[1] - A1[1])
    cross = lambda p_, q_: p_[0] * q_[1] - p_[1] * q_[0]
    dot = lambda p_, q_: p_[0] * q_[0] + p_[1] * q_[1]
    kross = cross(va, vb)
    S, T = cross(e, vb) / kross, cross(e, va) / kross
    SA = dot(va, e) / dot(va, va)
    SB = SA + dot(va, vb) / dot(va, va)

    _names = {}

    def scalar_name(v):
        k_ = noepoch(strip_upd(v))
        if k_ not in _names:
            _names[k_] = scalar_name0(v)
        return _names[k_]

    def scalar_name0(v):
        x = strip_upd(v)
        try:
            alts = ratfun.alternatives(x)
        except NotRational:
            return None
        if len(alts) == 1:
            r = alts[0]
            for nm, ref in (('s', S), ('t', T), ('sa', SA), ('sb', SB)):
                if r.same(ref):
                    return nm
            if r.is_zero():
                return 'zero'
            if r.same(ratfun.const(1)):
                return 'one'
            return None
        if len(alts) == 2 and {True} == {any(a.same(ref) for a in alts) for ref in (SA, SB)}:
            k = x[1].split('::')[-1] if x[0] in ('pcall', 'call') else '?'
            return 'smin' if k == 'min' else ('smax' if k == 'max' else None)
        return None

    cases = []
    for (p, variant, pts) in rows_:
        conds = []
        for (v, c) in p.conds:
            x = strip_upd(v)
            if x[0] == 'op' and len(x) == 4 and x[1] in ('lt', 'gt', 'le', 'ge', 'eq', 'ne'):
                a, b_ = scalar_name(x[2]), scalar_name(x[3])
                if a and b_:
                    conds.append((x[1], a, b_, bool(c[1])))
        cases.append((conds, variant, [raw for (raw, _, _) in pts], p))

    def has(conds, op, a, b_, val):
        flip = {'lt': 'gt', 'gt': 'lt', 'le': 'ge', 'ge': 'le', 'eq': 'eq', 'ne': 'ne'}
        neg = {'lt': 'ge', 'gt': 'le', 'le': 'gt', 'ge': 'lt', 'eq': 'ne', 'ne': 'eq'}
        for (o, x, y, v) in conds:
            for (o2, x2, y2) in ((o, x, y), (flip[o], y, x)):
                if (o2, x2, y2, v) == (op, a, b_, val) or (neg[o2], x2, y2, not v) == (op, a, b_, val):
                    return True
        return False

    n = 0
    # 1. range tests lead to None
    for nm in ('s', 't'):
        for op, bound in (('lt', 'zero'), ('gt', 'one')):
            hits = [(c, k) for (c, k, _, _) in cases if has(c, op, nm, bound, True)]
            n += 1
            rep.ob(rule, 'range:%s-%s-%s' % (nm, op, bound), bool(hits) and all(k == 'None' for (_, k) in hits),
                   'the test %s %s %s must exist and reject the crossing (found %d paths, kinds %s)'
                   % (nm, '<' if op == 'lt' else '>', '0' if bound == 'zero' else '1', len(hits), sorted(set(k for _, k in hits))),
                   loc=b.loc(b.j['line_lo']), reason='table-row')
    # 2. exact endpoint parameters: the point is p + param*d of the parameter's own segment (so that 0 reproduces p exactly)
    for nm, ref, base, other_end in (('s', S, 'a1', 'a2'), ('t', T, 'b1', 'b2')):
        for bound, const in (('zero', 0), ('one', 1)):
            hits = [(c, k, raws) for (c, k, raws, _) in cases if has(c, 'eq', nm, bound, True) and k == 'Point' and
                    not (nm == 't' and (has(c, 'eq', 's', 'zero', True) or has(c, 'eq', 's', 'one', True)))]
            ok = bool(hits)
            found = None
            for (c, k, raws) in hits:
                q = strip_upd(raws[0])
                if not (q[0] == 'agg' and len(q[4]) == 2):
                    ok = False
                    continue
                for axis, comp in zip(('x', 'y'), q[4]):
                    got = _float_simplify(_subst_rat(comp, ref, const))
                    p0 = ('v', '%s.%s' % (base, axis))
                    d0 = ('sub', ('v', '%s.%s' % (other_end, axis)), p0)
                    want = [p0] if const == 0 else [('add', p0, d0), ('add', d0, p0)]
                    found = got
                    ok = ok and got in want
            n += 1
            rep.ob(rule, 'endpoint:%s==%s' % (nm, const), ok,
                   'when %s == %s the point must be computed on the segment %s belongs to (%s + %s*(%s-%s)), so that the end point is '
                   'reproduced; with the parameter substituted the code computes %s' % (nm, const, nm, base, nm, other_end, base, found),
                   loc=b.loc(b.j['line_lo']), reason='table-row')
    # 3. collinear arm: overlap iff smin <= 1 && smax >= 0, single point when smin == 1 or smax == 0
    ov = [(c, k) for (c, k, _, _) in cases if k == 'Overlap']
    n += 1
    ok = bool(ov)
    for (c, k) in ov:
        ok = ok and has(c, 'le', 'smin', 'one', True) and has(c, 'ge', 'smax', 'zero', True) \
            and has(c, 'eq', 'smin', 'one', False) and has(c, 'eq', 'smax', 'zero', False)
    rep.ob(rule, 'collinear-overlap', ok,
           'collinear segments must be reported as an overlap iff smin <= 1 && smax >= 0 and neither smin == 1 nor smax == 0 (those '
           'touch in a single point); conditions found: %s' % [c for (c, k) in ov][:1], loc=b.loc(b.j['line_lo']), reason='table-row')
    # 4. classification: the crossing formula is used exactly when the determinant kross = va x vb is non-zero; with kross == 0 the
    #    segments are reported as non-intersecting when b1 is off the carrier line of a (e x va != 0) and go to the collinear
    #    logic otherwise.  A test is read by what it says about K != 0 (K*K > 0, K != 0, !(K*K <= 0), ... are the same thing).
    def nonzero_test(x, val, K):
        """True / False: the condition (with outcome val) says K != 0 / K == 0; 'bad': it compares a K-quantity in a way that is not
        that test; None: not about K"""
        if not (x[0] == 'op' and len(x) == 4 and x[1] in ('lt', 'gt', 'le', 'ge', 'eq', 'ne')):
            return None
        try:
            la, lb = ratfun.alternatives(strip_upd(x[2])), ratfun.alternatives(strip_upd(x[3]))
        except NotRational:
            return None
        if len(la) != 1 or len(lb) != 1:
            return None
        op = x[1]
        q, z = la[0], lb[0]
        if q.is_zero() and not z.is_zero():
            q, z, op = z, q, {'lt': 'gt', 'gt': 'lt', 'le': 'ge', 'ge': 'le', 'eq': 'eq', 'ne': 'ne'}[op]
        if not z.is_zero():
            return None
        if q.same(K * K):
            return {'gt': val, 'ne': val, 'eq': not val, 'le': not val}.get(op, 'bad')
        if q.same(K) or q.same(-K):
            return {'ne': val, 'eq': not val}.get(op, 'bad')
        return None

    K1, K2 = kross, cross(e, va)
    bad_cls = []
    n_cls = 0
    for (conds, variant, raws, p) in cases:
        k1 = k2 = None
        for (v, c) in p.conds:
            x = strip_upd(v)
            if c[0] != 'eq':
                continue
            for K, which in ((K1, 1), (K2, 2)):
                r = nonzero_test(x, bool(c[1]), K)
                if r == 'bad':
                    bad_cls.append('a comparison of %s that is not a test against zero: %s' % ('va x vb' if which == 1 else 'e x va', show(noepoch(x))[:70]))
                elif r is not None:
                    if which == 1:
                        k1 = r
                    else:
                        k2 = r
        uses_st = any(nm in ('s', 't') for (_, a_, b_, _) in conds for nm in (a_, b_))
        uses_sab = any(nm in ('sa', 'sb', 'smin', 'smax') for (_, a_, b_, _) in conds for nm in (a_, b_))
        n_cls += 1
        if variant in ('Point', 'Overlap') and k1 is None:
            bad_cls.append('a %s is reported without the determinant va x vb having been tested' % variant)
        if uses_st and k1 is not True:
            bad_cls.append('the crossing parameters s, t are used on a path that does not assume va x vb != 0')
        if k1 is True and variant == 'Overlap':
            bad_cls.append('an overlap is reported for non-parallel segments')
        if k1 is False and k2 is None and variant != 'None':
            bad_cls.append('parallel segments reach the collinear logic without e x va having been tested')
        if k1 is False and k2 is True and variant != 'None':
            bad_cls.append('parallel segments on different lines (e x va != 0) are reported as %s' % variant)
        if uses_sab and not (k1 is False and k2 is False):
            bad_cls.append('the collinear parameters are used on a path that does not assume va x vb == 0 and e x va == 0')
    n += 1
    rep.ob(rule, 'classification', not bad_cls and n_cls > 0,
           'crossing / parallel / collinear must be told apart by va x vb != 0 and e x va != 0: %s' % '; '.join(sorted(set(bad_cls))[:3]),
           loc=b.loc(b.j['line_lo']), reason='table-row')
    rep.rows_compared += n
    rep.floor(rule, 'return cases of intersection()', len(cases), 12)


def check_bbox_symmetry(ctx, rep, rule='I-ranges'):
    """get_intersection_bounding_box returns the intersection of the boxes of its two segments (None when they are disjoint):
    evaluated on concrete coordinates, per axis max(min(a1,a2), min(b1,b2)) .. min(max(a1,a2), max(b1,b2)).  A routine that
    passes is symmetric in the end points of each segment and in the two segments, which G-clamp relies on."""
    b, ps = rep.explore(ctx, BBOX, rule)
    if b is None:
        return
    import itertools
    few = [(0, 2, 1, 3), (1, 3, 0, 2), (2, 0, 3, 1), (0, 1, 2, 3), (3, 2, 1, 0), (0, 3, 1, 2), (1, 1, 1, 1), (0, 1, 1, 2), (2, 1, 1, 0)]
    allc = list(itertools.product((0, 1, 2), repeat=4))
    bad = []
    n = 0
    try:
        for xs, ys in [(x_, y_) for x_ in allc for y_ in few] + [(x_, y_) for x_ in few for y_ in allc]:
            env = {}
            for nm, xv, yv in zip(('a1', 'a2', 'b1', 'b2'), xs, ys):
                env[nm + '.x'], env[nm + '.y'] = xv, yv
            lo = (max(min(xs[0], xs[1]), min(xs[2], xs[3])), max(min(ys[0], ys[1]), min(ys[2], ys[3])))
            hi = (min(max(xs[0], xs[1]), max(xs[2], xs[3])), min(max(ys[0], ys[1]), max(ys[2], ys[3])))
            exp = (lo, hi) if lo[0] <= hi[0] and lo[1] <= hi[1] else None
            hits = 0
            for p in ps:
                if p.end != 'return':
                    continue
                if not all((bool(_num(v, env)) == bool(c[1])) if c[0] == 'eq' else (_num(v, env) not in c[1]) for (v, c) in p.conds):
                    continue
                hits += 1
                r = strip_upd(p.ret)
                got = None
                if r[0] == 'agg' and r[2] == 'Some':
                    bb = strip_upd(r[4][0])
                    d = dict(zip(bb[3], bb[4]))
                    got = tuple(tuple(_num(strip_upd(d[corner])[4][i], env) for i in (0, 1)) for corner in ('min', 'max'))
                n += 1
                if got != exp:
                    bad.append((xs, ys, got, exp))
            if not hits:
                bad.append((xs, ys, 'no path', exp))
    except (ValueError, KeyError, TypeError, IndexError) as e:
        rep.ob(rule, 'bbox-modelled', False, 'get_intersection_bounding_box cannot be evaluated on concrete coordinates: %s' % e,
               loc=b.loc(b.j['line_lo']), reason='cannot-tabulate')
        return False
    rep.rows_compared += n
    rep.ob(rule, 'bbox:min=max-of-starts,max=min-of-ends', n > 1000 and not bad,
           'get_intersection_bounding_box must return the intersection of the two segments\' boxes (None when disjoint); %d of %d evaluated '
           'inputs differ, e.g. x=%s y=%s gives %s, expected %s' % ((len(bad), n) + (bad[0] if bad else ('-', '-', '-', '-'))),
           loc=b.loc(b.j['line_lo']), reason='table-row')
    return n > 1000 and not bad


def check_algebra(ctx, rep, rule='I-algebra'):
    """The points intersection_impl reports, as exact rational functions of the eight input coordinates (helpers inlined):
    crossing arm: the point equals the intersection X of the two carrier lines; collinear arm (b1 = a1 + L*va,
    b2 = a1 + M*va substituted): every point the min/max clamp can select is an endpoint of one of the segments, and
    both b-endpoints are selectable."""
    from rules import ratfun
    from rules.ratfun import var, const, NotRational
    b, rows_ = clamped_points(ctx, rep, None)
    if b is None:
        return
    ps = [p_ for (p_, _, _) in rows_]
    raw_of = {id(p_): (variant_, [raw_ for (raw_, _, _) in pts_]) for (p_, variant_, pts_) in rows_}
    A1, A2, B1, B2 = [(var('%s.x' % n), var('%s.y' % n)) for n in ('a1', 'a2', 'b1', 'b2')]
    va = (A2[0] - A1[0], A2[1] - A1[1])
    vb = (B2[0] - B1[0], B2[1] - B1[1])
    e = (B1[0] - A1[0], B1[1] - A1[1])
    cross = lambda p, q: p[0] * q[1] - p[1] * q[0]
    kross = cross(va, vb)
    s = cross(e, vb) / kross
    X = (A1[0] + s * va[0], A1[1] + s * va[1])
    col = cross(e, va)
    L, M = ratfun.pvar('L'), ratfun.pvar('M')
    dx = ratfun.padd(ratfun.pvar('a2.x'), ratfun.pvar('a1.x'), -1)
    dy = ratfun.padd(ratfun.pvar('a2.y'), ratfun.pvar('a1.y'), -1)
    env = {'b1.x': ratfun.padd(ratfun.pvar('a1.x'), ratfun.pmul(L, dx)), 'b1.y': ratfun.padd(ratfun.pvar('a1.y'), ratfun.pmul(L, dy)),
           'b2.x': ratfun.padd(ratfun.pvar('a1.x'), ratfun.pmul(M, dx)), 'b2.y': ratfun.padd(ratfun.pvar('a1.y'), ratfun.pmul(M, dy))}
    ends = {'a1': A1, 'a2': A2, 'b1': (B1[0].subst(env), B1[1].subst(env)), 'b2': (B2[0].subst(env), B2[1].subst(env))}
    n_cross = n_col = 0
    seen = set()
    selectable = set()
    for p in ps:
        if p.end != 'return':
            continue
        variant_, raws_ = raw_of[id(p)]
        if variant_ not in ('Point', 'Overlap'):
            continue
        r = ('agg', 'adt', variant_, (), tuple(raws_), 'LineIntersection')
        # which arm: the truth of the tests "kross (or its square) is non-zero" / "cross(e, va) (or its square) is non-zero"
        arm = None
        collinear_tested = False
        try:
            for (v, c) in p.conds:
                x = strip_upd(v)
                if x[0] != 'op' or len(x) != 4 or x[1] not in ('gt', 'ne', 'eq', 'lt'):
                    continue
                try:
                    lhs, rhs = ratfun.single(x[2]), ratfun.single(x[3])
                except NotRational:
                    continue
                other = lhs if rhs.is_zero() else rhs if lhs.is_zero() else None
                if other is None:
                    continue
                nonzero = c[1] if x[1] in ('gt', 'ne', 'lt') else (not c[1])
                if other.proportional(kross) or other.proportional(kross * kross):
                    if x[1] in ('gt', 'lt') and other.proportional(kross) and not other.proportional(kross * kross):
                        continue        # a sign test of kross is not a non-zero test
                    arm = 'crossing' if nonzero else (arm or 'parallel')
                elif other.proportional(col) or other.proportional(col * col):
                    if not nonzero:
                        collinear_tested = True
            pts = [strip_upd(q) for q in r[4]]
            coords = []
            for q in pts:
                if q[0] != 'agg' or len(q[4]) != 2:
                    raise NotRational('reported point is not a coordinate pair: %s' % show(noepoch(q))[:60])
                coords.append((ratfun.alternatives(q[4][0]), ratfun.alternatives(q[4][1])))
        except NotRational as ex:
            rep.ob(rule, 'rational:%s' % r[2], False, 'a point reported by intersection_impl is not a rational function of the inputs: %s' % ex,
                   loc=b.loc(b.j['line_lo']), reason='cannot-tabulate')
            continue
        if arm == 'crossing':
            n_cross += 1
            ok = r[2] == 'Point' and len(coords) == 1 and len(coords[0][0]) == 1 and len(coords[0][1]) == 1 \
                and coords[0][0][0].same(X[0]) and coords[0][1][0].same(X[1])
            key = ('crossing', ok)
            if key not in seen:
                seen.add(key)
                rep.ob(rule, 'crossing-point-is-the-line-intersection', ok,
                       'on a path where the carrier lines are not parallel the reported point must equal, as a rational function of the '
                       'inputs, a1 + ((b1-a1)x(b2-b1) / (a2-a1)x(b2-b1)) * (a2-a1); it does not (%s)' % show(noepoch(r))[:160],
                       loc=b.loc(b.j['line_lo']), reason='table-row')
        else:
            n_col += 1
            ok = collinear_tested and arm == 'parallel'
            bad = []
            for i, (xs, ys) in enumerate(coords):
                if len(xs) != len(ys):
                    ok = False
                    continue
                for ax, ay in zip(xs, ys):
                    sx, sy = ax.subst(env), ay.subst(env)
                    hit = [nm for nm, (ex_, ey_) in ends.items() if sx.same(ex_) and sy.same(ey_)]
                    if not hit:
                        ok = False
                        bad.append(i)
                    else:
                        selectable.update(hit)
            key = ('collinear', r[2], ok)
            if key not in seen:
                seen.add(key)
                rep.ob(rule, 'collinear-%s-points-are-segment-endpoints' % r[2].lower(), ok,
                       'in the collinear arm (reached only after both cross products tested zero: parallel=%s collinear=%s) every point the '
                       'clamp can select must be an endpoint of one of the two segments when b1 = a1 + L*(a2-a1), b2 = a1 + M*(a2-a1); '
                       'points %s are not' % (arm == 'parallel', collinear_tested, sorted(set(bad))), loc=b.loc(b.j['line_lo']), reason='table-row')
    rep.ob(rule, 'collinear-arm-can-report-both-b-endpoints', n_col == 0 or {'b1', 'b2'} <= selectable,
           'the overlap of collinear segments must be able to start / end at either endpoint of b; selectable endpoints: %s' % sorted(selectable),
           loc=b.loc(b.j['line_lo']), reason='table-row')
    rep.floor(rule, 'crossing-arm point returns', n_cross, 5)
    rep.floor(rule, 'collinear-arm point returns', n_col, 3)
    rep.rows_compared += n_cross + n_col
