"""Shared analyses: call graph with drop glue and std call-backs, reachability, SCCs."""
import re
from facts import callee_name, callee_decl

# public entry points of the library (the operations the properties are about)
def entry_bodies(facts):
    out = []
    for name, b in facts.bodies.items():
        j = b.j
        if j.get('promoted') is not None:
            continue
        imp = j.get('impl') or {}
        if imp.get('trait') == 'boolean::BooleanOp' or j.get('trait_default_of') == 'boolean::BooleanOp':
            out.append(name)
        elif j.get('vis') == 'pub' and j['kind'] in ('Fn', 'AssocFn') and not imp.get('auto_derived'):
            out.append(name)
    return sorted(out)


def boolean_entries(facts):
    return sorted(n for n, b in facts.bodies.items()
                  if (b.j.get('impl') or {}).get('trait') == 'boolean::BooleanOp'
                  or b.j.get('trait_default_of') == 'boolean::BooleanOp')


LOCAL_ADT_RE = re.compile(r'\b((?:boolean|splay)::[A-Za-z_:]+)')


class CallGraph:
    """nodes: local body ids, 'drop:<ty>' drop-glue nodes, foreign callee names ('ext:<name>')"""

    def __init__(self, facts):
        self.facts = facts
        self.edges = {}          # node -> {succ: witness (body id, line, kind)}
        self._impls = self._index_impls()
        self._build()

    def _index_impls(self):
        idx = {}
        for name, b in self.facts.bodies.items():
            imp = b.j.get('impl')
            if imp and imp.get('trait'):
                head = imp['self_ty'].split('<')[0]
                idx.setdefault((head, imp['trait']), []).append(name)
        return idx

    def add(self, a, b, wit):
        self.edges.setdefault(a, {}).setdefault(b, wit)
        self.edges.setdefault(b, {})

    def _callbacks(self, t, name):
        """local trait-impl methods a foreign callee instantiated at local types may call back"""
        c = t['callee']
        argtext = ' '.join(c.get('args', []) + (c.get('resolved') or {}).get('args', []))
        heads = set(m for m in LOCAL_ADT_RE.findall(argtext))
        traits = []
        tr = c.get('trait') or ''
        if 'BinaryHeap' in name or 'sort' in name or tr in ('std::cmp::Ord', 'std::cmp::PartialOrd') \
                or '::cmp::' in name:
            traits += ['std::cmp::Ord', 'std::cmp::PartialOrd']
        if tr == 'std::cmp::PartialEq' or 'PartialEq' in name or 'contains' in name:
            traits += ['std::cmp::PartialEq']
        if (tr == 'std::clone::Clone' or 'clone' in name or 'to_vec' in name or 'Vec::<T>::from' in name
                or 'collect' in name or 'from_iter' in name) and not re.match(r'^<std::rc::(Rc|Weak)<', name):
            # cloning an Rc / Weak never clones the pointee
            traits += ['std::clone::Clone']
        if tr == 'std::fmt::Debug' or 'fmt' in name:
            traits += ['std::fmt::Debug']
        out = []
        for h in heads:
            for trn in traits:
                out += self._impls.get((h, trn), [])
        return out

    def _build(self):
        f = self.facts
        for name, b in f.bodies.items():
            self.edges.setdefault(name, {})
            rb = b.reachable_blocks()
            for i, bl in enumerate(b.blocks):
                if bl['cleanup'] or i not in rb:
                    continue
                for st in bl['stmts']:
                    if st['k'] == 'assign':
                        rv = st['rv']
                        if rv['k'] == 'aggregate' and rv.get('agg') == 'closure':
                            self.add(name, rv['closure'], (name, st['line'], 'closure'))
                        # function items passed as values (e.g. compare_segments to SplaySet::new)
                        for o in _operands(rv):
                            if o['k'] == 'const' and 'fn' in o and o['fn'] in f.bodies:
                                self.add(name, o['fn'], (name, st['line'], 'fn-item'))
                t = bl['term']
                if t['k'] in ('call', 'tailcall'):
                    cn = callee_name(t)
                    if cn in f.bodies:
                        self.add(name, cn, (name, t['line'], 'call'))
                    else:
                        node = 'ext:' + cn
                        self.add(name, node, (name, t['line'], 'call'))
                        for cb in self._callbacks(t, cn):
                            self.add(node + '@' + name, cb, (name, t['line'], 'callback'))
                            self.add(name, node + '@' + name, (name, t['line'], 'call'))
                    for o in t['args']:
                        if o['k'] == 'const' and 'fn' in o and o['fn'] in f.bodies:
                            self.add(name, o['fn'], (name, t['line'], 'fn-item'))
                    r = t['callee'].get('resolved')
                    if r and r.get('kind') == 'dropglue' and r.get('drop_ty'):
                        self.add(name, 'drop:' + r['drop_ty'], (name, t['line'], 'drop_in_place'))
                elif t['k'] == 'drop' and t.get('needs_drop', True):
                    self.add(name, 'drop:' + t['ty'], (name, t['line'], 'drop'))
        for ty, n in f.drop_graph.items():
            node = 'drop:' + ty
            self.edges.setdefault(node, {})
            if n['dtor']:
                d = n['dtor']['def']
                self.add(node, d if d in f.bodies else 'ext:' + d, (ty, 0, 'dtor'))
            for c in n['comps']:
                self.add(node, 'drop:' + c['ty'], (ty, 0, 'glue:' + c['label']))

    def reachable(self, roots):
        seen, work = set(), list(roots)
        while work:
            x = work.pop()
            if x in seen:
                continue
            seen.add(x)
            work.extend(self.edges.get(x, {}))
        return seen

    def sccs(self, nodes):
        """Tarjan, restricted to `nodes`; returns the non-trivial SCCs (incl. self loops)"""
        index, low, onst, stack, out = {}, {}, set(), [], []
        counter = [0]
        import sys
        sys.setrecursionlimit(10000)

        def strong(v):
            index[v] = low[v] = counter[0]
            counter[0] += 1
            stack.append(v)
            onst.add(v)
            for w in self.edges.get(v, {}):
                if w not in nodes:
                    continue
                if w not in index:
                    strong(w)
                    low[v] = min(low[v], low[w])
                elif w in onst:
                    low[v] = min(low[v], index[w])
            if low[v] == index[v]:
                comp = []
                while True:
                    w = stack.pop()
                    onst.discard(w)
                    comp.append(w)
                    if w == v:
                        break
                if len(comp) > 1 or v in self.edges.get(v, {}):
                    out.append(sorted(comp))
        for v in sorted(nodes):
            if v not in index:
                strong(v)
        return out

    def path(self, roots, target):
        """one witness path root -> target"""
        prev = {r: None for r in roots}
        work = list(roots)
        while work:
            x = work.pop(0)
            if x == target:
                out = []
                while x is not None:
                    out.append(x)
                    x = prev[x]
                return out[::-1]
            for w in self.edges.get(x, {}):
                if w not in prev:
                    prev[w] = x
                    work.append(w)
        return None


def _operands(rv):
    k = rv['k']
    if k in ('use', 'cast', 'repeat'):
        return [rv['op']]
    if k == 'binop':
        return [rv['a'], rv['b']]
    if k == 'unop':
        return [rv['a']]
    if k == 'aggregate':
        return rv['fields']
    return []


def all_statements(body, cleanup=False):
    rb = body.reachable_blocks()
    for i, bl in enumerate(body.blocks):
        if (bl['cleanup'] and not cleanup) or (i not in rb and not cleanup):
            continue
        for st in bl['stmts']:
            yield i, st


def all_terms(body, cleanup=False):
    rb = body.reachable_blocks()
    for i, bl in enumerate(body.blocks):
        if (bl['cleanup'] and not cleanup) or (i not in rb and not cleanup):
            continue
        yield i, bl['term']
