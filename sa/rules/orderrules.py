"""Rules on the two comparators: O-noequal, O-antisym-event (finite table over sign atoms), O-equal-identity, O-swap,
O-consumers.  Used by C15 (and O-consumers by C13)."""
import itertools
import re
import sym
from sym import show, noepoch, strip_upd, short
from rules.tables import obj_root

CMP = '<boolean::sweep_event::SweepEvent<F> as std::cmp::Ord>::cmp'
PCMP = '<boolean::sweep_event::SweepEvent<F> as std::cmp::PartialOrd>::partial_cmp'
CS = 'boolean::compare_segments::compare_segments'
LESS_IF = 'boolean::helper::less_if'
LESS_IF_INV = 'boolean::helper::less_if_inversed'
ISBELOW = 'boolean::sweep_event::SweepEvent::<F>::is_below'
ALIAS = {}


def ordering_const(v):
    x = strip_upd(v)
    if x[0] == 'agg' and x[5].endswith('Ordering'):
        return x[2]
    if x[0] == 'c' and isinstance(x[1], tuple) and x[1][0] == 'enum':
        return x[1][2]
    return None


def check_less_if(ctx, rep, rule='O-swap'):
    tabs = {}
    for fn in (LESS_IF, LESS_IF_INV):
        b, ps = rep.explore(ctx, fn, rule)
        if b is None:
            return None
        tab = {}
        for cval in (True, False):
            outs = set()
            for p in ps:
                if p.end != 'return':
                    continue
                if any(strip_upd(v)[0] == 'param' and bool(c[1]) != cval for (v, c) in p.conds):
                    continue
                r = strip_upd(sym.simplify(sym.subst(p.ret, p.conds)))
                rev = False
                while r[0] in ('pcall', 'call') and r[1] == 'std::cmp::Ordering::reverse' and len(r[2]) == 1:
                    rev, r = not rev, strip_upd(r[2][0])
                o = ordering_const(r)
                if o is None and r[0] in ('pcall', 'call') and r[1] in (LESS_IF, LESS_IF_INV) and r[1] != fn and r[1] in tabs and len(r[2]) == 1:
                    # defined through its sibling: evaluate the argument
                    a = strip_upd(sym.simplify(r[2][0]))
                    neg = False
                    while a[0] == 'op' and a[1] == 'not':
                        neg, a = not neg, strip_upd(a[2])
                    if a[0] == 'param':
                        o = tabs[r[1]].get(cval != neg)
                    elif sym.is_const(a):
                        o = tabs[r[1]].get(bool(a[1]) != neg)
                if rev and o in ('Less', 'Greater', 'Equal'):
                    o = {'Less': 'Greater', 'Greater': 'Less', 'Equal': 'Equal'}[o]
                outs.add(o)
            tab[cval] = outs.pop() if len(outs) == 1 else None
        tabs[fn] = tab
    ok = tabs[LESS_IF] == {True: 'Less', False: 'Greater'}
    rep.ob(rule, 'less_if-table', ok, 'less_if must map true->Less, false->Greater; is %s' % tabs[LESS_IF], reason='table-row')
    ok = tabs[LESS_IF_INV] == {True: 'Greater', False: 'Less'}
    rep.ob(rule, 'less_if_inversed-is-negation', ok, 'less_if_inversed must be the pointwise negation of less_if; is %s' % tabs[LESS_IF_INV],
           reason='table-row')
    return tabs


def order_test(v, first, second):
    """+1 when the condition v is `first is before second` (first > second in the reversed heap order, or first.cmp(second) == Greater),
    -1 when it is `first is after second`, 0 when it is not a comparison of the two events themselves"""
    x = strip_upd(v)
    if x[0] in ('pcall', 'call') and re.search(r'SweepEvent::<F>::(is_before|is_after)$', x[1]) and len(x[2]) == 2:
        # the named helpers (their meaning is O-noequal's business)
        sa, sb = show(noepoch(x[2][0])), show(noepoch(x[2][1]))
        d = 1 if x[1].endswith('is_before') else -1
        if first in sa and second in sb and second not in sa and first not in sb:
            return d
        if second in sa and first in sb and first not in sa and second not in sb:
            return -d
        return 0
    if x[0] != 'op' or len(x) != 4:
        return 0
    s = show(noepoch(x))
    if 'point' in s or 'orient2d' in s or 'signed_area' in s or 'contour_id' in s or 'is_subject' in s:
        return 0
    if x[1] in ('gt', 'lt'):
        sa, sb = show(noepoch(x[2])), show(noepoch(x[3]))
        if first in sa and second in sb and second not in sa and first not in sb:
            return 1 if x[1] == 'gt' else -1
        if second in sa and first in sb and first not in sa and second not in sb:
            return -1 if x[1] == 'gt' else 1
        return 0
    if x[1] in ('eq', 'ne'):
        for call, const in ((strip_upd(x[2]), strip_upd(x[3])), (strip_upd(x[3]), strip_upd(x[2]))):
            o = ordering_const(const)
            if call[0] in ('call', 'pcall') and call[1] == CMP and o in ('Greater', 'Less') and len(call[2]) == 2:
                sa, sb = show(noepoch(call[2][0])), show(noepoch(call[2][1]))
                if first in sa and second in sb:
                    d = 1
                elif second in sa and first in sb:
                    d = -1
                else:
                    return 0
                d = d if o == 'Greater' else -d
                return d if x[1] == 'eq' else -d       # cmp never returns Equal (O-noequal)
    return 0


def check_noequal(ctx, rep, rule='O-noequal'):
    b, ps = rep.explore(ctx, CMP, rule)
    if b is None:
        return
    kinds = set()
    for p in ps:
        if p.end != 'return':
            rep.ob(rule, 'cmp-returns', False, 'a path of SweepEvent::cmp ends with %s' % p.end, loc=b.loc(b.j['line_lo']), reason='cannot-tabulate')
            continue
        c = ordering_const(p.ret)
        r = strip_upd(p.ret)
        if c is not None:
            kinds.add(c)
        elif r[0] == 'pcall' and r[1] == LESS_IF:
            kinds.add('less_if')
        else:
            kinds.add('other:' + show(noepoch(r))[:50])
    ok = kinds <= {'Less', 'Greater', 'less_if'}
    rep.ob(rule, 'cmp-never-Equal', ok, 'SweepEvent::cmp can return %s; the heap, the bubble sort and is_before rely on a strict order '
           '(never Equal for two events)' % sorted(kinds), loc=b.loc(b.j['line_lo']), reason='table-row')
    rep.floor(rule, 'return paths of cmp', len(ps), 10)
    b2, p2 = rep.explore(ctx, PCMP, rule)
    if b2 is not None:
        ok = False
        for p in p2:
            r = strip_upd(p.ret)
            if r[0] == 'agg' and r[2] == 'Some':
                inner = strip_upd(r[4][0])
                ok = inner[0] in ('call', 'pcall') and inner[1] == CMP and [strip_upd(a)[0] for a in inner[2]] == ['param', 'param'] \
                    and [strip_upd(a)[2] for a in inner[2]] == ['self', 'other']
        rep.ob(rule, 'partial_cmp=Some(cmp)', ok, 'partial_cmp must be Some(self.cmp(other))', loc=b2.loc(b2.j['line_lo']), reason='table-row')
    for fn, op in (('is_before', 'gt'), ('is_after', 'lt')):
        bb, pp = rep.explore(ctx, 'boolean::sweep_event::SweepEvent::<F>::' + fn, rule)
        if bb is None:
            continue
        ok = bool(pp)
        for p in pp:
            if p.end != 'return':
                continue
            r = strip_upd(sym.simplify(sym.subst(p.ret, p.conds)))
            want = 1 if fn == 'is_before' else -1
            if sym.is_const(r):
                d = [order_test(v, 'self', 'other') * (1 if c[1] else -1) for (v, c) in p.conds if order_test(v, 'self', 'other')]
                ok = ok and len(d) == 1 and (d[0] == want) == bool(r[1])
            else:
                ok = ok and order_test(r, 'self', 'other') == want
        rep.ob(rule, '%s-is-%s' % (fn, op), ok, '%s must be `self %s other` (reversed heap convention)' % (fn, '>' if op == 'gt' else '<'),
               loc=bb.loc(bb.j['line_lo']), reason='table-row')


# -------------------------------------------------------------------- O-antisym-event

def ent(v):
    return obj_root(v, {'self.other_event': 'oself', 'other.other_event': 'oother'})


def atom_of(v):
    """structured atom of a condition / value of SweepEvent::cmp"""
    x = strip_upd(v)
    k = x[0]
    if sym.is_const(x):
        return ('const', x[1])
    if k == 'op' and x[1] == 'not':
        return ('not', atom_of(x[2]))
    if k == 'op' and x[1] in ('bitxor', 'bitand', 'bitor') and len(x) == 4:
        a, b = atom_of(x[2]), atom_of(x[3])
        if a[0] == 'unknown':
            return a
        if b[0] == 'unknown':
            return b
        return ('bool', x[1], a, b)
    if k == 'op' and x[1] in ('gt', 'lt', 'ne', 'eq', 'ge', 'le') and len(x) == 4:
        a, b = strip_upd(x[2]), strip_upd(x[3])
        # coordinate comparison of the two event points
        def coord(y):
            if y[0] == 'field' and y[2] in ('x', 'y') and strip_upd(y[1])[0] == 'field' and strip_upd(y[1])[2] == 'point':
                base = strip_upd(strip_upd(y[1])[1])
                if base[0] == 'deref':
                    return (ent(base[1]), y[2])
            return None
        ca, cb = coord(a), coord(b)
        if ca and cb and ca[1] == cb[1]:
            return ('coordcmp', x[1], ca[0], cb[0], ca[1])
        # left flags
        from rules.tables import atom_name
        na, nb = atom_name(a, {}), atom_name(b, {})
        if na and nb and na.endswith('.left') and nb.endswith('.left'):
            return ('leftcmp', x[1], na[:-5], nb[:-5])
        # equality of two event points as a whole
        if x[1] in ('eq', 'ne'):
            pa, pb = point_ent(a), point_ent(b)
            if pa[0] != '?' and pb[0] != '?':
                return ('pointcmp', x[1], pa, pb)
        # orientation != 0
        if a[0] == 'pcall' and (a[1].endswith('orient2d') or a[1].endswith('signed_area::signed_area')) and b[0] == 'c':
            return ('orient', x[1], tuple(point_ent(q) for q in a[2]), b[1])
        return ('unknown', show(noepoch(x))[:80])
    if k == 'discr':
        from rules.tables import weak_link
        w = weak_link(strip_upd(x[1]), {})
        if w:
            return ('has_other', w.split('.')[0])
        return ('unknown', show(noepoch(x))[:80])
    if k == 'pcall' and x[1] == ISBELOW:
        return ('is_below', ent(x[2][0]), point_ent(x[2][1]))
    if k == 'pcall' and x[1] == ISBELOW.replace('is_below', 'is_above'):
        return ('not', ('is_below', ent(x[2][0]), point_ent(x[2][1])))
    if k == 'pcall' and x[1] == LESS_IF:
        return ('less_if', atom_of(x[2][0]))
    if k == 'field' and x[2] == 'is_subject':
        base = strip_upd(x[1])
        if base[0] == 'deref':
            return ('subj', ent(base[1]))
    from rules.tables import atom_name
    n = atom_name(x, {})
    if n and n.endswith('.left'):
        return ('left', n[:-5])
    c = ordering_const(x)
    if c:
        return ('ordering', c)
    return ('unknown', show(noepoch(x))[:80])


def known_ref(v):
    """the value behind a reference into a known temporary (`&(a, b).0` -> a); v itself otherwise"""
    x = strip_upd(v)
    while x[0] == 'ref' and x[1][0][0] == 'ext' and strip_upd(x[1][0][1])[0] == 'refval':
        cur = strip_upd(strip_upd(x[1][0][1])[1])
        for step in x[1][1]:
            if step[0] != 'f' or cur[0] != 'agg':
                return x
            names = list(cur[3]) if cur[3] else list(range(len(cur[4])))
            if step[1] not in names:
                return x
            cur = strip_upd(cur[4][names.index(step[1])])
        x = cur
    return x


def point_ent(v):
    """'self' / 'other' / 'oself' / 'oother' for the point of an event (robust Coord{x,y} copies included)"""
    x = known_ref(v)
    if x[0] == 'agg' and x[5].endswith('Coord') and len(x[4]) == 2:
        a = strip_upd(x[4][0])
        if a[0] == 'field' and a[2] == 'x':
            return point_ent(a[1])
    if x[0] == 'field' and x[2] == 'point':
        base = strip_upd(x[1])
        if base[0] == 'deref':
            e = ent(base[1])
            return {'self.other_event': 'oself', 'other.other_event': 'oother'}.get(e, e)
    return '?' + show(noepoch(x))[:30]


class Geo:
    """one abstract configuration of two events a, b: signs of coordinate differences, flags, orientation sign"""

    def __init__(self, sx, sy, la, lb, ha, hb, s, subja, subjb, eqo=False):
        self.sx, self.sy, self.l, self.h, self.s, self.subj = sx, sy, {'a': la, 'b': lb}, {'a': ha, 'b': hb}, s, {'a': subja, 'b': subjb}
        self.eqo = eqo      # the two other end points coincide (only possible with orientation 0)

    def key(self):
        return 'sx=%d,sy=%d,left=%d%d,has_other=%d%d,orient=%d,subject=%d%d%s' % (
            self.sx, self.sy, self.l['a'], self.l['b'], self.h['a'], self.h['b'], self.s, self.subj['a'], self.subj['b'],
            ',same-other-point' if self.eqo else '')


def ev_atom(at, g, role):
    """truth value of an atom for configuration g when self=role['self'], other=role['other']"""
    k = at[0]
    r = lambda e: role[{'oself': 'self', 'oother': 'other'}.get(e, e)]
    if k == 'const':
        return at[1]
    if k == 'not':
        return not ev_atom(at[1], g, role)
    if k == 'bool':
        a, b = bool(ev_atom(at[2], g, role)), bool(ev_atom(at[3], g, role))
        return {'bitxor': a != b, 'bitand': a and b, 'bitor': a or b}[at[1]]
    if k == 'coordcmp':
        _, op, e1, e2, axis = at
        s = g.sx if axis == 'x' else g.sy
        d = 0 if r(e1) == r(e2) else (s if (r(e1), r(e2)) == ('a', 'b') else -s)
        return {'gt': d > 0, 'lt': d < 0, 'ne': d != 0, 'eq': d == 0, 'ge': d >= 0, 'le': d <= 0}[op]
    if k == 'pointcmp':
        _, op, e1, e2 = at
        own = {'self', 'other'}
        if e1 == e2:
            same = True
        elif e1 in own and e2 in own:
            same = g.sx == 0 and g.sy == 0
        elif e1 not in own and e2 not in own:
            if not (g.h['a'] and g.h['b']):
                raise ValueError('other end point of an event without other event')
            same = g.eqo
        else:
            raise ValueError('comparison of an event point with an other end point (%s, %s)' % (e1, e2))
        return same if op == 'eq' else not same
    if k == 'leftcmp':
        _, op, e1, e2 = at
        v = g.l[r(e1)] != g.l[r(e2)]
        return v if op == 'ne' else not v
    if k == 'left':
        return g.l[r(at[1])]
    if k == 'has_other':
        return 1 if g.h[r(at[1])] else 0
    if k == 'subj':
        return g.subj[r(at[1])]
    if k == 'orient':
        _, op, pts, zero = at
        s = orient_sign(pts, g, role)
        if s is None:
            raise ValueError('orientation of %s' % (pts,))
        return {'ne': s != 0, 'eq': s == 0, 'gt': s > 0, 'lt': s < 0, 'ge': s >= 0, 'le': s <= 0}[op]
    if k == 'is_below':
        _, who, pt = at
        # is_below(X, q): X.left ? orient(X.point, X.other.point, q) > 0 : orient(X.other.point, X.point, q) > 0
        X = who
        ox = 'oself' if X == 'self' else 'oother'
        if not g.h[r(X)]:
            return False
        if g.l[r(X)]:
            s = orient_sign((X, ox, pt), g, role)
        else:
            s = orient_sign((ox, X, pt), g, role)
        if s is None:
            raise ValueError('is_below orientation')
        return s > 0
    raise ValueError('atom %r' % (at,))


def orient_sign(pts, g, role):
    """sign of orient(p0,p1,p2) where the points are among: the common point P (self/other, equal when this is evaluated),
    O_a, O_b (the other endpoints).  g.s = sign(orient(P, O_a, O_b))."""
    names = []
    for p in pts:
        if p in ('self', 'other'):
            names.append('P')
        elif p == 'oself':
            names.append('O' + role['self'])
        elif p == 'oother':
            names.append('O' + role['other'])
        else:
            return None
    base = ['P', 'Oa', 'Ob']
    if sorted(names) != sorted(base):
        return 0 if len(set(names)) < 3 else None
    # parity of the permutation
    perm = [base.index(n) for n in names]
    inv = sum(1 for i in range(3) for j in range(i + 1, 3) if perm[i] > perm[j])
    return g.s if inv % 2 == 0 else -g.s


def eval_cmp(rows, g, role):
    """Ordering returned by the code's decision rows for configuration g"""
    hits = []
    for (conds, ret) in rows:
        ok = True
        for (at, c) in conds:
            v = ev_atom(at, g, role)
            want = c[1]
            if c[0] == 'eq':
                if isinstance(want, bool) or isinstance(v, bool):
                    if bool(v) != bool(want):
                        ok = False
                elif v != want:
                    ok = False
            else:
                if v in c[1]:
                    ok = False
            if not ok:
                break
        if ok:
            if ret[0] == 'ordering':
                hits.append(ret[1])
            elif ret[0] == 'less_if':
                hits.append('Less' if ev_atom(ret[1], g, role) else 'Greater')
            else:
                raise ValueError('return %r' % (ret,))
    if len(set(hits)) != 1:
        raise ValueError('%d outcomes for %s' % (len(set(hits)), g.key()))
    return hits[0]


def oracle_cmp(g):
    """stated priority: x, then y, then right-before-left, then angular (the segment below first), then subject first.
    Result is in the reversed heap convention: Less = a comes later in the sweep."""
    if g.sx:
        return 'Less' if g.sx > 0 else 'Greater'
    if g.sy:
        return 'Less' if g.sy > 0 else 'Greater'
    if g.l['a'] != g.l['b']:
        return 'Less' if g.l['a'] else 'Greater'
    if g.h['a'] and g.h['b'] and g.s != 0:
        # a is below b's other endpoint  <=> a first (Greater); for right events the orientation is mirrored
        below = (g.s > 0) if g.l['a'] else (g.s < 0)
        return 'Greater' if below else 'Less'
    if g.subj['a'] != g.subj['b']:
        return 'Greater' if g.subj['a'] else 'Less'
    return None      # documented residue: same point, same kind, collinear (or no other event), same operand


def check_antisym(ctx, rep, rule='O-antisym-event'):
    b, ps = rep.explore(ctx, CMP, rule)
    if b is None:
        return
    rows = []
    for p in ps:
        if p.end != 'return':
            continue
        conds = [(atom_of(v), c) for (v, c) in p.conds]
        ret = atom_of(p.ret)
        unk = [a for a, _ in conds if a[0] == 'unknown'] + ([ret] if ret[0] == 'unknown' or (ret[0] == 'less_if' and ret[1][0] == 'unknown') else [])
        if unk:
            rep.ob(rule, 'cmp-tabulable', False, 'SweepEvent::cmp depends on %s, which the sign-atom model does not cover' % unk[:2],
                   loc=b.loc(b.j['line_lo']), reason='cannot-tabulate')
            return
        rows.append((conds, ret))
    n = 0
    bad_anti, bad_prio, residue = [], [], 0
    bad_loop = []
    try:
        for sx, sy in itertools.product((-1, 0, 1), repeat=2):
            for la, lb, ha, hb, sa, sb in itertools.product((False, True), repeat=6):
                for s, eqo in ((-1, False), (0, False), (0, True), (1, False)):
                    if eqo and not (ha and hb):
                        continue
                    g = Geo(sx, sy, la, lb, ha, hb, s, sa, sb, eqo)
                    ab = eval_cmp(rows, g, {'self': 'a', 'other': 'b'})
                    ba = eval_cmp(rows, g, {'self': 'b', 'other': 'a'})
                    n += 1
                    exp = oracle_cmp(g)
                    if exp is None:
                        residue += 1
                        # no order is promised here, but the re-sorting loop of order_events swaps neighbours while `a < b`:
                        # a pair that is Less in both directions is swapped for ever
                        if ab == 'Less' and ba == 'Less':
                            bad_loop.append(g.key())
                        continue
                    if ab == ba:
                        bad_anti.append((g.key(), ab))
                    if ab != exp:
                        bad_prio.append((g.key(), ab, exp))
    except ValueError as e:
        rep.ob(rule, 'cmp-tabulable', False, 'cannot evaluate SweepEvent::cmp over the sign atoms: %s' % e, loc=b.loc(b.j['line_lo']),
               reason='cannot-tabulate')
        return
    rep.rows_compared += n
    rep.info['O-antisym-event'] = {'configurations': n, 'documented residue (same point, kind, collinear, operand)': residue}
    for (k, v) in bad_anti[:6]:
        rep.ob(rule, 'antisymmetric:' + k, False, 'cmp(a,b) = cmp(b,a) = %s for the configuration %s (outside the documented residue): the order is '
               'not antisymmetric' % (v, k), loc=b.loc(b.j['line_lo']), reason='table-row')
    for (k, v, e) in bad_prio[:6]:
        rep.ob(rule, 'priority:' + k, False, 'cmp(a,b) = %s for %s; the stated priority (x, y, right-before-left, angular, subject first) gives %s'
               % (v, k, e), loc=b.loc(b.j['line_lo']), reason='table-row', expected=e, found=v)
    rep.ob(rule, 'residue-never-less-both-ways', not bad_loop,
           'in the documented residue (same point, same kind, collinear or no other event, same operand) cmp(a,b) and cmp(b,a) are both Less for %s: '
           'the bubble sort of order_events (swap while result_events[i-1] < result_events[i]) never terminates on such a pair'
           % bad_loop[:3], loc=b.loc(b.j['line_lo']), reason='table-row')
    rep.ob(rule, 'antisymmetric-outside-residue', not bad_anti, '%d configurations violate antisymmetry' % len(bad_anti), reason='table-row')
    rep.ob(rule, 'priority-order', not bad_prio, '%d configurations deviate from the stated priority' % len(bad_prio), reason='table-row')
    rep.floor(rule, 'configurations evaluated', n, 1000)
    # the model of is_below used above must match the code
    bb, pb = rep.explore(ctx, ISBELOW, rule)
    if bb is not None:
        shapes = set()
        for p in pb:
            if p.end != 'return':
                continue
            has = [c for (v, c) in p.conds if strip_upd(v)[0] == 'discr']
            left = [c[1] for (v, c) in p.conds if show(noepoch(v)).endswith('.left')]
            r = strip_upd(p.ret)
            if r[0] == 'op' and r[1] == 'gt' and strip_upd(r[2])[0] == 'pcall' and (strip_upd(r[2])[1].endswith('orient2d') or strip_upd(r[2])[1].endswith('signed_area::signed_area')):
                pts = tuple(point_ent(q) if point_ent(q)[0] != '?' else ('p' if (strip_upd(q)[0] == 'param' or (strip_upd(q)[0] == 'agg' and strip_upd(strip_upd(q)[4][0])[1][0] == 'param')) else '?') for q in strip_upd(r[2])[2])
                shapes.add((left[0] if left else None, pts, strip_upd(r[3])[1][1] if strip_upd(r[3])[0] == 'c' else '?'))
            elif sym.is_const(r):
                shapes.add(('no-other', r[1]))
        exp = {(True, ('self', 'self.other_event', 'p'), '0.0'), (False, ('self.other_event', 'self', 'p'), '0.0'), ('no-other', False)}
        shapes2 = set()
        for s_ in shapes:
            if len(s_) == 3:
                shapes2.add((s_[0], tuple({'oself': 'self.other_event'}.get(x, x) for x in s_[1]), s_[2]))
            else:
                shapes2.add(s_)
        rep.ob(rule, 'is_below-model', shapes2 == exp,
               'is_below must be: left ? orient(self, other, p) > 0 : orient(other, self, p) > 0, false without other event; found %s' % sorted(map(str, shapes2)),
               loc=bb.loc(bb.j['line_lo']), reason='table-row')


# ------------------------------------------------------------------ compare_segments structure

def check_compare_segments(ctx, rep, rule_eq='O-equal-identity', rule_swap='O-swap'):
    b, ps = rep.explore(ctx, CS, rule_eq)
    if b is None:
        return
    groups = {True: [], False: []}
    n_eq = 0
    for p in ps:
        if p.end != 'return':
            continue
        c = ordering_const(p.ret)
        peq = None
        before = None
        for (v, cc) in p.conds:
            x = strip_upd(v)
            if x[0] in ('pcall', 'call') and x[1].endswith('::ptr_eq'):
                peq = cc[1]
            d = order_test(x, 'se1_l', 'se2_l')
            if d:
                # is_before(se1, se2) == (se1 > se2)
                before = bool(cc[1]) if d > 0 else (not cc[1])
        if c == 'Equal':
            n_eq += 1
            rep.ob(rule_eq, 'Equal-only-for-identical-segment', peq is True,
                   'compare_segments returns Equal on a path where Rc::ptr_eq(se1, se2) is %s: two distinct segments would be merged / lost in '
                   'the sweep line' % peq, loc=b.loc(b.j['line_lo']), reason='dominance')
            continue
        r = strip_upd(p.ret)
        if c is not None or r[0] != 'pcall' or r[1] not in (LESS_IF, LESS_IF_INV):
            rep.ob(rule_swap, 'result-through-selected-function', False,
                   'a non-Equal result of compare_segments is %s, not the result of the selected less_if / less_if_inversed'
                   % show(noepoch(r))[:60], loc=b.loc(b.j['line_lo']), reason='dominance')
            continue
        if before is None:
            rep.ob(rule_swap, 'temporal-order-tested', False, 'a path returns without having tested se1.is_before(se2)', loc=b.loc(b.j['line_lo']),
                   reason='dominance')
            continue
        # canonical signature with old/new names
        old, new = ('se1_l', 'se2_l') if before else ('se2_l', 'se1_l')
        def canon(s):
            return s.replace(old, 'OLD').replace(new, 'NEW')
        conds = []
        after = False
        for (v, cc) in p.conds:
            s = show(noepoch(v))
            x = strip_upd(v)
            if order_test(x, 'se1_l', 'se2_l'):
                after = True     # the is_before test itself: the decision logic proper starts here
                continue
            if not after:
                continue         # argument checks made before the roles (older, newer) are assigned
            conds.append((canon(s), str(cc)))
        groups[before].append((r[1], tuple(conds), canon(show(noepoch(r[2][0])))))
    rep.floor(rule_eq, 'Equal-returning paths', n_eq, 1)
    fT = set(g[0] for g in groups[True])
    fF = set(g[0] for g in groups[False])
    rep.ob(rule_swap, 'function-follows-swap', fT == {LESS_IF} and fF == {LESS_IF_INV},
           'when se1 is before se2 the result must go through less_if (found %s), otherwise through less_if_inversed (found %s)'
           % (sorted(short(x) for x in fT), sorted(short(x) for x in fF)), loc=b.loc(b.j['line_lo']), reason='table-row')
    sT = sorted(set((c, a) for (_, c, a) in groups[True]))
    sF = sorted(set((c, a) for (_, c, a) in groups[False]))
    diff = [x for x in sT if x not in sF][:1] + [x for x in sF if x not in sT][:1]
    rep.ob(rule_swap, 'same-decision-on-(old,new)', sT == sF and len(sT) > 0,
           'the decision logic must be one function of (older, newer) segment in both swap arms; %d vs %d distinct decision paths, e.g. %s'
           % (len(sT), len(sF), str(diff)[:300]), loc=b.loc(b.j['line_lo']), reason='table-row')
    rep.floor(rule_swap, 'decision paths per arm', len(sT), 10)


def _index_of(v, direct=False):
    """(symbolic part, constant) of the position in `vec[position]` (direct: v is the position itself)"""
    from rules.walkrules import _lin
    x = strip_upd(v)
    if not direct:
        while x[0] in ('deref', 'refval') and len(x) > 1:
            x = strip_upd(x[1])
        if x[0] not in ('call', 'pcall') or not re.search(r'ops::Index(Mut)?<.*>>::index(_mut)?$', x[1]) or len(x[2]) != 2:
            return None
        x = x[2][1]
    d, c = _lin(x, {})
    return (frozenset(d.items()), c)


def _check_bubble_flag(rep, rule, b, ps):
    """the passes are repeated until one of them swaps nothing: a flag that is reset at the start of every pass, flipped exactly by
    the swapping iterations, makes the first pass unconditional and ends the loop only in its reset state"""
    def flag_eval(v, loc, val):
        x = strip_upd(v)
        if sym.is_const(x) and isinstance(x[1], bool):
            return x[1]
        if x[0] == 'op' and x[1] == 'not':
            r = flag_eval(x[2], loc, val)
            return None if r is None else (not r)
        if x[0] == 'havoc' and x[2] == loc:
            return val
        return None

    # inner header: the loop whose iterations compare neighbours; outer header: the loop head seen before it on those paths
    inner = outer = None
    for p in ps:
        if p.end == 'backedge' and any(e['callee'].endswith('::swap') for e in p.calls()):
            heads = [e for e in p.events if e['k'] == 'loophead' and e.get('depth', 0) == 0]
            if len(heads) >= 2 and heads[-1]['bb'] == p.end_info:
                inner, outer = heads[-1], heads[-2]
    if inner is None:
        rep.ob(rule, 'bubble-repeat-until-no-swap', False, 'cannot find the pass loop inside a repeat loop in order_events',
               loc=b.loc(b.j['line_lo']), reason='cannot-tabulate')
        return
    def final_of(p, l):
        for k, v in p.final.mem.items():
            if k[0][0] == 'loc' and k[0][2] == l and k[1] == ():
                return strip_upd(v)
        return None

    inner_paths = [p for p in ps if p.end == 'backedge' and p.end_info == inner['bb']]
    swap_paths = [p for p in inner_paths if any(e['callee'].endswith('::swap') for e in p.calls())]
    cands = []
    for l, v in inner.get('pre', {}).items():
        v = strip_upd(v)
        if sym.is_const(v) and isinstance(v[1], bool) and swap_paths and \
                all(final_of(p, l) is not None and sym.is_const(final_of(p, l)) and final_of(p, l)[1] == (not v[1]) for p in swap_paths):
            cands.append(l)
    why = []
    if len(cands) != 1:
        why.append('no single boolean that is reset at the start of every pass and flipped by the swapping iterations (candidates: %s)' % cands)
    else:
        F = cands[0]
        v_pass = strip_upd(inner['pre'][F])[1]
        first = strip_upd(outer.get('pre', {}).get(F, ('c', None)))
        first_known = sym.is_const(first) and isinstance(first[1], bool)
        if first_known and first[1] == v_pass:
            why.append('the flag already has its "nothing swapped" value before the first pass, so no pass is made')
        for p in inner_paths:
            fin = final_of(p, F)
            if p not in swap_paths and not (fin is not None and fin[0] == 'havoc' and fin[2] == F):
                why.append('an iteration that does not swap changes the flag')
        # the decisions taken on the flag: (flag value, another pass follows)
        dec = set()
        for p in ps:
            evs = p.events
            for i, e in enumerate(evs):
                if e['k'] != 'branch' or e.get('depth', 0) != 0 or e['cond'][0] != 'eq':
                    continue
                vals = [val for val in (True, False) if flag_eval(e['val'], F, val) is not None and flag_eval(e['val'], F, val) == bool(e['cond'][1])]
                if len(vals) != 1:
                    continue
                again = any(x['k'] == 'loophead' and x['bb'] == inner['bb'] for x in evs[i:]) or (p.end == 'backedge' and p.end_info == outer['bb'])
                before_first_pass = not any(x['k'] == 'loophead' and x['bb'] == inner['bb'] for x in evs[:i])
                if before_first_pass and not first_known:
                    why.append('the flag is tested before the first pass without having a known value')
                dec.add((vals[0], again))
        want = {(not v_pass, True), (v_pass, False)}
        if dec != want:
            why.append('the repeat loop must go on exactly when the last pass swapped something; (flag value, another pass) pairs found: %s' % sorted(dec))
    rep.ob(rule, 'bubble-repeat-until-no-swap', not why,
           'order_events must repeat the pass until a pass swaps nothing: %s' % '; '.join(sorted(set(why))[:3]), loc=b.loc(b.j['line_lo']),
           reason='dominance')


def check_order_events(ctx, rep, rule='O-consumers'):
    """order_events must bring result_events into sweep order using the full event order (Ord of Rc<SweepEvent>, reversed):
    either the bubble sort that swaps neighbours exactly when result_events[i-1] < result_events[i], or a std sort whose
    comparator is `b.cmp(a)`"""
    b, ps = rep.explore(ctx, 'boolean::connect_edges::order_events', rule)
    if b is None:
        return
    seen = set()
    sort_calls = []
    for p in ps:
        for e in p.calls():
            if re.search(r'slice::<impl \[T\]>::(sort|sort_by|sort_unstable|sort_unstable_by|sort_by_key|sort_by_cached_key)$', e['callee']):
                sort_calls.append(e)
        swaps = [e for e in p.calls() if e['callee'].endswith('::swap')]
        ltc = None
        pair = None
        for (v, c) in p.conds:
            x = strip_upd(v)
            if x[0] == 'op' and x[1] in ('lt', 'gt') and 'index' in show(noepoch(x)):
                ia, ib = _index_of(x[2]), _index_of(x[3])
                if ia is None or ib is None or ia[0] != ib[0]:
                    ltc = ('other', show(noepoch(x))[:80])
                    continue
                d = ib[1] - ia[1]
                # ev[k] < ev[k+1]  ==  ev[k+1] > ev[k]
                if (x[1] == 'lt' and d == 1) or (x[1] == 'gt' and d == -1):
                    ltc = c[1]
                    pair = (ia[0], min(ia[1], ib[1]))
                else:
                    ltc = ('other', show(noepoch(x))[:80])
        if pair is not None and not isinstance(ltc, tuple) and swaps and 'swap' not in seen:
            seen.add('swap')
            # the swap exchanges the two compared positions
            for e in swaps:
                sw = [_index_of(a, direct=True) for a in e['args'][1:3]]
                ok_sw = None not in sw and sorted(sw, key=lambda t: t[1]) == [(pair[0], pair[1]), (pair[0], pair[1] + 1)]
                rep.ob(rule, 'bubble-swaps-the-compared-pair', ok_sw, 'order_events must swap the two positions it compared; it compares '
                       '(j%+d, j%+d) and swaps %s' % (pair[1], pair[1] + 1, [show(noepoch(a))[:40] for a in e['args'][1:3]]),
                       loc=b.loc(e['line']), reason='table-row')
        if pair is not None and not isinstance(ltc, tuple) and 'pass' not in seen:
            seen.add('pass')
            # one pass compares every adjacent pair: positions k = j + a for j in lo..hi must be 0 .. len-2
            rng = None
            for e in p.events:
                if e['k'] == 'loophead':
                    for v in e.get('pre', {}).values():
                        y = strip_upd(v)
                        while y[0] in ('call', 'pcall') and y[1].endswith('into_iter') and len(y[2]) == 1:
                            y = strip_upd(y[2][0])
                        if y[0] == 'agg' and y[5].endswith('::Range') and len(y[4]) == 2:
                            rng = y
            ok_r = False
            found = 'no index range'
            if rng is not None:
                from rules.walkrules import _lin
                hi_v = strip_upd(rng[4][1])
                sat = 0
                if hi_v[0] in ('call', 'pcall') and hi_v[1].endswith('::saturating_sub') and len(hi_v[2]) == 2 and sym.is_const(strip_upd(hi_v[2][1])):
                    # the number of neighbour pairs of n elements is max(n - 1, 0): the saturating form is the exact one
                    sat = int(strip_upd(hi_v[2][1])[1])
                    hi_v = hi_v[2][0]
                lo, hi = _lin(rng[4][0], {}), _lin(hi_v, {})
                hi = (hi[0], hi[1] - sat)
                found = show(noepoch(rng))[:80]
                hi_len = [k for k in hi[0] if 'len(' in k]
                ok_r = (not lo[0]) and lo[1] + pair[1] == 0 and len(hi[0]) == 1 and len(hi_len) == 1 and hi[0][hi_len[0]] == 1 and hi[1] + pair[1] == -1
            rep.ob(rule, 'bubble-pass-covers-all-neighbours', ok_r,
                   'one pass of the re-sorting loop must compare every adjacent pair (k, k+1) for k in 0..len-1; it compares (j%+d, j%+d) for j in %s'
                   % (pair[1], pair[1] + 1, found), loc=b.loc(b.j['line_lo']), reason='dominance')
        if ltc is None:
            continue
        ok = (bool(swaps) == (ltc is True)) and not isinstance(ltc, tuple)
        if (ltc if not isinstance(ltc, tuple) else 'other', ok) in seen:
            continue
        seen.add((ltc if not isinstance(ltc, tuple) else 'other', ok))
        rep.ob(rule, 'bubble-swap-iff-out-of-order:%s' % (ltc if not isinstance(ltc, tuple) else 'other'), ok,
               'order_events must swap result_events[i-1], result_events[i] exactly when result_events[i-1] < result_events[i] '
               '(later-before-earlier in the reversed order); test=%s, swaps=%d' % (ltc, len(swaps)), loc=b.loc(b.j['line_lo']), reason='table-row')
    if 'pass' in seen and not sort_calls:
        _check_bubble_flag(rep, rule, b, ps)
    if sort_calls:
        e = sort_calls[0]
        name = short(e['callee']).split('::')[-1]
        ok = False
        why = '%s' % name
        if name in ('sort_by', 'sort_unstable_by') and len(e['args']) == 2:
            c = strip_upd(e['args'][1])
            if c[0] == 'agg' and c[1] == 'closure':
                bc, pc = rep.explore(ctx, c[2], rule)
                shapes = set()
                for p in pc:
                    r = strip_upd(p.ret) if p.ret else ('c', 0)
                    if r[0] in ('call', 'pcall') and re.search(r'cmp::(Ord|PartialOrd)>?::(cmp|partial_cmp)$|as std::cmp::Ord>::cmp$', r[1]) and len(r[2]) == 2:
                        a0 = [y for y in sym.walk(r[2][0]) if y[0] == 'param']
                        a1 = [y for y in sym.walk(r[2][1]) if y[0] == 'param']
                        shapes.add((tuple(sorted(set(y[1] for y in a0))), tuple(sorted(set(y[1] for y in a1)))))
                    else:
                        shapes.add(('other', show(noepoch(r))[:60]))
                # closure params: (env, a, b) -> a is param 2, b is param 3; descending order is b.cmp(a)
                ok = shapes == {((3,), (2,))}
                why = 'sort_by comparator %s' % sorted(map(str, shapes))
        rep.ob(rule, 'sorted-by-full-event-order', ok,
               'order_events sorts with %s; result events must be ordered by the complete event order of SweepEvent (x, y, right-before-left, '
               'angular, operand) in sweep direction, i.e. `sort_by(|a, b| b.cmp(a))`: events at one vertex are walked in that order' % why,
               loc=b.loc(e['line']), reason='table-row')
    elif len([k for k in seen if isinstance(k, tuple)]) < 2:
        rep.ob(rule, 'result-events-are-ordered', False,
               'order_events neither bubble-sorts result_events with the event order nor calls a std sort', loc=b.loc(b.j['line_lo']),
               reason='anchor-missing')


# ------------------------------------------------------------ O-segment-oracle (decision list of compare_segments)

def _seg_atom(v, role):
    """structured atom of a condition / returned argument of compare_segments; role maps se1_l/se2_l -> OLD/NEW"""
    x = strip_upd(v)
    k = x[0]
    if sym.is_const(x):
        return ('const', x[1])
    if k == 'c' and isinstance(x[1], tuple) and x[1][0] == 'float':
        return ('const', float(x[1][1]))
    if k == 'op' and x[1] == 'not':
        return ('not', _seg_atom(x[2], role))
    if k == 'op' and len(x) == 4:
        return ('op', x[1], _seg_atom(x[2], role), _seg_atom(x[3], role))
    if k == 'pcall' and (x[1].endswith('orient2d') or x[1].endswith('signed_area::signed_area')):
        pts = tuple(_seg_point(q, role) for q in x[2])
        return ('orient', pts)
    if k == 'pcall' and x[1] == ISBELOW:
        return ('is_below', _seg_ent(x[2][0], role), _seg_point(x[2][1], role))
    if k == 'discr':
        inner = strip_upd(x[1])
        if inner[0] in ('pcall', 'call') and inner[1].endswith('segment_intersection::intersection'):
            return ('inter_kind', tuple(_seg_point(q, role) for q in inner[2]))
        return ('unknown', show(noepoch(x))[:60])
    if k == 'field':
        if x[2] == 'is_subject' or x[2] == 'contour_id':
            base = strip_upd(x[1])
            if base[0] == 'deref':
                return (x[2], _seg_ent(base[1], role))
        if x[2] in ('x', 'y'):
            p = _seg_point(x[1], role)
            if p[0] != '?':
                return ('coord', p, x[2])
        if x[2] == 'point':
            p = _seg_point(x, role)
            if p[0] != '?':
                return ('point', p)
        if str(x[2]) == '0' and strip_upd(x[1])[0] == 'variant' and strip_upd(x[1])[2] == 'Point':
            return ('inter_point',)
    return ('unknown', show(noepoch(x))[:60])


def _seg_ent(v, role):
    e = obj_root(v, {})
    for a, b in role.items():
        e = e.replace(a, b)
    return e.replace('OLD.other_event', 'OLDR').replace('NEW.other_event', 'NEWR')


def _seg_point(v, role):
    x = strip_upd(v)
    if x[0] == 'agg' and x[5].endswith('Coord') and len(x[4]) == 2:
        a = strip_upd(x[4][0])
        if a[0] == 'field' and a[2] == 'x':
            return _seg_point(a[1], role)
    if x[0] == 'field' and x[2] == 'point':
        base = strip_upd(x[1])
        if base[0] == 'deref':
            return _seg_ent(base[1], role)
    if x[0] == 'field' and str(x[2]) == '0' and strip_upd(x[1])[0] == 'variant' and strip_upd(x[1])[2] == 'Point':
        return 'INTER'
    return '?' + show(noepoch(x))[:30]


def _seg_eval(at, val):
    k = at[0]
    if k == 'const':
        return at[1]
    if k == 'not':
        return not _seg_eval(at[1], val)
    if k == 'orient':
        pts = at[1]
        if pts == ('OLD', 'OLDR', 'NEW'):
            return float(val['sl'])
        if pts == ('OLD', 'OLDR', 'NEWR'):
            return float(val['sr'])
        raise ValueError('orientation of %s' % (pts,))
    if k == 'is_below':
        if at[1:] == ('OLD', 'NEWR'):
            return val['isbelow']
        raise ValueError('is_below%s' % (at[1:],))
    if k == 'inter_kind':
        if at[1] == ('OLD', 'OLDR', 'NEW', 'NEWR'):
            return val['ik']
        raise ValueError('intersection%s' % (at[1],))
    if k == 'is_subject':
        return val['old_subj'] if at[1] == 'OLD' else (val['old_subj'] == val['same_subj'])
    if k == 'op':
        op, a, b = at[1], at[2], at[3]
        # comparisons of two points / coordinates / ids are atoms of their own
        if a[0] == 'point' and b[0] == 'point' and op in ('eq', 'ne'):
            names = {a[1], b[1]}
            if names == {'OLD', 'NEW'}:
                r = val['lp_eq']
            else:
                raise ValueError('point comparison %s' % sorted(names))
            return r if op == 'eq' else not r
        if (a[0] == 'inter_point' and b[0] == 'point') or (b[0] == 'inter_point' and a[0] == 'point'):
            other = b if a[0] == 'inter_point' else a
            if other[1] != 'NEW':
                raise ValueError('intersection point compared with %s' % other[1])
            return val['p_eq_newl'] if op == 'eq' else not val['p_eq_newl']
        if a[0] == 'coord' and b[0] == 'coord' and a[2] == b[2]:
            pair = (a[1], b[1])
            if set(pair) != {'OLD', 'NEW'}:
                raise ValueError('coordinate comparison %s' % (pair,))
            if a[2] == 'x' and op in ('eq', 'ne'):
                return val['x_eq'] if op == 'eq' else not val['x_eq']
            if a[2] == 'y' and op in ('lt', 'gt'):
                old_lt_new = val['y_lt']
                first_old = pair[0] == 'OLD'
                if op == 'lt':
                    return old_lt_new if first_old else (not old_lt_new and not val['lp_eq'])
                return (not old_lt_new and not val['lp_eq']) if first_old else old_lt_new
            if a[2] == 'y' and op in ('le', 'ge', 'eq', 'ne') and (val['x_eq'] or val['lp_eq']):
                # with equal x the y coordinates are equal exactly when the points are
                y_eq = val['lp_eq']
                old_lt_new = val['y_lt'] and not y_eq
                first_old = pair[0] == 'OLD'
                if op == 'eq':
                    return y_eq
                if op == 'ne':
                    return not y_eq
                first_lt_second = old_lt_new if first_old else (not old_lt_new and not y_eq)
                return (first_lt_second or y_eq) if op == 'le' else (not first_lt_second)
            raise ValueError('coordinate comparison %s %s' % (a[2], op))
        if a[0] == 'contour_id' and b[0] == 'contour_id':
            first_old = a[1] == 'OLD'
            if a[1] == b[1]:
                raise ValueError('contour id of %s compared with itself' % a[1])
            if op == 'lt':
                return val['cid_lt'] if first_old else not val['cid_lt']
            raise ValueError('contour id comparison %s' % op)
        if a[0] == 'is_subject' and b[0] == 'is_subject' and op in ('eq', 'ne'):
            same = True if a[1] == b[1] else val['same_subj']       # an event compared with itself is its own operand
            return same if op == 'eq' else not same
        x, y = _seg_eval(a, val), _seg_eval(b, val)
        return {'eq': x == y, 'ne': x != y, 'lt': x < y, 'gt': x > y, 'le': x <= y, 'ge': x >= y,
                'bitor': bool(x) or bool(y), 'bitand': bool(x) and bool(y), 'bitxor': bool(x) != bool(y)}[op]
    raise ValueError('atom %r' % (at,))


def _seg_oracle(v):
    """the documented decision list: argument of less_if for (older, newer) segment"""
    sl, sr = v['sl'], v['sr']
    if sl != 0 or sr != 0:
        if v['lp_eq']:
            return v['isbelow']
        if v['x_eq']:
            return v['y_lt']
        if (sl > 0) == (sr > 0):
            return sl > 0
        if sl == 0:
            return sr > 0
        if v['ik'] == 0:
            return sl > 0
        if v['ik'] == 1:
            return sr > 0 if v['p_eq_newl'] else sl > 0
    if v['same_subj']:
        if v['lp_eq']:
            return v['cid_lt']
        return True
    return v['old_subj']


def check_segment_oracle(ctx, rep, rule='O-segment-oracle'):
    b, ps = rep.explore(ctx, CS, rule)
    if b is None:
        return
    rows = {True: [], False: []}
    try:
        for p in ps:
            if p.end != 'return':
                continue
            r = strip_upd(p.ret)
            if r[0] != 'pcall' or r[1] not in (LESS_IF, LESS_IF_INV):
                continue
            before = None
            conds = []
            after = False
            for (v, cc) in p.conds:
                s = show(noepoch(v))
                x = strip_upd(v)
                d = order_test(x, 'se1_l', 'se2_l')
                if d:
                    before = bool(cc[1]) if d > 0 else (not cc[1])
                    after = True
                    continue
                if after:
                    conds.append((v, cc))
            if before is None:
                continue
            role = {'se1_l': 'OLD', 'se2_l': 'NEW'} if before else {'se2_l': 'OLD', 'se1_l': 'NEW'}
            crow = []
            missing_other = False
            for (v, cc) in conds:
                x = strip_upd(v)
                if x[0] == 'discr':
                    from rules.tables import weak_link
                    if weak_link(strip_upd(x[1]), {}):
                        # presence of the right events: the order is defined for segments that have both ends (debug builds
                        # assert it; in release builds the defensive path for a missing end is outside the table)
                        if cc != ('eq', 1):
                            missing_other = True
                        continue
                crow.append((_seg_atom(v, role), cc))
            if missing_other:
                continue
            rows[before].append((crow, _seg_atom(r[2][0], role)))
    except ValueError as e:
        rep.ob(rule, 'tabulable', False, 'cannot model compare_segments: %s' % e, loc=b.loc(b.j['line_lo']), reason='cannot-tabulate')
        return
    bad = []
    n = 0
    try:
        for arm in (True, False):
            for sl, sr, ik in itertools.product((-1, 0, 1), (-1, 0, 1), (0, 1, 2)):
                for lp_eq, x_eq, y_lt, p_eq, same, olds, cid, isb in itertools.product((False, True), repeat=8):
                    if lp_eq and (not x_eq or y_lt or sl != 0):
                        continue       # geometrically impossible
                    v = {'sl': sl, 'sr': sr, 'ik': ik, 'lp_eq': lp_eq, 'x_eq': x_eq, 'y_lt': y_lt, 'p_eq_newl': p_eq, 'same_subj': same,
                         'old_subj': olds, 'cid_lt': cid, 'isbelow': isb}
                    if (sl != 0 or sr != 0) and not lp_eq and not x_eq and (sl > 0) != (sr > 0) and sl != 0 and ik == 2:
                        pass           # overlap reported for non-collinear input: falls to the collinear logic (as documented)
                    outs = set()
                    for (conds, ret) in rows[arm]:
                        ok = True
                        for (at, cc) in conds:
                            val = _seg_eval(at, v)
                            want = cc[1]
                            if cc[0] == 'eq':
                                if isinstance(want, bool) or isinstance(val, bool):
                                    ok = bool(val) == bool(want)
                                else:
                                    ok = val == want
                            else:
                                ok = val not in cc[1]
                            if not ok:
                                break
                        if ok:
                            outs.add(bool(_seg_eval(ret, v)))
                    n += 1
                    exp = _seg_oracle(v)
                    if outs != {exp}:
                        bad.append((arm, dict(v), sorted(outs), exp))
    except ValueError as e:
        rep.ob(rule, 'tabulable', False, 'cannot evaluate compare_segments over the sign atoms: %s' % e, loc=b.loc(b.j['line_lo']),
               reason='cannot-tabulate')
        return
    rep.rows_compared += n
    for (arm, v, outs, exp) in bad[:5]:
        key = ','.join('%s=%s' % (k, int(x) if isinstance(x, bool) else x) for k, x in sorted(v.items()))
        rep.ob(rule, 'row:%s:%s' % ('older-first' if arm else 'swapped', key), False,
               'compare_segments decides less_if(%s) for (older, newer) in configuration %s; the documented decision list gives %s'
               % (outs, key, exp), loc=b.loc(b.j['line_lo']), reason='table-row', expected=exp, found=outs)
    rep.ob(rule, 'decision-list', not bad, '%d of %d configurations deviate from the documented decision list' % (len(bad), n), reason='table-row')
    rep.floor(rule, 'configurations evaluated', n, 7000)
