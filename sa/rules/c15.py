"""C15 the event order and the segment order (partly decided: never-Equal, antisymmetry and stated priority of the event
order over all sign configurations, Equal-iff-identical, swap pairing of compare_segments, consumers).  Transitivity and
agreement with the vertical order of real configurations are not decided."""
from rules import orderrules, sweeprules

LEVEL = 'other'
EXPLANATION = __doc__


def run(ctx, rep):
    orderrules.check_less_if(ctx, rep)
    orderrules.check_noequal(ctx, rep)
    orderrules.check_antisym(ctx, rep)
    orderrules.check_compare_segments(ctx, rep)
    orderrules.check_segment_oracle(ctx, rep)
    sweeprules.check_comparator(ctx, rep)
    orderrules.check_order_events(ctx, rep)
