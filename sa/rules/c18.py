"""C18 bounded stack for splay-tree work (decided for code recursion and teardown; remaining overwrite drops by ledger)."""
from rules import stackrules

LEVEL = 'other'
EXPLANATION = __doc__


def run(ctx, rep):
    cg, entries, reach = stackrules.check_norec(ctx, rep)
    ledger = stackrules.check_teardown(ctx, rep, cg, entries, reach)
    rep.ledger = ledger
    stackrules.check_events(ctx, rep, cg)
