"""C01 each operation returns the region it names (partly decided: the finite tables every output edge is selected
through, and the plumbing from the public entry points to them)."""
from rules import booltables as bt, oprules, cerules, pirules, segrules

LEVEL = 'other'
EXPLANATION = __doc__


def run(ctx, rep):
    bt.check_select(ctx, rep)
    bt.check_trans(ctx, rep, 'T-trans-normal', ['Normal'])
    bt.check_trans(ctx, rep, 'T-trans-coincident', ['SameTransition', 'DifferentTransition'])
    bt.check_prop(ctx, rep)
    bt.check_atom_models(ctx, rep)
    # the tables classify sub-segments: they give the named region only if every segment is split where another one meets it
    pirules.check_endpoint_guards(ctx, rep)
    # ... and two edges that cross are recognised as crossing: the classification crossing / parallel / collinear and the parameter
    # ranges of intersection() (seed s97 turned a nearly parallel crossing into 'parallel'; the region right of it was lost)
    segrules.check_ranges(ctx, rep)
    segrules.check_algebra(ctx, rep)
    oprules.check_trivial(ctx, rep)
    oprules.check_forward(ctx, rep)
    oprules.check_pipeline(ctx, rep)
    # the statement reads results polygon by polygon (exterior minus holes): hole assignment is part of the region
    bt.check_prev(ctx, rep)
    cerules.check_parent(ctx, rep)
    oprules.check_assemble(ctx, rep)
