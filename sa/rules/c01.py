"""C01 each operation returns the region it names (partly decided: the finite tables every output edge is selected
through, and the plumbing from the public entry points to them)."""
from rules import booltables as bt, oprules, cerules, pirules

LEVEL = 'other'
EXPLANATION = __doc__


def run(ctx, rep):
    bt.check_select(ctx, rep)
    bt.check_trans(ctx, rep, 'T-trans-normal', ['Normal'])
    bt.check_trans(ctx, rep, 'T-trans-coincident', ['SameTransition', 'DifferentTransition'])
    bt.check_prop(ctx, rep)
    bt.check_atom_models(ctx, rep)
    # the tables classify sub-segments: they give the named region only if every segment is split where another one meets it
    pirules.check_endpoint_guards(ctx, rep)
    oprules.check_trivial(ctx, rep)
    oprules.check_forward(ctx, rep)
    oprules.check_pipeline(ctx, rep)
    # the statement reads results polygon by polygon (exterior minus holes): hole assignment is part of the region
    bt.check_prev(ctx, rep)
    cerules.check_parent(ctx, rep)
    oprules.check_assemble(ctx, rep)
