"""Oracle tables written down from set theory / the Martinez-Rueda paper, independent of the code's formulation.

Conventions (DESIGN.md section 4): an edge belongs to operand P, Q is the other operand.  in_out = True means that
crossing the edge upward leaves P (P is inside just below, outside just above).  other_in_out = True means Q is
outside at the edge (just below it).  R(op, s, c) is membership in the result given membership in subject / clipping."""

OPS = ['Intersection', 'Difference', 'Union', 'Xor']
EDGE_TYPES = ['Normal', 'NonContributing', 'SameTransition', 'DifferentTransition']


def R(op, s, c):
    if op == 'Intersection':
        return s and c
    if op == 'Union':
        return s or c
    if op == 'Xor':
        return s != c
    if op == 'Difference':
        return s and not c
    raise ValueError(op)


def sides(edge_type, is_subject, in_out, other_in_out):
    """((s_below, c_below), (s_above, c_above)) or None when the row is geometrically inconsistent"""
    p_below, p_above = in_out, not in_out
    q_below = not other_in_out
    if edge_type == 'Normal':
        q_above = q_below
    elif edge_type == 'SameTransition':
        if q_below != p_below:
            return None
        q_above = p_above
    elif edge_type == 'DifferentTransition':
        if q_below == p_below:
            return None
        q_above = not q_below
    else:
        return None
    if is_subject:
        return (p_below, q_below), (p_above, q_above)
    return (q_below, p_below), (q_above, p_above)


def in_result(op, edge_type, is_subject, other_in_out):
    """an edge is a boundary of the result iff result membership differs across it; for every in_out that is
    geometrically possible the answer must be the same (asserted)"""
    if edge_type == 'NonContributing':
        return False
    answers = set()
    for in_out in (False, True):
        sd = sides(edge_type, is_subject, in_out, other_in_out)
        if sd is None:
            continue
        (sb, cb), (sa, ca) = sd
        answers.add(R(op, sb, cb) != R(op, sa, ca))
    assert len(answers) == 1, (op, edge_type, is_subject, other_in_out, answers)
    return answers.pop()


def transition(op, edge_type, is_subject, in_out, other_in_out):
    """'OutIn' iff the result is inside just above the edge; None for rows that cannot occur or are not selected"""
    sd = sides(edge_type, is_subject, in_out, other_in_out)
    if sd is None:
        return None
    if not in_result(op, edge_type, is_subject, other_in_out):
        return None
    (_, _), (sa, ca) = sd
    return 'OutIn' if R(op, sa, ca) else 'InOut'


def propagate(has_prev, same_operand, prev_vertical, p_in_out, p_other_in_out):
    """(in_out, other_in_out) of an edge from its predecessor in the sweep line.
    The strip between a non-vertical predecessor and the edge is the side *above* the predecessor; for a vertical
    predecessor ("above" = left) the strip to its right is its *below* side, so nothing has flipped yet."""
    if not has_prev:
        return (False, True)
    # membership of the predecessor's own operand P' and of the other operand Q' in the strip
    if prev_vertical:
        own_inside = p_in_out            # below side: inside iff in_out
    else:
        own_inside = not p_in_out        # above side
    other_inside = not p_other_in_out    # Q' does not change across the predecessor
    if same_operand:
        # the edge's operand is P': inside below the edge iff P' inside the strip
        return (own_inside, not other_inside)
    return (other_inside, not own_inside)


def twin_types(in_out_1, in_out_2):
    """(type of the lower twin, type of the upper twin) for coincident edges of different operands"""
    return ('SameTransition' if in_out_1 == in_out_2 else 'DifferentTransition', 'NonContributing')
