"""C03 every call returns (partly decided): RefCell discipline (no BorrowError), no recursion incl. drop glue, sentinel index
contradiction, ledger of panic-capable sites.  Termination of the sweep / bubble sort and the event bound are NOT decided."""
import json
import os
from rules import paniclib, stackrules, cerules
from rules.common import CallGraph, entry_bodies
import engine
import sym
from facts import callee_name

LEVEL = 'other'
EXPLANATION = __doc__
ASSUMPTIONS = ['termination of the sweep loop and of the bubble sort in order_events, the quadratic event bound and whether the '
               'debug assertions can fire depend on the float order of individual inputs and are not decided']


def run(ctx, rep):
    f = ctx.facts()
    paniclib.check_refcell(ctx, rep)
    cg, entries, reach = stackrules.check_norec(ctx, rep, rule='P-norec')
    ledger = stackrules.check_teardown(ctx, rep, cg, entries, reach, rule='P-norec-drop')
    local = sorted(n for n in reach if n in f.bodies)
    cerules.check_sentinel(ctx, rep, [n for n in local if 'connect_edges' in n or n.endswith('boolean_operation::{closure#1}')])
    # P-bounded-index: constant indices into the locally built `events` vector of possible_intersection
    b, ps = rep.explore(ctx, 'boolean::possible_intersection::possible_intersection', 'P-bounded-index')
    n_idx = 0
    for p in ps:
        for e in p.calls():
            if e['callee'].endswith('ops::Index<I>>::index') and 'Vec' in e['callee']:
                n_idx += 1
                if 'vec_oob' in e:
                    rep.ob('P-bounded-index', 'possible_intersection/events[%s]' % e['vec_oob'][0], False,
                           'events[%d] is read on a path where only %d elements were pushed: index out of bounds panic' % e['vec_oob'],
                           loc=b.loc(e['line']), reason='dominance')
                elif e['ret'][0] != 'refval':
                    rep.ob('P-bounded-index', 'possible_intersection/events-index-tracked', False,
                           'an index into a vector in possible_intersection is not a constant position of a locally built vector: %s'
                           % sym.show(sym.noepoch(e['args'][1]))[:60], loc=b.loc(e['line']), reason='cannot-tabulate')
    rep.ob('P-bounded-index', 'possible_intersection/all-constant-indices-in-range', True)
    # the floor guards against the rule silently not recognising the vector; when the function indexes no vector at all there is nothing to bound
    has_vec_index = any(callee_name(t_).endswith('ops::Index<I>>::index') and 'Vec' in callee_name(t_) for _, t_ in b.calls())
    if has_vec_index:
        rep.floor('P-bounded-index', 'index evaluations on paths', n_idx, 30)
    # P-inventory
    sites = paniclib.panic_sites(f, local)
    led = json.load(open(os.path.join(engine.VERIF, 'sa', 'rules', 'c03_ledger.json')))
    allowed = {tuple(e['key']): e for e in led['sites']}
    # totals per (file, kind, detail): a site that moved into another function of the same file is the same site
    def site_class(kind, what):
        # indexing a Vec (call Index::index) and indexing a slice (BoundsCheck assert) are the same kind of site
        if (kind, what) in (('call', 'index'), ('call', 'index_mut'), ('assert', 'BoundsCheck')):
            return ('index', '')
        return (kind, what)
    budget = {}
    for e in led['sites']:
        k = (e.get('file'),) + site_class(e['key'][1], e['key'][2])
        budget[k] = budget.get(k, 0) + e['count']
    used = {}
    for key, locs in sites.items():
        k = (locs[0].split(':')[0],) + site_class(key[1], key[2])
        used[k] = used.get(k, 0) + len(locs)
    n = 0
    for key, locs in sorted(sites.items()):
        n += len(locs)
        e = allowed.get(key)
        inst = '%s:%s:%s' % key
        fk = (locs[0].split(':')[0],) + site_class(key[1], key[2])
        within_file_budget = used.get(fk, 0) <= budget.get(fk, 0)
        if e is None and not within_file_budget:
            rep.ob('P-inventory', inst, False,
                   'new panic-capable site (%s %s in %s) that no rule here proves infallible and that is not in the confirmed ledger '
                   '(%d such sites in %s, the ledger confirms %d)' % (key[1], key[2], key[0], used.get(fk, 0), fk[0], budget.get(fk, 0)),
                   loc=locs[0], reason='inventory')
        elif e is not None and len(locs) > e['count'] and not within_file_budget:
            rep.ob('P-inventory', inst, False, '%d sites of %s %s in %s, the ledger confirms %d' % (len(locs), key[1], key[2], key[0], e['count']),
                   loc=locs[-1], reason='inventory')
        else:
            rep.ob('P-inventory', inst, True)
    rep.info['panic-capable sites'] = n
    rep.floor('P-inventory', 'panic-capable sites scanned', n, 60 if ctx.config == 'default' else 40)   # release: no debug/overflow asserts
    rep.ledger = [{'key': list(k), 'count': len(v), 'reason': allowed.get(k, {}).get('reason', '?')} for k, v in sorted(sites.items())][:80]
