"""M-inorder: every restructuring step of the splay tree preserves the in-order sequence of nodes (symbolically).

The tree reachable from a box value at the end of a path is read out of the path's memory: a child field that was
written on the path has the written value, a child field that was not written is the *original* subtree of that node (an
atomic symbol).  The in-order sequence is a list of node / original-subtree tokens; a rule compares the sequence before a
step with the sequence after it.  Used by C17."""
import re
import sym
from sym import show, noepoch, strip_upd, short
from rules.stackrules import is_none

T = 'splay::tree::SplayTree::<K, V, C>::'
IT = '<splay::tree::IntoIter<K, V> as std::iter::'


class Shape:
    def __init__(self, p):
        self.mem = {}
        for k, v in p.final.mem.items():
            if k[0][0] == 'ext':
                self.mem[(noepoch(strip_upd(k[0][1])), k[1])] = v
        self.p = p

    def child(self, box, field):
        """(value, written?) of the child field of the node a box denotes"""
        b = noepoch(strip_upd(box))
        key = (('boxptr', b), (('f', field),))
        if key in self.mem:
            return self.mem[key], True
        bb = strip_upd(box)
        if bb[0] == 'call' and bb[1].endswith('Box::<T>::new') and len(bb[2]) == 1:
            agg = strip_upd(bb[2][0])
            if agg[0] == 'agg' and field in agg[3]:
                return agg[4][agg[3].index(field)], True
        return ('orig', b, field), False

    def seq_opt(self, opt, depth=0):
        o = strip_upd(opt)
        if depth > 12:
            return [('deep',)]
        if o[0] == 'orig':
            return [('sub', o[1], o[2])]
        if is_none(o):
            return []
        if o[0] == 'agg' and o[1] == 'adt' and o[2] == 'Some' and o[5].endswith('Option'):
            return self.seq_box(o[4][0], depth + 1)
        # an unwritten child that was loaded earlier: *box(X).left  ->  the original subtree of X
        if o[0] == 'field' and o[2] in ('left', 'right'):
            inner = strip_upd(o[1])
            if inner[0] == 'deref' and strip_upd(inner[1])[0] == 'boxptr':
                return [('sub', noepoch(strip_upd(strip_upd(inner[1])[1])), o[2])]
        return [('opaque', show(noepoch(o))[:80])]

    def seq_box(self, box, depth=0):
        l, _ = self.child(box, 'left')
        r, _ = self.child(box, 'right')
        return self.seq_opt(l, depth) + [('node', noepoch(strip_upd(box)))] + self.seq_opt(r, depth)

    def original(self, box):
        b = noepoch(strip_upd(box))
        return [('sub', b, 'left'), ('node', b), ('sub', b, 'right')]


def fmt(seq):
    out = []
    for t in seq:
        if t[0] == 'node':
            out.append('[%s]' % show(t[1])[-28:])
        elif t[0] == 'sub':
            out.append('%s(%s)' % (t[2][0].upper(), show(t[1])[-22:]))
        else:
            out.append('?%s' % (t[1:] and str(t[1])[:30]))
    return ' '.join(out) or '(empty)'


def cmp_ordering(p):
    for (v, c) in p.conds:
        x = strip_upd(v)
        if x[0] == 'discr':
            y = strip_upd(x[1])
            if y[0] in ('call', 'pcall') and y[1].endswith('Fn::call') and c[0] == 'eq':
                return {255: 'Less', 0: 'Equal', 1: 'Greater'}.get(c[1])
    return None


def root_slot_box(sh, p):
    """box currently stored in the root slot (written on the path), else None"""
    for (base, pth), v in sh.mem.items():
        if pth == (('v', 'Some'), ('f', '0')) and base[0] in ('pcall', 'call') and base[1].endswith('UnsafeCell::<T>::get'):
            return v
    return None


def root_slot_opt(sh, p):
    for (base, pth), v in sh.mem.items():
        if pth == () and base[0] in ('pcall', 'call') and base[1].endswith('UnsafeCell::<T>::get'):
            return v
    return None


def splay_target(p):
    """the box handed to the first splay() call on the path (the root at that time)"""
    for e in p.calls():
        if e['callee'].endswith('tree::splay'):
            a = strip_upd(e['args'][1])
            if a[0] == 'ref' and a[1][0][0] == 'ext':
                # &mut slot.Some.0 : the box stored in the slot
                return ('field', ('variant', ('deref', a[1][0][1], 0), 'Some'), '0'), e
            return None, e
    return None, None


def check_insert(ctx, rep, rule='M-inorder'):
    b, ps = rep.explore(ctx, T + 'insert', rule)
    if b is None:
        return
    seen = set()
    for p in ps:
        if p.end != 'return':
            continue
        sh = Shape(p)
        o = cmp_ordering(p)
        newroot = root_slot_box(sh, p)
        whole = root_slot_opt(sh, p)
        if o is None:
            # empty tree: the slot becomes Some(new node without children)
            ok = whole is not None and len(sh.seq_opt(whole)) == 1 and sh.seq_opt(whole)[0][0] == 'node'
            rep.ob(rule, 'insert:empty-tree', ok, 'insert into an empty tree must make the new childless node the root; root becomes %s'
                   % (fmt(sh.seq_opt(whole)) if whole is not None else 'unchanged'), loc=b.loc(b.j['line_lo']), reason='table-row')
            continue
        # the old root R as seen by the stores on this path: the box popped / linked
        old = None
        for (base, pth), v in sh.mem.items():
            if base[0] == 'boxptr' and pth in ((('f', 'left'),), (('f', 'right'),)) and is_none(v):
                old = base[1]
        if o == 'Equal':
            structural = [k for k in sh.mem if k[1] in ((('f', 'left'),), (('f', 'right'),), (('v', 'Some'), ('f', '0')))]
            ok = not structural
            key = 'insert:Equal'
            exp = 'no restructuring (value replaced)'
            got = 'writes to %s' % [k[1] for k in structural]
        else:
            if newroot is None or old is None:
                ok, key, exp, got = False, 'insert:%s' % o, 'new root linked', 'root slot not written / old root not found'
            else:
                after = sh.seq_box(newroot)
                R = ('node', old)
                N = ('node', noepoch(strip_upd(newroot)))
                L, Rt = ('sub', old, 'left'), ('sub', old, 'right')
                exp_seq = [L, N, R, Rt] if o == 'Less' else [L, R, N, Rt]
                ok = after == exp_seq
                key = 'insert:%s' % o
                exp, got = fmt(exp_seq), fmt(after)
        if (key, ok) in seen:
            continue
        seen.add((key, ok))
        rep.ob(rule, key, ok, 'in-order sequence after insert (%s): expected %s, found %s' % (o, exp, got), loc=b.loc(b.j['line_lo']),
               reason='table-row', expected=exp, found=got)
    rep.floor(rule, 'insert cases', len(seen), 3)


def check_remove(ctx, rep, rule='M-inorder'):
    b, ps = rep.explore(ctx, T + 'remove', rule)
    if b is None:
        return
    seen = set()
    for p in ps:
        if p.end != 'return':
            continue
        r = strip_upd(p.ret)
        if not (r[0] == 'agg' and r[2] == 'Some'):
            continue           # not found: nothing may be relinked (only the splay calls restructure)
        sh = Shape(p)
        whole = root_slot_opt(sh, p)
        after = sh.seq_opt(whole) if whole is not None else [('opaque', 'root slot not written')]
        # the removed root: the box unwrapped from the taken slot
        removed = None
        for e in p.calls():
            if e['callee'].endswith('Option::<T>::unwrap'):
                removed = noepoch(strip_upd(e['ret']))
        has_left = None
        for (v, c) in p.conds:
            x = strip_upd(v)
            if x[0] == 'discr' and 'left' in show(noepoch(x)) and 'unwrap' in show(noepoch(x)):
                has_left = (c == ('eq', 1))
        if removed is None or has_left is None:
            rep.ob(rule, 'remove:shape', False, 'remove(): cannot find the unwrapped root / the test of its left subtree', loc=b.loc(b.j['line_lo']),
                   reason='cannot-tabulate')
            continue
        Rt = ('sub', removed, 'right')
        if not has_left:
            ok = after == [Rt]
            key, exp = 'remove:no-left-subtree', fmt([Rt])
        else:
            # left subtree splayed for the removed key: its new root M (maximum, no right child) gets the right subtree
            ok = len(after) == 3 and after[0][0] == 'sub' and after[0][2] == 'left' and after[1][0] == 'node' and after[0][1] == after[1][1] \
                and after[2] == Rt and 'splay' in show(after[1][1])
            key, exp = 'remove:with-left-subtree', 'L(M) [M] ' + fmt([Rt]) + '  with M = root of the splayed left subtree'
        if (key, ok) in seen:
            continue
        seen.add((key, ok))
        rep.ob(rule, key, ok, 'in-order sequence after remove: expected %s, found %s' % (exp, fmt(after)), loc=b.loc(b.j['line_lo']),
               reason='table-row', expected=exp, found=fmt(after))
    rep.floor(rule, 'remove cases', len(seen), 2)
    rep.assumptions.append('remove(): the right child of the splayed left subtree\'s root is vacant (splay brings the maximum to the root); '
                           'M-inorder checks the re-linking around it')


def check_into_iter(ctx, rep, rule='M-inorder'):
    for fn, first, second in ((IT + 'Iterator>::next', 'left', 'right'), (IT + 'DoubleEndedIterator>::next_back', 'right', 'left')):
        b, ps = rep.explore(ctx, fn, rule)
        if b is None:
            continue
        name = short(fn).split('::')[-1]
        seen = set()
        for p in ps:
            lh = [e for e in p.events if e['k'] == 'loophead']
            if not lh:
                continue
            sh = Shape(p)
            # the loop-carried box: a havoc'd local whose final value (or itself) is a node
            fid = None
            cur_before = None
            cur_local = None
            cands = [l for l in lh[0].get('pre', {}) if b.locals[l]['ty'].startswith('std::boxed::Box<splay::node::Node<')]
            # the loop-carried node is the one the path tests (it is what the loop condition looks at)
            for l in cands:
                hv = ('havoc', lh[0]['bb'], l)
                if any(hv in list(sym.walk(v)) for (v, c) in p.conds):
                    cur_local = l
            if cur_local is None:
                rep.ob(rule, '%s:shape' % name, False, '%s: no loop-carried Box<Node> found' % name, loc=b.loc(b.j['line_lo']), reason='cannot-tabulate')
                break
            X = ('havoc', lh[0]['bb'], cur_local)
            before = sh.original(X)
            if p.end == 'backedge':
                # one rotation: the first-side child Y becomes the current node; the sequence must be unchanged
                final = None
                for k, v in p.final.mem.items():
                    if k[0][0] == 'loc' and k[0][2] == cur_local and k[1] == ():
                        final = v
                if final is None:
                    continue
                Y = noepoch(strip_upd(final))
                after = sh.seq_box(final)
                # before, with the first-side subtree of X expanded into Y's original parts
                exp = []
                for tkn in before:
                    if tkn == ('sub', noepoch(X), first):
                        exp += [('sub', Y, 'left'), ('node', Y), ('sub', Y, 'right')]
                    else:
                        exp.append(tkn)
                ok = after == exp
                key = '%s:rotation' % name
                rep_exp, rep_got = fmt(exp), fmt(after)
            elif p.end == 'return' and strip_upd(p.ret)[0] == 'agg' and strip_upd(p.ret)[2] == 'Some':
                # exit: X has no first-side child; X's key/value are yielded and the iterator keeps X's other subtree
                kept = None
                for (base, pth), v in sh.mem.items():
                    if pth == (('f', 'cur'),):
                        kept = v
                yielded = show(noepoch(strip_upd(p.ret)))
                ok = kept is not None and sh.seq_opt(kept) == [('sub', noepoch(X), second)] and yielded.count('havoc') >= 2 \
                    and '.key' in yielded and '.value' in yielded
                key = '%s:yield' % name
                rep_exp = 'yield (key, value) of the current node, keep its %s subtree' % second
                rep_got = 'keeps %s, yields %s' % (fmt(sh.seq_opt(kept)) if kept is not None else 'nothing', yielded[:80])
            else:
                continue
            if (key, ok) in seen:
                continue
            seen.add((key, ok))
            rep.ob(rule, key, ok, '%s: expected %s, found %s' % (key, rep_exp, rep_got), loc=b.loc(b.j['line_lo']), reason='table-row',
                   expected=rep_exp, found=rep_got)
        rep.floor(rule, '%s cases' % name, len(seen), 2)
