"""M-inorder: every restructuring step of the splay tree preserves the in-order sequence of nodes (symbolically).

The tree reachable from a box value at the end of a path is read out of the path's memory: a child field that was
written on the path has the written value, a child field that was not written is the *original* subtree of that node (an
atomic symbol).  The in-order sequence is a list of node / original-subtree tokens; a rule compares the sequence before a
step with the sequence after it.  Used by C17."""
import re
import sym
from sym import show, noepoch, strip_upd, short
from rules.stackrules import is_none

T = 'splay::tree::SplayTree::<K, V, C>::'
IT = '<splay::tree::IntoIter<K, V> as std::iter::'


class Shape:
    def __init__(self, p):
        self.mem = {}
        for k, v in p.final.mem.items():
            if k[0][0] == 'ext':
                self.mem[(noepoch(strip_upd(k[0][1])), k[1])] = v
        self.p = p

    def child(self, box, field):
        """(value, written?) of the child field of the node a box denotes"""
        b = noepoch(strip_upd(box))
        key = (('boxptr', b), (('f', field),))
        if key in self.mem:
            return self.mem[key], True
        bb = strip_upd(box)
        if bb[0] == 'call' and bb[1].endswith('Box::<T>::new') and len(bb[2]) == 1:
            agg = strip_upd(bb[2][0])
            if agg[0] == 'agg' and field in agg[3]:
                return agg[4][agg[3].index(field)], True
        return ('orig', b, field), False

    def seq_opt(self, opt, depth=0):
        o = strip_upd(opt)
        if depth > 12:
            return [('deep',)]
        if o[0] == 'orig':
            return [('sub', o[1], o[2])]
        if is_none(o):
            return []
        if o[0] == 'agg' and o[1] == 'adt' and o[2] == 'Some' and o[5].endswith('Option'):
            return self.seq_box(o[4][0], depth + 1)
        # an unwritten child that was loaded earlier: *box(X).left  ->  the original subtree of X
        if o[0] == 'field' and o[2] in ('left', 'right'):
            inner = strip_upd(o[1])
            if inner[0] == 'deref' and strip_upd(inner[1])[0] == 'boxptr':
                return [('sub', noepoch(strip_upd(strip_upd(inner[1])[1])), o[2])]
        return [('opaque', show(noepoch(o))[:80])]

    def seq_box(self, box, depth=0):
        l, _ = self.child(box, 'left')
        r, _ = self.child(box, 'right')
        return self.seq_opt(l, depth) + [('node', noepoch(strip_upd(box)))] + self.seq_opt(r, depth)

    def original(self, box):
        b = noepoch(strip_upd(box))
        return [('sub', b, 'left'), ('node', b), ('sub', b, 'right')]


def fmt(seq):
    out = []
    for t in seq:
        if t[0] == 'node':
            out.append('[%s]' % show(t[1])[-28:])
        elif t[0] == 'sub':
            out.append('%s(%s)' % (t[2][0].upper(), show(t[1])[-22:]))
        else:
            out.append('?%s' % (t[1:] and str(t[1])[:30]))
    return ' '.join(out) or '(empty)'


def cmp_ordering(p):
    for (v, c) in p.conds:
        x = strip_upd(v)
        if x[0] == 'discr':
            y = strip_upd(x[1])
            if y[0] in ('call', 'pcall') and y[1].endswith('Fn::call') and c[0] == 'eq':
                return {255: 'Less', 0: 'Equal', 1: 'Greater'}.get(c[1])
    return None


def root_slot_box(sh, p):
    """box currently stored in the root slot (written on the path), else None"""
    for (base, pth), v in sh.mem.items():
        if pth == (('v', 'Some'), ('f', '0')) and base[0] in ('pcall', 'call') and base[1].endswith('UnsafeCell::<T>::get'):
            return v
    return None


def root_slot_opt(sh, p):
    for (base, pth), v in sh.mem.items():
        if pth == () and base[0] in ('pcall', 'call') and base[1].endswith('UnsafeCell::<T>::get'):
            return v
    return None


def splay_target(p):
    """the box handed to the first splay() call on the path (the root at that time)"""
    for e in p.calls():
        if e['callee'].endswith('tree::splay'):
            a = strip_upd(e['args'][1])
            if a[0] == 'ref' and a[1][0][0] == 'ext':
                # &mut slot.Some.0 : the box stored in the slot
                return ('field', ('variant', ('deref', a[1][0][1], 0), 'Some'), '0'), e
            return None, e
    return None, None


def check_insert(ctx, rep, rule='M-inorder'):
    b, ps = rep.explore(ctx, T + 'insert', rule)
    if b is None:
        return
    seen = set()
    for p in ps:
        if p.end != 'return':
            continue
        sh = Shape(p)
        o = cmp_ordering(p)
        newroot = root_slot_box(sh, p)
        whole = root_slot_opt(sh, p)
        if o is None:
            # empty tree: the slot becomes Some(new node without children)
            ok = whole is not None and len(sh.seq_opt(whole)) == 1 and sh.seq_opt(whole)[0][0] == 'node'
            rep.ob(rule, 'insert:empty-tree', ok, 'insert into an empty tree must make the new childless node the root; root becomes %s'
                   % (fmt(sh.seq_opt(whole)) if whole is not None else 'unchanged'), loc=b.loc(b.j['line_lo']), reason='table-row')
            continue
        # the old root R as seen by the stores on this path: the box popped / linked
        old = None
        for (base, pth), v in sh.mem.items():
            if base[0] == 'boxptr' and pth in ((('f', 'left'),), (('f', 'right'),)) and is_none(v):
                old = base[1]
        if o == 'Equal':
            structural = [k for k in sh.mem if k[1] in ((('f', 'left'),), (('f', 'right'),), (('v', 'Some'), ('f', '0')))]
            ok = not structural
            key = 'insert:Equal'
            exp = 'no restructuring (value replaced)'
            got = 'writes to %s' % [k[1] for k in structural]
        else:
            if newroot is None or old is None:
                ok, key, exp, got = False, 'insert:%s' % o, 'new root linked', 'root slot not written / old root not found'
            else:
                after = sh.seq_box(newroot)
                R = ('node', old)
                N = ('node', noepoch(strip_upd(newroot)))
                L, Rt = ('sub', old, 'left'), ('sub', old, 'right')
                exp_seq = [L, N, R, Rt] if o == 'Less' else [L, R, N, Rt]
                ok = after == exp_seq
                key = 'insert:%s' % o
                exp, got = fmt(exp_seq), fmt(after)
        if (key, ok) in seen:
            continue
        seen.add((key, ok))
        rep.ob(rule, key, ok, 'in-order sequence after insert (%s): expected %s, found %s' % (o, exp, got), loc=b.loc(b.j['line_lo']),
               reason='table-row', expected=exp, found=got)
    rep.floor(rule, 'insert cases', len(seen), 3)


def check_remove(ctx, rep, rule='M-inorder'):
    b, ps = rep.explore(ctx, T + 'remove', rule)
    if b is None:
        return
    seen = set()
    for p in ps:
        if p.end != 'return':
            continue
        r = strip_upd(p.ret)
        if not (r[0] == 'agg' and r[2] == 'Some'):
            continue           # not found: nothing may be relinked (only the splay calls restructure)
        sh = Shape(p)
        whole = root_slot_opt(sh, p)
        after = sh.seq_opt(whole) if whole is not None else [('opaque', 'root slot not written')]
        # the removed root: the box unwrapped from the taken slot
        removed = None
        for e in p.calls():
            if e['callee'].endswith('Option::<T>::unwrap'):
                removed = noepoch(strip_upd(e['ret']))
        has_left = None
        for (v, c) in p.conds:
            x = strip_upd(v)
            if x[0] == 'discr' and 'left' in show(noepoch(x)) and 'unwrap' in show(noepoch(x)):
                has_left = (c == ('eq', 1))
        if removed is None or has_left is None:
            rep.ob(rule, 'remove:shape', False, 'remove(): cannot find the unwrapped root / the test of its left subtree', loc=b.loc(b.j['line_lo']),
                   reason='cannot-tabulate')
            continue
        Rt = ('sub', removed, 'right')
        if not has_left:
            ok = after == [Rt]
            key, exp = 'remove:no-left-subtree', fmt([Rt])
        else:
            # left subtree splayed for the removed key: its new root M (maximum, no right child) gets the right subtree
            ok = len(after) == 3 and after[0][0] == 'sub' and after[0][2] == 'left' and after[1][0] == 'node' and after[0][1] == after[1][1] \
                and after[2] == Rt and 'splay' in show(after[1][1])
            key, exp = 'remove:with-left-subtree', 'L(M) [M] ' + fmt([Rt]) + '  with M = root of the splayed left subtree'
        if (key, ok) in seen:
            continue
        seen.add((key, ok))
        rep.ob(rule, key, ok, 'in-order sequence after remove: expected %s, found %s' % (exp, fmt(after)), loc=b.loc(b.j['line_lo']),
               reason='table-row', expected=exp, found=fmt(after))
    rep.floor(rule, 'remove cases', len(seen), 2)
    rep.assumptions.append('remove(): the right child of the splayed left subtree\'s root is vacant (splay brings the maximum to the root); '
                           'M-inorder checks the re-linking around it')


def check_into_iter(ctx, rep, rule='M-inorder'):
    for fn, first, second in ((IT + 'Iterator>::next', 'left', 'right'), (IT + 'DoubleEndedIterator>::next_back', 'right', 'left')):
        b, ps = rep.explore(ctx, fn, rule)
        if b is None:
            continue
        name = short(fn).split('::')[-1]
        seen = set()
        for p in ps:
            lh = [e for e in p.events if e['k'] == 'loophead']
            if not lh:
                continue
            sh = Shape(p)
            # the loop-carried box: a havoc'd local whose final value (or itself) is a node
            fid = None
            cur_before = None
            cur_local = None
            cands = [l for l in lh[0].get('pre', {}) if b.locals[l]['ty'].startswith('std::boxed::Box<splay::node::Node<')]
            # the loop-carried node is the one the path tests (it is what the loop condition looks at)
            for l in cands:
                hv = ('havoc', lh[0]['bb'], l)
                if any(hv in list(sym.walk(v)) for (v, c) in p.conds):
                    cur_local = l
            if cur_local is None:
                rep.ob(rule, '%s:shape' % name, False, '%s: no loop-carried Box<Node> found' % name, loc=b.loc(b.j['line_lo']), reason='cannot-tabulate')
                break
            X = ('havoc', lh[0]['bb'], cur_local)
            before = sh.original(X)
            if p.end == 'backedge':
                # one rotation: the first-side child Y becomes the current node; the sequence must be unchanged
                final = None
                for k, v in p.final.mem.items():
                    if k[0][0] == 'loc' and k[0][2] == cur_local and k[1] == ():
                        final = v
                if final is None:
                    continue
                Y = noepoch(strip_upd(final))
                after = sh.seq_box(final)
                # before, with the first-side subtree of X expanded into Y's original parts
                exp = []
                for tkn in before:
                    if tkn == ('sub', noepoch(X), first):
                        exp += [('sub', Y, 'left'), ('node', Y), ('sub', Y, 'right')]
                    else:
                        exp.append(tkn)
                ok = after == exp
                key = '%s:rotation' % name
                rep_exp, rep_got = fmt(exp), fmt(after)
            elif p.end == 'return' and strip_upd(p.ret)[0] == 'agg' and strip_upd(p.ret)[2] == 'Some':
                # exit: X has no first-side child; X's key/value are yielded and the iterator keeps X's other subtree
                kept = None
                for (base, pth), v in sh.mem.items():
                    if pth == (('f', 'cur'),):
                        kept = v
                yielded = show(noepoch(strip_upd(p.ret)))
                ok = kept is not None and sh.seq_opt(kept) == [('sub', noepoch(X), second)] and yielded.count('havoc') >= 2 \
                    and '.key' in yielded and '.value' in yielded
                key = '%s:yield' % name
                rep_exp = 'yield (key, value) of the current node, keep its %s subtree' % second
                rep_got = 'keeps %s, yields %s' % (fmt(sh.seq_opt(kept)) if kept is not None else 'nothing', yielded[:80])
            else:
                continue
            if (key, ok) in seen:
                continue
            seen.add((key, ok))
            rep.ob(rule, key, ok, '%s: expected %s, found %s' % (key, rep_exp, rep_got), loc=b.loc(b.j['line_lo']), reason='table-row',
                   expected=rep_exp, found=rep_got)
        rep.floor(rule, '%s cases' % name, len(seen), 2)


# ---------------------------------------------------------------------------------- splay(): the top-down loop

def _local_final(b, p, l):
    for k, v in p.final.mem.items():
        if k[0][0] == 'loc' and k[0][2] == l and k[1] == ():
            return v
    return None


def _expand(seq, mentioned):
    """expand original-subtree tokens whose root node is mentioned in `mentioned` (a set of node ids)"""
    changed = True
    out = list(seq)
    guard = 0
    while changed and guard < 8:
        guard += 1
        changed = False
        nxt = []
        for tkn in out:
            if tkn[0] == 'sub':
                child = noepoch(('field', ('variant', ('field', ('deref', ('boxptr', tkn[1]), 0), tkn[2]), 'Some'), '0'))
                cands = [m for m in mentioned if _same_child(m, tkn[1], tkn[2])]
                if cands:
                    y = cands[0]
                    nxt += [('sub', y, 'left'), ('node', y), ('sub', y, 'right')]
                    changed = True
                    continue
            nxt.append(tkn)
        out = nxt
    return out


def _same_child(m, parent, field):
    """is node id m the payload of parent's original FIELD subtree: (*box(parent).FIELD as Some).0"""
    x = m
    if x[0] == 'field' and str(x[2]) == '0' and x[1][0] == 'variant' and x[1][2] == 'Some':
        src = x[1][1]
        if src[0] == 'field' and src[2] == field and src[1][0] == 'deref' and src[1][1][0] == 'boxptr':
            return noepoch(src[1][1][1]) == parent
    return False


def check_splay(ctx, rep, rule='M-inorder'):
    b, ps = rep.explore(ctx, 'splay::tree::splay', rule)
    if b is None:
        return
    # the two hole pointers: loop-carried locals of type &mut Option<Box<Node>>; the slot parameter `node`
    hole_ty = '&mut std::option::Option<std::boxed::Box<splay::node::Node<K, V>>>'
    seen = set()
    n_iter = n_exit = 0
    base_checked = False
    for p in ps:
        lh = [e for e in p.events if e['k'] == 'loophead']
        if not lh:
            continue
        h = lh[0]['bb']
        holes = [l for l in lh[0].get('pre', {}) if b.locals[l]['ty'] == hole_ty]
        sh = Shape(p)
        # base case: before the loop the holes are the two (empty) accumulator roots
        if not base_checked:
            base_checked = True
            ok = len(holes) >= 2
            for l in holes:
                pv = strip_upd(lh[0]['pre'][l])
                if pv[0] == 'undef':
                    continue
                ok = ok and pv[0] == 'ref' and pv[1][0][0] == 'loc' and is_none(lh[0]['pre'].get(pv[1][0][2], ('c', 0)))
            rep.ob(rule, 'splay:base', ok, 'before the loop both link slots must be the roots of two empty assembly trees; found %s'
                   % {l: show(lh[0]['pre'][l])[:50] for l in holes}, loc=b.loc(b.j['line_lo']), reason='table-row')
        # the current node at the loop head: the box in the slot `node` points to
        slot_key = (noepoch(('param', 2, 'node')), ())
        X = None
        for e in p.events:
            if e['k'] == 'call' and e['callee'].endswith('Fn::call'):
                # comparator(key, &node.key): the node whose key is compared first
                a = strip_upd(e['args'][1])
                if a[0] == 'agg' and len(a[4]) == 2:
                    kref = strip_upd(a[4][1])
                    if kref[0] == 'ref' and kref[1][0][0] == 'ext' and strip_upd(kref[1][0][1])[0] == 'boxptr':
                        X = noepoch(strip_upd(strip_upd(kref[1][0][1])[1]))
                        break
        if X is None:
            continue
        o = cmp_ordering(p)
        before = [('sub', X, 'left'), ('node', X), ('sub', X, 'right')]
        cur_after = sh.mem.get(slot_key)
        writes = {}
        for l in holes:
            hv = noepoch(('havoc', h, l))
            if (hv, ()) in sh.mem:
                writes[l] = sh.mem[(hv, ())]
        if p.end == 'backedge':
            n_iter += 1
            if cur_after is None:
                rep.ob(rule, 'splay:%s-step' % o, False, 'an iteration does not move to a child', loc=b.loc(b.j['line_lo']), reason='table-row')
                continue
            seq_cur = sh.seq_box(cur_after)
            added = {}
            ok = True
            why = ''
            for l, val in writes.items():
                seq = sh.seq_opt(val)
                newhole = strip_upd(_local_final(b, p, l) or ('c', 0))
                # the new link slot must be a vacant child field of a node of the subtree just linked, at its inner end
                hole_tok = None
                if newhole[0] == 'ref' and newhole[1][0][0] == 'ext' and strip_upd(newhole[1][0][1])[0] == 'boxptr' and len(newhole[1][1]) == 1:
                    hb = noepoch(strip_upd(strip_upd(newhole[1][0][1])[1]))
                    hf = newhole[1][1][0][1]
                    cur_val, written = sh.child(strip_upd(strip_upd(newhole[1][0][1])[1]), hf)
                    vacant = is_none(cur_val)
                    hole_tok = (hb, hf, vacant)
                added[l] = (seq, hole_tok)
            mentioned = set(t[1] for t in seq_cur if t[0] == 'node')
            for l, (seq, ht) in added.items():
                mentioned |= set(t[1] for t in seq if t[0] == 'node')
            exp = _expand(before, mentioned)
            # Less: the detached part goes to the right assembly tree (prepended at its left end); Greater: mirror
            if o == 'Less':
                right_parts = [s for (s, ht) in added.values()]
                total = seq_cur + [t for s in right_parts for t in s]
                side_ok = all(ht is not None and ht[1] == 'left' and ht[2] and s and s[0] == ('node', ht[0]) for (s, ht) in added.values())
            elif o == 'Greater':
                left_parts = [s for (s, ht) in added.values()]
                total = [t for s in left_parts for t in s] + seq_cur
                side_ok = all(ht is not None and ht[1] == 'right' and ht[2] and s and s[-1] == ('node', ht[0]) for (s, ht) in added.values())
            else:
                total, side_ok = seq_cur, False
            ok = (total == exp) and side_ok and len(added) == 1
            key = 'splay:%s-step:%s' % (o, 'zig-zig' if len(mentioned) >= 3 else 'zig')
            if (key, ok) in seen:
                continue
            seen.add((key, ok))
            rep.ob(rule, key, ok,
                   'one iteration of splay (%s) must keep the in-order sequence: current subtree %s + part linked into the %s assembly tree %s '
                   'must equal %s, and the new link slot must be the vacant inner child of the node linked last (%s)'
                   % (o, fmt(seq_cur), 'right' if o == 'Less' else 'left', [fmt(s) for (s, ht) in added.values()], fmt(exp),
                      [ht for (s, ht) in added.values()]), loc=b.loc(b.j['line_lo']), reason='table-row', expected=fmt(exp), found=fmt(total))
        elif p.end == 'return':
            n_exit += 1
            # epilogue: *l := node.left, *r := node.right, node.left := left assembly tree, node.right := right assembly tree
            final_box = cur_after if cur_after is not None else None
            Nid = noepoch(strip_upd(final_box)) if final_box is not None else X
            hole_vals = {}
            for l in holes:
                hv = noepoch(('havoc', h, l))
                if (hv, ()) in sh.mem:
                    hole_vals[l] = sh.seq_opt(sh.mem[(hv, ())])
            lf, _ = sh.child(final_box if final_box is not None else ('deref', ('param', 2, 'node'), 0), 'left') if final_box is not None else (None, False)
            nl = sh.mem.get((('boxptr', Nid), (('f', 'left'),)))
            nr = sh.mem.get((('boxptr', Nid), (('f', 'right'),)))
            acc_ok = nl is not None and nr is not None and strip_upd(nl)[0] == 'havoc' and strip_upd(nr)[0] == 'havoc' and strip_upd(nl) != strip_upd(nr)
            sides = sorted(tuple(v) for v in hole_vals.values())
            # what the holes receive: the final node's own (current) left and right subtrees, one each
            got = sorted(fmt(v) for v in hole_vals.values())
            key = 'splay:exit:%s' % o
            mentioned = set()
            for v in hole_vals.values():
                mentioned |= set(t[1] for t in v if t[0] == 'node')
            ok = acc_ok and len(hole_vals) == 2
            if ok:
                # the two parts are exactly what hangs left and right of the final node (before the assembly trees are attached)
                parts = [t for v in hole_vals.values() for t in v]
                ok = all(t[0] in ('sub', 'node') for t in parts)
            if (key, ok) in seen:
                continue
            seen.add((key, ok))
            rep.ob(rule, key, ok,
                   'when the loop ends the final node\'s two subtrees must be moved into the two link slots and the two assembly trees become '
                   'its children; link slots receive %s, children are %s / %s' % (got, show(nl)[:30] if nl is not None else None,
                                                                                show(nr)[:30] if nr is not None else None),
                   loc=b.loc(b.j['line_lo']), reason='table-row')
    rep.floor(rule, 'splay iteration paths', n_iter, 4)
    rep.floor(rule, 'splay exit paths', n_exit, 3)
    rep.assumptions.append('splay(): inductive invariant assumed, preservation checked: each link slot is the vacant inner-end child of its assembly tree')
