"""C17 splay tree as a sorted map (partly decided: size bookkeeping, reference stability, direction convention, sibling mirrors).
Equivalence with a reference sorted map over all histories is not decided (that is a model-checking / proof task)."""
from rules import splayrules, shaperules
from rules import c12

LEVEL = 'other'
EXPLANATION = __doc__


def run(ctx, rep):
    splayrules.check_new(ctx, rep)
    splayrules.check_size(ctx, rep)
    splayrules.check_stable(ctx, rep)
    splayrules.check_direction(ctx, rep)
    splayrules.check_comparator_calls(ctx, rep)
    splayrules.check_mirror(ctx, rep)
    splayrules.check_lookup(ctx, rep)
    splayrules.check_returns(ctx, rep)
    shaperules.check_insert(ctx, rep)
    shaperules.check_remove(ctx, rep)
    shaperules.check_into_iter(ctx, rep)
    shaperules.check_splay(ctx, rep)
    # the two unsafe derefs are of self.root.get() only (shared with C12 D-unsafe)
    f = ctx.facts()
    blocks, ufns, uimpls = c12.scan_unsafe(f)
    owners = sorted(set(u['owner'] for u in blocks))
    rep.ob('M-stable', 'unsafe-confined', owners == ['splay::tree::SplayTree::<K, V, C>::root_mut', 'splay::tree::SplayTree::<K, V, C>::root_ref'],
           'unsafe blocks in %s' % owners, reason='inventory')
