"""C16 pairwise intersection step (partly decided)."""
from rules import pirules, fillrules

LEVEL = 'other'
EXPLANATION = __doc__


def run(ctx, rep):
    pirules.check_code(ctx, rep)
    pirules.check_endpoint_guards(ctx, rep)
    fillrules.check_divide(ctx, rep, rules=('S-divide', 'I-private-bump'))
