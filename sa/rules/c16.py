"""C16 pairwise intersection step (partly decided)."""
from rules import pirules, fillrules, segrules

LEVEL = 'other'
EXPLANATION = __doc__


def run(ctx, rep):
    pirules.check_code(ctx, rep)
    pirules.check_endpoint_guards(ctx, rep)
    fillrules.check_divide(ctx, rep, rules=('S-divide', 'I-private-bump'))
    segrules.check_clamp(ctx, rep)
    segrules.check_ranges(ctx, rep)
    segrules.check_algebra(ctx, rep)
    segrules.check_bbox_symmetry(ctx, rep)
