"""C16 pairwise intersection step (partly decided)."""
from rules import pirules

LEVEL = 'other'
EXPLANATION = __doc__


def run(ctx, rep):
    pirules.check_code(ctx, rep)
    pirules.check_endpoint_guards(ctx, rep)
