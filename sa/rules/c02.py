"""C02 rings grouped into a valid polygon set (partly decided: transition of coincident twins, parent table and
hole/parent pairing, polygon assembly, prev_in_result table)."""
from rules import booltables as bt, cerules, oprules, walkrules, orderrules

from rules import looprules

LEVEL = 'other'
EXPLANATION = __doc__


def run(ctx, rep):
    bt.check_trans(ctx, rep, 'T-trans-coincident', ['SameTransition', 'DifferentTransition'])
    bt.check_trans(ctx, rep, 'T-trans-normal', ['Normal'])
    cerules.check_parent(ctx, rep)
    oprules.check_assemble(ctx, rep)
    bt.check_prev(ctx, rep)
    bt.check_atom_models(ctx, rep)
    walkrules.check_result_events(ctx, rep)
    walkrules.check_other_pos(ctx, rep)
    walkrules.check_walk(ctx, rep)
    walkrules.check_next_pos(ctx, rep)
    walkrules.check_vertex_cycle(ctx, rep)
    walkrules.check_mark(ctx, rep)
    orderrules.check_order_events(ctx, rep, rule='T-walk-order')
    looprules.check_loops(ctx, rep)
