"""Rules on the top-level routine (boolean/mod.rs): T-forward, T-trivial, T-pipeline, T-assemble, B-test, L-empty.
Used by C01, C02, C06, C07, C09."""
import itertools
import re
import sym
from sym import show, noepoch, strip_upd, short
from rules.common import boolean_entries

BOOLOP = 'boolean::boolean_operation'
TRIVIAL = 'boolean::trivial_result'

# callees that hand values on unchanged (element-wise clones, views, iterator plumbing)
TRANSPARENT = re.compile(
    r'(::clone::Clone>::clone$|^std::clone::Clone::clone$|Vec::<T(, A)?>::as_slice$|as std::ops::Deref>::deref$|'
    r'slice::<impl \[T\]>::(iter|to_vec)$|Iterator::(chain|cloned|collect)$|IntoIterator>::into_iter$|IntoIterator::into_iter$|'
    r'boxed::Box::<T>::new(_uninit)?$|boxed::box_assume_init_into_vec_unsafe$|slice::<impl \[T\]>::into_vec$|'
    r'as std::convert::From<&\[T\]>>::from$|as std::convert::From<&.*>>::from$|FromIterator<T>>::from_iter$)')


def params_in(v, p=None):
    out = set()
    for x in tree(v, p):
        if x[0] == 'param':
            out.add(x[2])
    return out


def tree(v, p=None, seen=None):
    """all sub-terms; references to locals and values written through pointers that occur in the tree are followed
    through the final memory of path p (a `vec![x]` is a box that x was written into)"""
    out = []
    seen_locs = set()
    work = [v]
    have = set()
    while work:
        cur = work.pop()
        for x in sym.walk(cur):
            key = id(x)
            out.append(x)
            if p is None:
                continue
            if x[0] == 'ref' and x[1][0][0] == 'loc' and x[1] not in seen_locs:
                seen_locs.add(x[1])
                for k, val in p.final.mem.items():
                    # the referenced place, its sub-places and the places it is part of
                    if k[0] == x[1][0] and (k[1][:len(x[1][1])] == x[1][1] or x[1][1][:len(k[1])] == k[1]):
                        work.append(val)
            if x[0] in ('call', 'pcall', 'boxptr', 'cast'):
                for i, e in enumerate(p.events):
                    if e['k'] == 'store' and e['loc'][0][0] == 'ext' and ('st', i) not in seen_locs:
                        base = strip_upd(e['loc'][0][1])
                        if base == x or (base[0] == 'boxptr' and strip_upd(base[1]) == x) or (base[0] == 'cast' and x in list(sym.walk(base))[:6]):
                            seen_locs.add(('st', i))
                            work.append(e['val'])
    return out


def calls_in(v, p=None):
    return set(x[1] for x in tree(v, p) if x[0] in ('call', 'pcall'))


def check_forward(ctx, rep, rule='T-forward'):
    f = ctx.facts()
    entries = boolean_entries(f)
    impls = [e for e in entries if (f.bodies[e].j.get('impl') or {}).get('trait') == 'boolean::BooleanOp']
    defaults = [e for e in entries if f.bodies[e].j.get('trait_default_of') == 'boolean::BooleanOp']
    rep.floor(rule, 'BooleanOp impls', len(impls), 4)
    rep.floor(rule, 'default methods', len(defaults), 4)
    pairs = set()
    for e in impls:
        b, ps = rep.explore(ctx, e, rule)
        if b is None:
            continue
        imp = b.j['impl']
        pairs.add((imp['self_ty'].split('<')[0], (imp.get('trait_args') or ['', '', ''])[-1].split('<')[0]))
        inst = '%s x %s' % (imp['self_ty'].split('::')[-1], (imp.get('trait_args') or ['?'])[-1].split('::')[-1])
        ret_paths = [p for p in ps if p.end == 'return']
        ok_all = bool(ret_paths)
        msg = ''
        for p in ret_paths:
            # delegation to another (straight-line) impl is followed: inlined calls count
            cs = [e for e in p.events if e['k'] == 'call' and e['callee'].endswith('boolean::boolean_operation')]
            if len(cs) != 1:
                ok_all, msg = False, 'path makes %d calls to boolean_operation' % len(cs)
                break
            a = cs[0]['args']
            pa, pb, pc = params_in(a[0], p), params_in(a[1], p), strip_upd(a[2])
            extra = sorted(c for c in (calls_in(a[0], p) | calls_in(a[1], p)) if not TRANSPARENT.search(c))
            ret_is_call = strip_upd(p.ret) == strip_upd(cs[0]['ret'])
            if pa != {'self'} or pb != {'rhs'} or not (pc[0] == 'param' and pc[2] == 'operation') or extra or not ret_is_call:
                ok_all = False
                msg = 'subject derives from %s, clipping from %s, operation from %s%s%s' % (
                    sorted(pa), sorted(pb), show(pc), '; operands pass through %s' % extra if extra else '',
                    '' if ret_is_call else '; the result is post-processed')
        rep.ob(rule, inst, ok_all,
               'impl %s must call boolean_operation(subject <- self, clipping <- rhs, operation) with the whole operands and '
               'return its result: %s' % (inst, msg), loc=b.loc(b.j['line_lo']), reason='provenance')
    want = {('geo_types::Polygon', 'geo_types::Polygon'), ('geo_types::Polygon', 'geo_types::MultiPolygon'),
            ('geo_types::MultiPolygon', 'geo_types::MultiPolygon'), ('geo_types::MultiPolygon', 'geo_types::Polygon')}
    have = set()
    for e in impls:
        imp = f.bodies[e].j['impl']
        ta = imp.get('trait_args') or []
        have.add((imp['self_ty'].split('<')[0], (ta[2] if len(ta) > 2 else imp['self_ty']).split('<')[0]))
    rep.ob(rule, 'four-pairings', have == want, 'BooleanOp is implemented for %s, expected the four Polygon/MultiPolygon pairings' % sorted(have),
           reason='inventory')
    for e in defaults:
        b, ps = rep.explore(ctx, e, rule)
        if b is None:
            continue
        m = e.split('::')[-1]
        ok = False
        found = None
        for p in ps:
            if p.end != 'return':
                continue
            cs = [c for c in p.calls() if c['callee'].endswith('BooleanOp::boolean')]
            if len(cs) == 1:
                a = cs[0]['args']
                v = strip_upd(a[2])
                variant = v[2] if v[0] == 'agg' else (v[1][2] if v[0] == 'c' and isinstance(v[1], tuple) else None)
                found = variant
                ok = (variant or '').lower() == m.lower() and params_in(a[0]) == {'self'} and params_in(a[1]) == {'rhs'} \
                    and strip_upd(p.ret) == strip_upd(cs[0]['ret'])
        rep.ob(rule, 'default:%s' % m, ok, 'BooleanOp::%s must forward (self, rhs) with Operation::%s, forwards Operation::%s'
               % (m, m.capitalize(), found), loc=b.loc(b.j['line_lo']), reason='provenance', expected=m.capitalize(), found=found)


def check_trivial(ctx, rep, rule='T-trivial'):
    b, ps = rep.explore(ctx, TRIVIAL, rule)
    if b is None:
        return
    variants = ctx.facts().enum_variants('boolean::Operation') or []
    seen = set()
    for p in ps:
        if p.end != 'return':
            continue
        op = None
        for (v, c) in p.conds:
            x = strip_upd(v)
            if x[0] == 'discr' and strip_upd(x[1])[0] == 'param' and c[0] == 'eq':
                op = variants[c[1]] if c[1] < len(variants) else None
        if op is None:
            rep.ob(rule, 'dispatch-on-operation', False, 'a path of trivial_result is not selected by the operation alone: %s'
                   % [show(noepoch(v))[:40] for v, _ in p.conds], loc=b.loc(b.j['line_lo']), reason='cannot-tabulate')
            continue
        seen.add(op)
        r = strip_upd(p.ret)
        payload = r[4][0] if r[0] == 'agg' and r[5].endswith('MultiPolygon') and r[4] else r
        ps_ = params_in(payload, p)
        extra = sorted(c for c in calls_in(payload, p) if not TRANSPARENT.search(c) and not c.endswith('Vec::<T>::new'))
        exp = {'Intersection': set(), 'Difference': {'subject'}, 'Union': {'subject', 'clipping'}, 'Xor': {'subject', 'clipping'}}[op]
        ok = ps_ == exp and not extra
        if op == 'Intersection':
            pl = strip_upd(payload)
            ok = ok and (pl[0] == 'vec' and pl[1] == ())
        rep.ob(rule, op, ok,
               'for disjoint bounding boxes %s must return %s unchanged; it returns a value built from %s%s'
               % (op, {'Intersection': 'the empty set', 'Difference': 'the subject', 'Union': 'subject ++ clipping',
                       'Xor': 'subject ++ clipping'}[op], sorted(ps_) or 'nothing', ' through %s' % extra if extra else ''),
               loc=b.loc(b.j['line_lo']), reason='table-row', expected=sorted(exp), found=sorted(ps_))
    rep.rows_compared += len(seen)
    rep.ob(rule, 'all-operations-covered', seen == set(variants), 'trivial_result handles %s of %s' % (sorted(seen), variants),
           reason='floor')


# ------------------------------------------------------------------------------------------ B-test

def box_coord(v, p, roles):
    """'s.min.x' etc. for a coordinate of one of the two boxes filled by fill_queue"""
    x = strip_upd(v)
    if x[0] == 'field' and x[2] in ('x', 'y'):
        m = strip_upd(x[1])
        if m[0] == 'field' and m[2] in ('min', 'max'):
            base = m[1]
            while base[0] == 'upd':
                base = base[1]
            if base[0] == 'modified' and base[1].endswith('fill_queue'):
                return '%s.%s.%s' % (roles.get(base[2], '?'), m[2], x[2])
    return None


def canon_cmp(v, p, roles):
    """canonical form of a comparison of two box coordinates: ('gt', a, b, negated)"""
    x = strip_upd(v)
    neg = False
    while x[0] == 'op' and x[1] == 'not':
        neg = not neg
        x = strip_upd(x[2])
    if x[0] != 'op' or x[1] not in ('gt', 'lt', 'ge', 'le') or len(x) != 4:
        return None
    a, b = box_coord(x[2], p, roles), box_coord(x[3], p, roles)
    if a is None or b is None:
        return None
    op = x[1]
    if op == 'lt':
        a, b, op = b, a, 'gt'
    elif op == 'le':          # a <= b  ==  !(a > b)
        op, neg = 'gt', not neg
    elif op == 'ge':          # a >= b  ==  !(b > a)
        a, b, op, neg = b, a, 'gt', not neg
    return ('gt', a, b, neg)


EXPECTED_DISJOINT = [('s.min.x', 'c.max.x'), ('c.min.x', 's.max.x'), ('s.min.y', 'c.max.y'), ('c.min.y', 's.max.y')]


def check_box_test(ctx, rep, rule='B-test'):
    b, ps = rep.explore(ctx, BOOLOP, rule)
    if b is None:
        return None
    roles = {2: 's', 3: 'c'}
    rows = []
    atoms = set()
    for p in ps:
        if p.end != 'return':
            continue
        outcome = 'trivial' if any(True for _ in p.calls('trivial_result')) else ('full' if any(True for _ in p.calls('subdivide')) else 'other')
        conds = []
        for (v, c) in p.conds:
            cc = canon_cmp(v, p, roles)
            if cc is None:
                rep.ob(rule, 'condition-modelled', False, 'boolean_operation branches on %s, which is not a comparison of box corners'
                       % show(noepoch(v))[:100], loc=b.loc(b.j['line_lo']), reason='cannot-tabulate')
                return None
            val = c[1] != cc[3]
            conds.append(((cc[1], cc[2]), val))
            atoms.add((cc[1], cc[2]))
        rows.append((conds, outcome, p))
    extra = sorted(a for a in atoms if a not in EXPECTED_DISJOINT)
    missing = sorted(a for a in EXPECTED_DISJOINT if a not in atoms)
    rep.ob(rule, 'strict-corner-comparisons', not extra and not missing,
           'the shortcut must test exactly the strict comparisons %s; unexpected %s, missing %s (a non-strict or swapped comparison '
           'returns touching operands side by side / skips the shortcut)' % (['%s > %s' % a for a in EXPECTED_DISJOINT],
                                                                             ['%s > %s' % a for a in extra], ['%s > %s' % a for a in missing]),
           loc=b.loc(b.j['line_lo']), reason='table-row')
    n = 0
    if not extra and not missing:
        for combo in itertools.product((False, True), repeat=4):
            val = dict(zip(EXPECTED_DISJOINT, combo))
            outs = set(o for (conds, o, _) in rows if all(val[a] == v for a, v in conds))
            exp = 'trivial' if any(combo) else 'full'
            n += 1
            rep.ob(rule, 'row:' + ''.join(str(int(c)) for c in combo), outs == {exp},
                   'with disjointness tests %s the routine takes the %s path, expected %s'
                   % (dict(('%s>%s' % k, v) for k, v in val.items()), sorted(outs), exp), loc=b.loc(b.j['line_lo']), reason='table-row')
    rep.rows_compared += n
    return b, ps


def check_initial_boxes(ctx, rep, rule='L-empty'):
    """both boxes start as (min=+inf, max=-inf) and are only handed to fill_queue before the test"""
    b, ps = rep.explore(ctx, BOOLOP, rule)
    if b is None:
        return
    done = False
    for p in ps:
        for e in p.calls('fill_queue'):
            if done:
                continue
            done = True
            for idx, role in ((2, 'sbbox'), (3, 'cbbox')):
                a = strip_upd(e['args'][idx])
                init = None
                # value of the local right before the call
                for x in sym.walk(p.final.mem.get(a[1], ('c', 0))) if a[0] == 'ref' else []:
                    if x[0] == 'modified' and x[1].endswith('fill_queue') and x[2] == idx:
                        init = x[4]
                ok = False
                desc = show(noepoch(init))[:140] if init is not None else 'unknown'
                if init is not None:
                    v = strip_upd(init)
                    if v[0] == 'agg' and v[5].endswith('BoundingBox'):
                        d = dict(zip(v[3], v[4]))
                        mn, mx = strip_upd(d['min']), strip_upd(d['max'])
                        def const_calls(c, suffix):
                            return c[0] == 'agg' and all(strip_upd(z)[0] in ('pcall', 'call') and strip_upd(z)[1].endswith(suffix) for z in c[4])
                        ok = const_calls(mn, 'Float::infinity') and const_calls(mx, 'Float::neg_infinity')
                rep.ob(rule, 'initial-%s' % role, ok, '%s must start as min=(+inf,+inf), max=(-inf,-inf) so that an operand without '
                       'edges is disjoint from everything; it starts as %s' % (role, desc), loc=b.loc(e['line']), reason='provenance')
            # argument routing: subject, clipping, &sbbox, &cbbox, operation
            ok = params_in(e['args'][0]) == {'subject'} and params_in(e['args'][1]) == {'clipping'} and params_in(e['args'][4]) == {'operation'}
            rep.ob(rule, 'fill_queue-arguments', ok, 'fill_queue must receive (subject, clipping, .., operation) in this order',
                   loc=b.loc(e['line']), reason='provenance')
    rep.ob(rule, 'fill_queue-called', done, 'boolean_operation does not call fill_queue', reason='anchor-missing')
    # fill_queue itself never writes a box: it only hands them to process_polygon
    bf, pf = rep.explore(ctx, 'boolean::fill_queue::fill_queue', rule)
    if bf is not None:
        stores = [e for p in pf for e in p.events if e['k'] == 'store' and e.get('depth', 0) == 0]
        rep.ob(rule, 'boxes-written-only-per-edge', not stores,
               'fill_queue writes through a pointer itself (%d stores); boxes must only be updated per non-collapsed edge' % len(stores),
               loc=bf.loc(stores[0]['line']) if stores else None, reason='dominance')


def check_pipeline(ctx, rep, rule='T-pipeline'):
    b, ps = rep.explore(ctx, BOOLOP, rule)
    if b is None:
        return
    full = [p for p in ps if p.end == 'return' and any(True for _ in p.calls('subdivide'))]
    rep.floor(rule, 'full-sweep paths', len(full), 1)
    for p in full:
        fq = list(p.calls('fill_queue'))
        sd = list(p.calls('subdivide'))
        ce = list(p.calls('connect_edges'))
        ok = len(fq) == 1 and len(sd) == 1 and len(ce) == 1
        msg = 'stages called %d/%d/%d times' % (len(fq), len(sd), len(ce))
        if ok:
            mem = p.final.mem
            q = strip_upd(sd[0]['args'][0])
            qv = mem.get(q[1]) if q[0] == 'ref' else None
            q_ok = qv is not None and any(x[0] == 'call' and x[1].endswith('fill_queue') for x in sym.walk(qv))
            s_box = strip_upd(sd[0]['args'][1])
            c_box = strip_upd(sd[0]['args'][2])
            fs, fc = strip_upd(fq[0]['args'][2]), strip_upd(fq[0]['args'][3])
            boxes_ok = s_box[0] == 'ref' and c_box[0] == 'ref' and s_box[1] == fs[1] and c_box[1] == fc[1]
            op_ok = params_in(sd[0]['args'][3]) == {'operation'}
            ce_ok = any(x[0] == 'call' and x[1].endswith('subdivide') for x in tree(ce[0]['args'][0], p))
            ret_ok = any(x[0] == 'call' and x[1].endswith('connect_edges') for x in tree(p.ret, p))
            ok = q_ok and boxes_ok and op_ok and ce_ok and ret_ok
            msg = 'queue-from-fill_queue=%s, boxes (sbbox, cbbox) passed in the same roles=%s, operation passed on=%s, ' \
                  'connect_edges(subdivide result)=%s, result built from the contours=%s' % (q_ok, boxes_ok, op_ok, ce_ok, ret_ok)
        rep.ob(rule, 'fill-subdivide-connect', ok, 'the non-trivial path must be connect_edges(subdivide(fill_queue(..))): ' + msg,
               loc=b.loc(sd[0]['line']) if sd else b.loc(b.j['line_lo']), reason='provenance')


def own_field(v, field, wrapped=True):
    """v is (a transparent clone of) a reference to FIELD of the closure's own argument (the contour being mapped)"""
    x = strip_upd(v)
    if wrapped:
        if not (x[0] in ('call', 'pcall') and TRANSPARENT.search(x[1]) and len(x[2]) == 1):
            return False
        x = strip_upd(x[2][0])
    if x[0] == 'ref' and x[1][1] == (('f', field),) and x[1][0][0] == 'ext':
        return any(y[0] == 'param' and y[1] == 2 for y in sym.walk(x[1][0][1]))
    return False


def check_assemble(ctx, rep, rule='T-assemble'):
    """polygons are emitted for exterior contours only; exterior ring = that contour's points; holes = points of the contours
    listed in that contour's hole_ids"""
    f = ctx.facts()
    b, ps = rep.explore(ctx, BOOLOP, rule)
    if b is None:
        return
    closures = sorted(n for n in f.bodies if n.startswith(BOOLOP + '::{closure#'))
    rep.floor(rule, 'closures of boolean_operation', len(closures), 2)
    filt = mapper = None
    for p in ps:
        for e in p.calls():
            if e['callee'].endswith('Iterator::filter'):
                c = strip_upd(e['args'][1])
                filt = c[2] if c[0] == 'agg' and c[1] == 'closure' else None
                src = e['args'][0]
                src_ok = any(x[0] == 'call' and x[1].endswith('connect_edges') for x in tree(src, p))
                rep.ob(rule, 'iterates-contours', src_ok, 'the polygon list is not built by iterating the contours of connect_edges',
                       loc=b.loc(e['line']), reason='provenance')
            if e['callee'].endswith('Iterator::map'):
                c = strip_upd(e['args'][1])
                mapper = c[2] if c[0] == 'agg' and c[1] == 'closure' else None
    rep.ob(rule, 'filter-then-map', filt is not None and mapper is not None,
           'expected contours.iter().filter(<closure>).map(<closure>)', loc=b.loc(b.j['line_lo']), reason='anchor-missing')
    if filt:
        bf, pf = rep.explore(ctx, filt, rule)
        ok = False
        found = None
        for p in pf:
            if p.end == 'return':
                r = strip_upd(p.ret)
                found = show(noepoch(r))[:100]
                ok = r[0] in ('pcall', 'call') and r[1].endswith('Option::<T>::is_none') and 'hole_of' in show(noepoch(r[2][0]))
        rep.ob(rule, 'only-exterior-contours', ok and len(pf) == 1,
               'a polygon must be emitted exactly for contours with hole_of == None; the filter returns %s' % found,
               loc=bf.loc(bf.j['line_lo']) if bf else None, reason='table-row')
    if mapper:
        bm, pm = rep.explore(ctx, mapper, rule)
        ext_ok = holes_ok = False
        ext_found = holes_found = None
        for p in pm:
            for e in p.calls():
                if e['callee'].endswith('Polygon::<T>::new'):
                    ex = strip_upd(e['args'][0])
                    ext_found = show(noepoch(ex))[:100]
                    s = show(noepoch(ex))
                    ext_ok = ex[0] == 'agg' and ex[5].endswith('LineString') and len(ex[4]) == 1 and own_field(ex[4][0], 'points')
                if e['callee'].endswith('::push') and 'Vec' in e['callee']:
                    s = show(noepoch(e['args'][1]))
                    holes_found = s[:160]
                    # LineString(contours[*hole_id as usize].points.clone()) with hole_id drawn from &contour.hole_ids
                    it_ok = any(c['callee'].endswith('into_iter') and own_field(c['args'][0], 'hole_ids', wrapped=False) for c in p.calls())
                    v = strip_upd(e['args'][1])
                    holes_ok = False
                    if it_ok and v[0] == 'agg' and v[5].endswith('LineString') and len(v[4]) == 1:
                        cl = strip_upd(v[4][0])
                        if cl[0] in ('call', 'pcall') and TRANSPARENT.search(cl[1]) and len(cl[2]) == 1:
                            r = strip_upd(cl[2][0])
                            if r[0] == 'ref' and r[1][1] == (('f', 'points'),) and r[1][0][0] == 'ext':
                                ix = strip_upd(r[1][0][1])
                                if ix[0] in ('call', 'pcall') and re.search(r'Index<.*>>::index$', ix[1]) and len(ix[2]) == 2:
                                    from_env = any(x[0] == 'param' and x[1] == 1 for x in sym.walk(ix[2][0]))
                                    from_iter = any(x[0] in ('call', 'pcall') and x[1].endswith('::next') for x in sym.walk(ix[2][1]))
                                    holes_ok = from_env and from_iter
        rep.ob(rule, 'exterior-ring-from-own-points', ext_ok, 'the exterior ring must be a clone of the contour\'s own points; found %s' % ext_found,
               loc=bm.loc(bm.j['line_lo']) if bm else None, reason='provenance')
        rep.ob(rule, 'holes-from-own-hole_ids', holes_ok,
               'interior rings must be the points of contours[h] for h in this contour\'s hole_ids; found %s' % holes_found,
               loc=bm.loc(bm.j['line_lo']) if bm else None, reason='provenance')
