"""Rules on the top-level routine (boolean/mod.rs): T-forward, T-trivial, T-pipeline, T-assemble, B-test, L-empty.
Used by C01, C02, C06, C07, C09."""
import itertools
import re
import sym
from sym import show, noepoch, strip_upd, short
from rules.common import boolean_entries

BOOLOP = 'boolean::boolean_operation'
TRIVIAL = 'boolean::trivial_result'

# callees that hand values on unchanged (element-wise clones, views, iterator plumbing)
TRANSPARENT = re.compile(
    r'(::clone::Clone>::clone$|^std::clone::Clone::clone$|Vec::<T(, A)?>::as_slice$|as std::ops::Deref>::deref$|'
    r'slice::<impl \[T\]>::(iter|to_vec)$|Iterator::(chain|cloned|collect)$|IntoIterator>::into_iter$|IntoIterator::into_iter$|'
    r'boxed::Box::<T>::new(_uninit)?$|boxed::box_assume_init_into_vec_unsafe$|slice::<impl \[T\]>::into_vec$|'
    r'as std::convert::From<&\[T\]>>::from$|as std::convert::From<&.*>>::from$|FromIterator<T>>::from_iter$|'
    r'Vec::<T(, A)?>::(extend_from_slice|append|push)$|as std::iter::Extend<.*>>::extend$|^std::slice::from_ref$|slice::<impl \[V\]>::concat$|slice::<impl \[T\]>::concat$)')


def params_in(v, p=None):
    out = set()
    for x in tree(v, p):
        if x[0] == 'param':
            out.add(x[2])
    return out


def tree(v, p=None, seen=None):
    """all sub-terms; references to locals and values written through pointers that occur in the tree are followed
    through the final memory of path p (a `vec![x]` is a box that x was written into)"""
    out = []
    seen_locs = set()
    work = [v]
    have = set()
    while work:
        cur = work.pop()
        for x in sym.walk(cur):
            key = id(x)
            out.append(x)
            if p is None:
                continue
            if x[0] == 'ref' and x[1][0][0] == 'loc' and x[1] not in seen_locs:
                seen_locs.add(x[1])
                for k, val in p.final.mem.items():
                    # the referenced place, its sub-places and the places it is part of
                    if k[0] == x[1][0] and (k[1][:len(x[1][1])] == x[1][1] or x[1][1][:len(k[1])] == k[1]):
                        work.append(val)
            if x[0] == 'modified' and ('mod', x[3]) not in seen_locs:
                # a local handed to a callee by &mut: what the callee was given may have gone into it
                seen_locs.add(('mod', x[3]))
                for e in p.events:
                    if e['k'] == 'call' and e.get('site') == x[3]:
                        out.append(('call', e['callee'], (), 0))
                        for a in e['args']:
                            work.append(a)
            if x[0] in ('call', 'pcall') and ('rv', id(x)) not in seen_locs:
                # temporaries handed to the call by reference (`[a, b].concat()`): their values at the time of the call; the
                # temporary may belong to an expanded helper and be gone from the final memory
                seen_locs.add(('rv', id(x)))
                for e in p.events:
                    if e['k'] == 'call' and e.get('ref_vals') and e['callee'] == x[1] and len(e['args']) == len(x[2]) \
                            and all(noepoch(strip_upd(a)) == noepoch(strip_upd(b_)) for a, b_ in zip(e['args'], x[2])):
                        for val in e['ref_vals'].values():
                            work.append(val)
            if x[0] in ('call', 'pcall', 'boxptr', 'cast'):
                for i, e in enumerate(p.events):
                    if e['k'] == 'store' and e['loc'][0][0] == 'ext' and ('st', i) not in seen_locs:
                        base = strip_upd(e['loc'][0][1])
                        if base == x or (base[0] == 'boxptr' and strip_upd(base[1]) == x) or (base[0] == 'cast' and x in list(sym.walk(base))[:6]):
                            seen_locs.add(('st', i))
                            work.append(e['val'])
    return out


def calls_in(v, p=None):
    return set(x[1] for x in tree(v, p) if x[0] in ('call', 'pcall'))


def check_forward(ctx, rep, rule='T-forward'):
    f = ctx.facts()
    entries = boolean_entries(f)
    impls = [e for e in entries if (f.bodies[e].j.get('impl') or {}).get('trait') == 'boolean::BooleanOp']
    defaults = [e for e in entries if f.bodies[e].j.get('trait_default_of') == 'boolean::BooleanOp']
    rep.floor(rule, 'BooleanOp impls', len(impls), 4)
    rep.floor(rule, 'default methods', len(defaults), 4)
    pairs = set()
    for e in impls:
        b, ps = rep.explore(ctx, e, rule)
        if b is None:
            continue
        imp = b.j['impl']
        pairs.add((imp['self_ty'].split('<')[0], (imp.get('trait_args') or ['', '', ''])[-1].split('<')[0]))
        inst = '%s x %s' % (imp['self_ty'].split('::')[-1], (imp.get('trait_args') or ['?'])[-1].split('::')[-1])
        ret_paths = [p for p in ps if p.end == 'return']
        ok_all = bool(ret_paths)
        msg = ''
        for p in ret_paths:
            # delegation to another (straight-line) impl is followed: inlined calls count
            cs = [e for e in p.events if e['k'] == 'call' and e['callee'].endswith('boolean::boolean_operation')]
            if len(cs) != 1:
                ok_all, msg = False, 'path makes %d calls to boolean_operation' % len(cs)
                break
            a = cs[0]['args']
            pa, pb, pc = params_in(a[0], p), params_in(a[1], p), strip_upd(a[2])
            extra = sorted(c for c in (calls_in(a[0], p) | calls_in(a[1], p)) if not TRANSPARENT.search(c))
            ret_is_call = strip_upd(p.ret) == strip_upd(cs[0]['ret'])
            if pa != {'self'} or pb != {'rhs'} or not (pc[0] == 'param' and pc[2] == 'operation') or extra or not ret_is_call:
                ok_all = False
                msg = 'subject derives from %s, clipping from %s, operation from %s%s%s' % (
                    sorted(pa), sorted(pb), show(pc), '; operands pass through %s' % extra if extra else '',
                    '' if ret_is_call else '; the result is post-processed')
        rep.ob(rule, inst, ok_all,
               'impl %s must call boolean_operation(subject <- self, clipping <- rhs, operation) with the whole operands and '
               'return its result: %s' % (inst, msg), loc=b.loc(b.j['line_lo']), reason='provenance')
    want = {('geo_types::Polygon', 'geo_types::Polygon'), ('geo_types::Polygon', 'geo_types::MultiPolygon'),
            ('geo_types::MultiPolygon', 'geo_types::MultiPolygon'), ('geo_types::MultiPolygon', 'geo_types::Polygon')}
    have = set()
    for e in impls:
        imp = f.bodies[e].j['impl']
        ta = imp.get('trait_args') or []
        have.add((imp['self_ty'].split('<')[0], (ta[2] if len(ta) > 2 else imp['self_ty']).split('<')[0]))
    rep.ob(rule, 'four-pairings', have == want, 'BooleanOp is implemented for %s, expected the four Polygon/MultiPolygon pairings' % sorted(have),
           reason='inventory')
    for e in defaults:
        b, ps = rep.explore(ctx, e, rule)
        if b is None:
            continue
        m = e.split('::')[-1]
        ok = False
        found = None
        for p in ps:
            if p.end != 'return':
                continue
            cs = [c for c in p.calls() if c['callee'].endswith('BooleanOp::boolean')]
            if len(cs) == 1:
                a = cs[0]['args']
                v = strip_upd(a[2])
                variant = v[2] if v[0] == 'agg' else (v[1][2] if v[0] == 'c' and isinstance(v[1], tuple) else None)
                found = variant
                ok = (variant or '').lower() == m.lower() and params_in(a[0]) == {'self'} and params_in(a[1]) == {'rhs'} \
                    and strip_upd(p.ret) == strip_upd(cs[0]['ret'])
        rep.ob(rule, 'default:%s' % m, ok, 'BooleanOp::%s must forward (self, rhs) with Operation::%s, forwards Operation::%s'
               % (m, m.capitalize(), found), loc=b.loc(b.j['line_lo']), reason='provenance', expected=m.capitalize(), found=found)


def _eval_op_cond(v, op, variants):
    """truth of a condition of trivial_result for operation `op`; None when it depends on anything else"""
    x = strip_upd(v)
    if x[0] == 'op' and x[1] == 'not':
        r = _eval_op_cond(x[2], op, variants)
        return None if r is None else (not r)
    if x[0] == 'op' and x[1] in ('eq', 'ne') and len(x) == 4:
        a, b = strip_upd(x[2]), strip_upd(x[3])
        for p_, c_ in ((a, b), (b, a)):
            name = c_[2] if c_[0] == 'agg' and not c_[4] else (c_[1][2] if c_[0] == 'c' and isinstance(c_[1], tuple) and c_[1][0] == 'enum' else None)
            while p_[0] in ('deref', 'refval') and len(p_) > 1:
                p_ = strip_upd(p_[1])
            if p_[0] == 'param' and p_[2] == 'operation' and name in variants:
                return (name == op) if x[1] == 'eq' else (name != op)
        return None
    if x[0] == 'op' and x[1] in ('bitand', 'bitor', 'bitxor') and len(x) == 4:
        a, b = _eval_op_cond(x[2], op, variants), _eval_op_cond(x[3], op, variants)
        if a is None or b is None:
            return None
        return {'bitand': a and b, 'bitor': a or b, 'bitxor': a != b}[x[1]]
    if x[0] == 'discr':
        y = strip_upd(x[1])
        if y[0] == 'param' and y[2] == 'operation':
            return ('idx', variants.index(op))
    if sym.is_const(x):
        return bool(x[1])
    return None


def _op_cond_holds(r, c):
    if isinstance(r, tuple):
        return (c[0] == 'eq' and int(c[1]) == r[1]) or (c[0] == 'notin' and r[1] not in [int(z) for z in c[1]])
    return (c[0] == 'eq' and bool(c[1]) == r) or (c[0] == 'notin' and int(r) not in [int(z) for z in c[1]])


def shortcut_rows(ctx, rep, rule):
    """decision table of the part of boolean_operation before the sweep, with trivial_result seen through: every returning
    path is a row (box-corner comparisons with their outcome, conditions on the operation, 'early' | 'full').  Where the test
    and the per-operation result live (inline, in trivial_result, in a helper of either) makes no difference to the rows."""
    key = ('shortcut_rows', ctx.config)
    cache = ctx.__dict__.setdefault('_shortcut', {})
    if key not in cache:
        cache[key] = _shortcut_rows(ctx)
    b, ps, rows, err = cache[key]
    if b is None:
        rep.explore(ctx, BOOLOP, rule, expand=(TRIVIAL,))      # reports the anchor / analysability problem
        return None
    rep.explore(ctx, BOOLOP, rule, expand=(TRIVIAL,))
    if err:
        rep.ob(rule, 'condition-modelled', False, err, loc=b.loc(b.j['line_lo']), reason='cannot-tabulate')
        return None
    return b, ps, rows


def _shortcut_rows(ctx):
    try:
        b, ps = ctx.paths(BOOLOP, expand=(TRIVIAL,))
    except sym.CannotAnalyse:
        return None, [], [], None
    variants = ctx.facts().enum_variants('boolean::Operation') or []
    roles = {2: 's', 3: 'c'}
    rows = []
    for p in ps:
        if p.end != 'return':
            continue
        stage = [i for i, e in enumerate(p.events) if e['k'] == 'call' and e.get('depth', 0) == 0 and e['callee'].endswith('::subdivide')]
        outcome = 'full' if stage else 'early'
        upto = stage[0] if stage else len(p.events)
        box, opc = [], []
        for e in p.events[:upto]:
            if e['k'] != 'branch' or e.get('depth', 0) > 3:
                continue
            v, c = e['val'], e['cond']
            cc = canon_cmp(v, p, roles)
            if cc is not None:
                box.append(((cc[1], cc[2]), c[1] != cc[3]))
                continue
            if variants and _eval_op_cond(v, variants[0], variants) is not None:
                opc.append((v, c))
                continue
            if e.get('depth', 0) == 0 or outcome == 'early':
                return b, ps, [], ('boolean_operation branches on %s before the sweep, which is neither a comparison of box corners nor '
                                   'a test of the operation' % show(noepoch(v))[:100])
        rows.append((box, opc, outcome, p))
    return b, ps, rows, None


def _rows_for(rows, val, op, variants):
    out = []
    for (box, opc, outcome, p) in rows:
        if not all(val.get(a) == v for a, v in box):
            continue
        if op is not None and not all(_op_cond_holds(_eval_op_cond(v, op, variants), c) for v, c in opc):
            continue
        out.append((outcome, p))
    return out


def check_trivial(ctx, rep, rule='T-trivial'):
    """what the shortcut returns, per operation: the early-return rows of the decision table (shortcut_rows) are selected by
    evaluating their conditions for each of the four operations (match, if-chains and flags are all the same to this) under
    every outcome of the four disjointness comparisons; the returned list is characterised by the parameters it is built from
    and the callees it passes through"""
    t = shortcut_rows(ctx, rep, rule)
    if t is None:
        return
    b, ps, rows = t
    variants = ctx.facts().enum_variants('boolean::Operation') or []
    tb = ctx.facts().body(TRIVIAL)
    where = (tb or b)
    loc = where.loc(where.j['line_lo'])
    seen = set()
    for op in variants:
        outs = {}
        for combo in itertools.product((False, True), repeat=4):
            if not any(combo):
                continue
            val = dict(zip(EXPECTED_DISJOINT, combo))
            for (o, p) in _rows_for(rows, val, op, variants):
                if o == 'early':
                    outs[id(p)] = p
        outs = list(outs.values())
        if not outs:
            continue
        seen.add(op)
        exp = {'Intersection': set(), 'Difference': {'subject'}, 'Union': {'subject', 'clipping'}, 'Xor': {'subject', 'clipping'}}.get(op, set())
        ok = True
        found_all, extra_all = [], set()
        for p in outs:
            r = strip_upd(p.ret)
            payload = r[4][0] if r[0] == 'agg' and r[5].endswith('MultiPolygon') and r[4] else r
            ps_ = params_in(payload, p) - {'operation'}
            extra = sorted(c for c in calls_in(payload, p) if not TRANSPARENT.search(c) and not re.search(r'Vec::<T>::(new|with_capacity)$', c)
                           and not re.search(r'(::len$|ops::(arith::)?Add::add$)', c))
            if ps_ != exp and sorted(ps_) not in found_all:
                found_all.append(sorted(ps_))
            extra_all |= set(extra)
            ok = ok and ps_ == exp and not extra
            if op == 'Intersection':
                pl = strip_upd(payload)
                ok = ok and ((pl[0] == 'vec' and pl[1] == ()) or not ps_)
        rep.ob(rule, op, ok,
               'for disjoint bounding boxes %s must return %s unchanged; on some disjoint placement it returns a value built from %s%s'
               % (op, {'Intersection': 'the empty set', 'Difference': 'the subject', 'Union': 'subject ++ clipping',
                       'Xor': 'subject ++ clipping'}.get(op), found_all or [sorted(exp)], ' through %s' % sorted(extra_all) if extra_all else ''),
               loc=loc, reason='table-row', expected=sorted(exp), found=found_all)
    rep.rows_compared += len(seen) * 15
    rep.ob(rule, 'all-operations-covered', seen == set(variants), 'the shortcut handles %s of %s' % (sorted(seen), variants),
           reason='floor')


# ------------------------------------------------------------------------------------------ B-test

def box_coord(v, p, roles):
    """'s.min.x' etc. for a coordinate of one of the two boxes filled by fill_queue"""
    x = strip_upd(v)
    if x[0] == 'field' and x[2] in ('x', 'y'):
        m = strip_upd(x[1])
        if m[0] == 'field' and m[2] in ('min', 'max'):
            base = m[1]
            while base[0] == 'upd':
                base = base[1]
            if base[0] == 'modified' and base[1].endswith('fill_queue'):
                return '%s.%s.%s' % (roles.get(base[2], '?'), m[2], x[2])
    return None


def canon_cmp(v, p, roles):
    """canonical form of a comparison of two box coordinates: ('gt', a, b, negated)"""
    x = strip_upd(v)
    neg = False
    while x[0] == 'op' and x[1] == 'not':
        neg = not neg
        x = strip_upd(x[2])
    if x[0] != 'op' or x[1] not in ('gt', 'lt', 'ge', 'le') or len(x) != 4:
        return None
    a, b = box_coord(x[2], p, roles), box_coord(x[3], p, roles)
    if a is None or b is None:
        return None
    op = x[1]
    if op == 'lt':
        a, b, op = b, a, 'gt'
    elif op == 'le':          # a <= b  ==  !(a > b)
        op, neg = 'gt', not neg
    elif op == 'ge':          # a >= b  ==  !(b > a)
        a, b, op, neg = b, a, 'gt', not neg
    return ('gt', a, b, neg)


EXPECTED_DISJOINT = [('s.min.x', 'c.max.x'), ('c.min.x', 's.max.x'), ('s.min.y', 'c.max.y'), ('c.min.y', 's.max.y')]


def check_box_test(ctx, rep, rule='B-test'):
    """which way boolean_operation goes for each outcome of the four disjointness comparisons (16 rows x 4 operations)"""
    t = shortcut_rows(ctx, rep, rule)
    if t is None:
        return None
    b, ps, rows = t
    variants = ctx.facts().enum_variants('boolean::Operation') or []
    atoms = set(a for (box, _, _, _) in rows for a, _ in box)
    extra = sorted(a for a in atoms if a not in EXPECTED_DISJOINT)
    missing = sorted(a for a in EXPECTED_DISJOINT if a not in atoms)
    rep.ob(rule, 'strict-corner-comparisons', not extra and not missing,
           'the shortcut must test exactly the strict comparisons %s; unexpected %s, missing %s (a non-strict or swapped comparison '
           'returns touching operands side by side / skips the shortcut)' % (['%s > %s' % a for a in EXPECTED_DISJOINT],
                                                                             ['%s > %s' % a for a in extra], ['%s > %s' % a for a in missing]),
           loc=b.loc(b.j['line_lo']), reason='table-row')
    n = 0
    if not extra and not missing:
        for combo in itertools.product((False, True), repeat=4):
            val = dict(zip(EXPECTED_DISJOINT, combo))
            outs = set()
            for op in variants:
                got = set(o for (o, _) in _rows_for(rows, val, op, variants))
                outs |= got or {'none'}
            exp = 'early' if any(combo) else 'full'
            n += 1
            names = {'early': 'shortcut', 'full': 'sweep', 'none': 'no'}
            rep.ob(rule, 'row:' + ''.join(str(int(c)) for c in combo), outs == {exp},
                   'with disjointness tests %s the routine takes the %s path, expected %s'
                   % (dict(('%s>%s' % k, v) for k, v in val.items()), sorted(names[o] for o in outs), names[exp]),
                   loc=b.loc(b.j['line_lo']), reason='table-row')
    rep.rows_compared += n * max(1, len(variants))
    return b, ps


def check_initial_boxes(ctx, rep, rule='L-empty'):
    """both boxes start as (min=+inf, max=-inf) and are only handed to fill_queue before the test"""
    b, ps = rep.explore(ctx, BOOLOP, rule)
    if b is None:
        return
    done = False
    for p in ps:
        for e in p.calls('fill_queue'):
            if done:
                continue
            done = True
            for idx, role in ((2, 'sbbox'), (3, 'cbbox')):
                a = strip_upd(e['args'][idx])
                # value of the local right before the call
                init = e.get('ref_vals', {}).get(idx)
                ok = False
                desc = show(noepoch(init))[:140] if init is not None else 'unknown'
                if init is not None:
                    v = strip_upd(init)
                    if v[0] == 'agg' and v[5].endswith('BoundingBox'):
                        d = dict(zip(v[3], v[4]))
                        mn, mx = strip_upd(d['min']), strip_upd(d['max'])
                        def const_calls(c, suffix):
                            return c[0] == 'agg' and all(strip_upd(z)[0] in ('pcall', 'call') and strip_upd(z)[1].endswith(suffix) for z in c[4])
                        ok = const_calls(mn, 'Float::infinity') and const_calls(mx, 'Float::neg_infinity')
                rep.ob(rule, 'initial-%s' % role, ok, '%s must start as min=(+inf,+inf), max=(-inf,-inf) so that an operand without '
                       'edges is disjoint from everything; it starts as %s' % (role, desc), loc=b.loc(e['line']), reason='provenance')
            # argument routing: subject, clipping, &sbbox, &cbbox, operation
            ok = params_in(e['args'][0]) == {'subject'} and params_in(e['args'][1]) == {'clipping'} and params_in(e['args'][4]) == {'operation'}
            rep.ob(rule, 'fill_queue-arguments', ok, 'fill_queue must receive (subject, clipping, .., operation) in this order',
                   loc=b.loc(e['line']), reason='provenance')
    rep.ob(rule, 'fill_queue-called', done, 'boolean_operation does not call fill_queue', reason='anchor-missing')
    # fill_queue itself never writes a box: it only hands them to process_polygon
    bf, pf = rep.explore(ctx, 'boolean::fill_queue::fill_queue', rule)
    if bf is not None:
        stores = [e for p in pf for e in p.events if e['k'] == 'store' and e.get('depth', 0) == 0]
        rep.ob(rule, 'boxes-written-only-per-edge', not stores,
               'fill_queue writes through a pointer itself (%d stores); boxes must only be updated per non-collapsed edge' % len(stores),
               loc=bf.loc(stores[0]['line']) if stores else None, reason='dominance')


def check_pipeline(ctx, rep, rule='T-pipeline'):
    b, ps = rep.explore(ctx, BOOLOP, rule)
    if b is None:
        return
    full = [p for p in ps if p.end == 'return' and any(True for _ in p.calls('subdivide'))]
    rep.floor(rule, 'full-sweep paths', len(full), 1)
    for p in full:
        fq = list(p.calls('fill_queue'))
        sd = list(p.calls('subdivide'))
        ce = list(p.calls('connect_edges'))
        ok = len(fq) == 1 and len(sd) == 1 and len(ce) == 1
        msg = 'stages called %d/%d/%d times' % (len(fq), len(sd), len(ce))
        if ok:
            mem = p.final.mem
            q = strip_upd(sd[0]['args'][0])
            qv = sd[0].get('ref_vals', {}).get(0)
            if qv is None:
                qv = mem.get(q[1]) if q[0] == 'ref' else None
            q_ok = qv is not None and any(x[0] == 'call' and x[1].endswith('fill_queue') for x in sym.walk(qv))
            s_box = strip_upd(sd[0]['args'][1])
            c_box = strip_upd(sd[0]['args'][2])
            fs, fc = strip_upd(fq[0]['args'][2]), strip_upd(fq[0]['args'][3])
            boxes_ok = s_box[0] == 'ref' and c_box[0] == 'ref' and s_box[1] == fs[1] and c_box[1] == fc[1]
            op_ok = params_in(sd[0]['args'][3]) == {'operation'}
            ce_ok = any(x[0] == 'call' and x[1].endswith('subdivide') for x in tree(ce[0]['args'][0], p))
            ret_ok = any(x[0] == 'call' and x[1].endswith('connect_edges') for x in tree(p.ret, p))
            if not ret_ok:
                # the polygon list is a loop-carried local filled by push(Polygon::new(..)) (what goes into it is T-assemble's business)
                r_ = strip_upd(p.ret)
                pl = strip_upd(r_[4][0]) if r_[0] == 'agg' and r_[4] else r_
                if pl[0] == 'havoc':
                    for q in ps:
                        for e2 in q.calls():
                            tg = strip_upd(e2['args'][0]) if e2['args'] else ('c', 0)
                            if e2['callee'].endswith('::push') and 'Vec' in e2['callee'] and tg[0] == 'ref' and tg[1][0][0] == 'loc' \
                                    and tg[1][0][2] == pl[2] and any(x[0] == 'call' and x[1].endswith('Polygon::<T>::new') for x in sym.walk(e2['args'][1])):
                                ret_ok = True
            ok = q_ok and boxes_ok and op_ok and ce_ok and ret_ok
            msg = 'queue-from-fill_queue=%s, boxes (sbbox, cbbox) passed in the same roles=%s, operation passed on=%s, ' \
                  'connect_edges(subdivide result)=%s, result built from the contours=%s' % (q_ok, boxes_ok, op_ok, ce_ok, ret_ok)
        rep.ob(rule, 'fill-subdivide-connect', ok, 'the non-trivial path must be connect_edges(subdivide(fill_queue(..))): ' + msg,
               loc=b.loc(sd[0]['line']) if sd else b.loc(b.j['line_lo']), reason='provenance')


def own_field(v, field, wrapped=True):
    """v is (a transparent clone of) a reference to FIELD of the closure's own argument (the contour being mapped)"""
    x = strip_upd(v)
    if wrapped:
        if not (x[0] in ('call', 'pcall') and TRANSPARENT.search(x[1]) and len(x[2]) == 1):
            return False
        x = strip_upd(x[2][0])
    if x[0] == 'ref' and x[1][1] == (('f', field),) and x[1][0][0] == 'ext':
        return any(y[0] == 'param' and y[1] == 2 for y in sym.walk(x[1][0][1]))
    return False


def _base_of(v):
    """the value a chain of field / deref / variant / reference projections starts from"""
    x = strip_upd(v)
    for _ in range(40):
        if x[0] in ('deref', 'refval', 'rcptr') and len(x) > 1:
            x = strip_upd(x[1])
        elif x[0] in ('field', 'variant'):
            x = strip_upd(x[1])
        elif x[0] == 'ref' and x[1][0][0] == 'ext':
            x = strip_upd(x[1][0][1])
        else:
            break
    return x


def _last_field(v):
    x = strip_upd(v)
    for _ in range(40):
        if x[0] == 'ref' and x[1][1] and x[1][1][-1][0] == 'f':
            return x[1][1][-1][1]
        if x[0] == 'field':
            return x[2]
        if x[0] in ('deref', 'refval') and len(x) > 1:
            x = strip_upd(x[1])
            continue
        if x[0] in ('call', 'pcall') and TRANSPARENT.search(x[1]) and len(x[2]) == 1:
            x = strip_upd(x[2][0])
            continue
        break
    return None


def _unwrap_transparent(v):
    x = strip_upd(v)
    while x[0] in ('call', 'pcall') and TRANSPARENT.search(x[1]) and len(x[2]) == 1:
        x = strip_upd(x[2][0])
    return x


class _Unit:
    """where polygons are built: the closure mapped over the contours (the contour is its argument) or the body of a loop over
    the contours (the contour is the payload of that loop's iterator)"""

    def __init__(self, body, paths, kind, src_param=None):
        self.body, self.paths, self.kind = body, paths, kind
        self.src_param = src_param      # the assembly lives in a helper: index of the parameter that receives the contour list

    def is_contours(self, v, p):
        """v derives from the contour list (the result of connect_edges, or the helper's parameter that receives it)"""
        if self.src_param is not None:
            return any(y[0] == 'param' and y[1] == self.src_param for y in tree(v, p))
        return any(y[0] == 'call' and y[1].endswith('connect_edges') for y in tree(v, p))

    def iter_kind(self, nxt, p):
        """'contours' / 'hole_ids' / None for the iterator a `next` call advances"""
        for x in self._iter_state(nxt, p):
            if x[0] in ('call', 'pcall') and (x[1].endswith('into_iter') or x[1].endswith('::iter')) and x[2]:
                src = x[2][0]
                if self.is_contours(src, p) and _last_field(src) != 'hole_ids':
                    return 'contours'
                if _last_field(src) == 'hole_ids' and self.own(src, p, allow_iter=False):
                    return 'hole_ids'
        return None

    def _iter_state(self, nxt, p):
        """sub-terms of the iterator a `next` call advances: its current value and, for a loop-carried iterator, the value it had
        when the loop was entered (the state itself is havocked at the loop head)"""
        arg = nxt[2][0] if nxt[0] in ('call', 'pcall') and nxt[2] else nxt
        out = list(tree(arg, p))
        a = strip_upd(arg)
        if a[0] == 'ref' and a[1][0][0] == 'loc':
            for e in p.events:
                if e['k'] == 'loophead' and a[1][0][2] in e.get('pre', {}):
                    out += tree(e['pre'][a[1][0][2]], p)
        return out

    def own(self, v, p, allow_iter=True):
        b = _base_of(_unwrap_transparent(v))
        if self.kind == 'closure':
            return b[0] == 'param' and b[1] == 2
        if b[0] in ('call', 'pcall') and b[1].endswith('::next') and allow_iter is not None:
            return self.iter_kind(b, p) == 'contours' if allow_iter else self._is_contour_next(b, p)
        return False

    def _is_contour_next(self, b, p):
        for x in self._iter_state(b, p):
            if x[0] in ('call', 'pcall') and (x[1].endswith('into_iter') or x[1].endswith('::iter')) and x[2]:
                if self.is_contours(x[2][0], p):
                    return True
        return False

    def contours_value(self, v, p):
        """v denotes the whole contour list (closure environment / the local holding connect_edges' result)"""
        if self.kind == 'closure' and any(x[0] == 'param' and x[1] == 1 for x in sym.walk(v)):
            return True
        return self.is_contours(v, p)


def _hole_ring_ok(unit, v, p, idx_own):
    """v is LineString(clone(contours[h].points)) with h = idx_own(index value)"""
    v = strip_upd(v)
    if not (v[0] == 'agg' and v[5].endswith('LineString') and len(v[4]) == 1):
        return False
    r = _unwrap_transparent(v[4][0])
    if _last_field(r) != 'points':
        return False
    # indexing a slice is a place projection, indexing a Vec a call of Index::index
    rr = strip_upd(r)
    if rr[0] == 'ref' and len(rr[1][1]) >= 2 and rr[1][1][-2][0] == 'i' and rr[1][0][0] == 'ext':
        return unit.contours_value(rr[1][0][1], p) and idx_own(rr[1][1][-2][1])
    ix = _base_of(r)
    if not (ix[0] in ('call', 'pcall') and re.search(r'Index<.*>>::index$', ix[1]) and len(ix[2]) == 2):
        return False
    return unit.contours_value(ix[2][0], p) and idx_own(ix[2][1])


def check_assemble(ctx, rep, rule='T-assemble'):
    """polygons are emitted for exterior contours only; exterior ring = that contour's points; holes = points of the contours
    listed in that contour's hole_ids.  Accepted forms: contours.iter().filter(f).map(m).collect() or a loop over the contours
    with a guard; holes pushed in a loop over hole_ids or hole_ids.iter().map(h).collect()."""
    f = ctx.facts()
    b, ps = rep.explore(ctx, BOOLOP, rule)
    if b is None:
        return
    # the assembly may live in a private helper that is handed the contour list: then that helper is the anchor and its
    # parameter plays the part of connect_edges' result
    src_param = None
    if not any(e['callee'].endswith('Polygon::<T>::new') for p in ps for e in p.calls(depth0=False)):
        for p in ps:
            for e in p.calls():
                hb_ = f.bodies.get(e['callee'])
                if hb_ is None or e.get('inlined') or e['callee'].endswith('connect_edges') or '{closure' in e['callee']:
                    continue
                ks = [i for i, a in enumerate(e['args']) if any(x[0] == 'call' and x[1].endswith('connect_edges') for x in tree(a, p))]
                if len(ks) == 1 and src_param is None:
                    hb2, hps = rep.explore(ctx, e['callee'], rule)
                    if hb2 is not None:
                        b, ps, src_param = hb2, hps, ks[0] + 1
    probe = _Unit(b, ps, 'loop', src_param)
    filt = mapper = None
    for p in ps:
        for e in p.calls(depth0=False):       # also inside a straight-line helper that was inlined
            if e['callee'].endswith('Iterator::filter') and len(e['args']) == 2:
                c = strip_upd(e['args'][1])
                if c[0] == 'agg' and c[1] == 'closure' and probe.is_contours(e['args'][0], p):
                    filt = c[2]
            if e['callee'].endswith('Iterator::map') and len(e['args']) == 2:
                c = strip_upd(e['args'][1])
                if c[0] == 'agg' and c[1] == 'closure' and probe.is_contours(e['args'][0], p):
                    mapper = c[2]
    guard_ok = None
    if mapper is not None:
        bm, pm = rep.explore(ctx, mapper, rule)
        unit = _Unit(bm, pm or [], 'closure')
        # the guard is the filter closure
        if filt is not None:
            bf, pf = rep.explore(ctx, filt, rule)
            guard_ok = bool(pf)
            found = None
            for p in pf or []:
                if p.end != 'return':
                    continue
                r = strip_upd(p.ret)
                found = show(noepoch(r))[:100]
                arg_ok = r[0] in ('pcall', 'call') and r[1].endswith('Option::<T>::is_none') and _last_field(r[2][0]) == 'hole_of' \
                    and _base_of(r[2][0])[0] == 'param' and _base_of(r[2][0])[1] == 2
                guard_ok = guard_ok and arg_ok and not p.conds
            rep.ob(rule, 'only-exterior-contours', bool(guard_ok),
                   'a polygon must be emitted exactly for contours with hole_of == None; the filter returns %s' % found,
                   loc=bf.loc(bf.j['line_lo']) if bf else None, reason='table-row')
        else:
            rep.ob(rule, 'only-exterior-contours', False, 'the contours are mapped to polygons without a filter on hole_of',
                   loc=b.loc(b.j['line_lo']), reason='table-row')
    else:
        unit = _Unit(b, ps, 'loop', src_param)
    # polygon creation sites
    n_poly = 0
    ext_ok = True
    ext_found = None
    holes_src_ok = True
    hole_locals = set()
    hole_closures = set()
    for p in unit.paths:
        for e in p.calls(depth0=False):
            if not e['callee'].endswith('Polygon::<T>::new'):
                continue
            n_poly += 1
            ex = strip_upd(e['args'][0])
            ext_found = show(noepoch(ex))[:100]
            ok = ex[0] == 'agg' and ex[5].endswith('LineString') and len(ex[4]) == 1
            if ok:
                inner = _unwrap_transparent(ex[4][0])
                ok = _last_field(inner) == 'points' and unit.own(inner, p) and _base_of(inner)[0] != 'call' or \
                    (_last_field(inner) == 'points' and unit.own(inner, p))
            ext_ok = ext_ok and ok
            if unit.kind == 'loop':
                # guard: the path must have established hole_of == None for the same contour
                g = False
                for (v, c) in p.conds:
                    x = strip_upd(v)
                    if x[0] in ('call', 'pcall') and x[1].endswith('Option::<T>::is_none') and _last_field(x[2][0]) == 'hole_of' \
                            and unit.own(x[2][0], p) and bool(c[1]) is True:
                        g = True
                    if x[0] == 'discr' and _last_field(x[1]) == 'hole_of' and unit.own(x[1], p) and c == ('eq', 0):
                        g = True
                guard_ok = g if guard_ok is None else (guard_ok and g)
            # the holes argument: a local filled by pushes, or collect(map(iter(own.hole_ids), closure))
            hv = strip_upd(e['args'][1])
            srcs = [x for x in tree(hv, p) if x[0] in ('call', 'pcall') and x[1].endswith('Iterator::map') and len(x[2]) == 2]
            if srcs:
                c = strip_upd(srcs[0][2][1])
                recv = _unwrap_transparent(srcs[0][2][0])
                recv_ok = _last_field(recv) == 'hole_ids' and unit.own(recv, p)
                if c[0] == 'agg' and c[1] == 'closure' and recv_ok:
                    hole_closures.add(c[2])
                else:
                    holes_src_ok = False
            elif hv[0] == 'havoc':
                hole_locals.add(hv[2])
            elif hv[0] == 'vec' and hv[1] == ():
                pass            # no holes on this path (empty list built on the path)
            else:
                loc_refs = [x for x in sym.walk(hv) if x[0] == 'ref' and x[1][0][0] == 'loc']
                if loc_refs:
                    hole_locals.update(x[1][0][2] for x in loc_refs)
                else:
                    holes_src_ok = False
    if unit.kind == 'loop':
        rep.ob(rule, 'only-exterior-contours', bool(guard_ok),
               'a polygon must be emitted exactly for contours with hole_of == None: the loop over the contours builds a polygon on a path '
               'that has not tested hole_of of the current contour', loc=b.loc(b.j['line_lo']), reason='table-row')
        # and every exterior contour gets one: the paths with hole_of == None that reach the next contour build a polygon
        missing = False
        for p in unit.paths:
            if p.end != 'backedge':
                continue
            is_ext = any(strip_upd(v)[0] in ('call', 'pcall') and strip_upd(v)[1].endswith('Option::<T>::is_none') and bool(c[1]) and
                         _last_field(strip_upd(v)[2][0]) == 'hole_of' and unit.own(strip_upd(v)[2][0], p) for (v, c) in p.conds)
            outer = any(e['k'] == 'loophead' and e['bb'] == p.end_info for e in p.events) and \
                not any(e['callee'].endswith('::next') and unit.iter_kind(strip_upd(e['ret']), p) == 'hole_ids' and
                        any(strip_upd(v)[0] == 'discr' and strip_upd(strip_upd(v)[1]) == strip_upd(e['ret']) and c == ('eq', 1) for (v, c) in p.conds)
                        for e in p.calls())
            if is_ext and outer and not any(e['callee'].endswith('Polygon::<T>::new') for e in p.calls()):
                missing = True
        rep.ob(rule, 'every-exterior-contour-emitted', not missing, 'a path through the loop over the contours skips an exterior contour',
               loc=b.loc(b.j['line_lo']), reason='table-row')
    rep.ob(rule, 'polygon-built-per-contour', n_poly >= 1, 'no Polygon::new found where the contours are turned into polygons',
           loc=b.loc(b.j['line_lo']), reason='anchor-missing')
    rep.ob(rule, 'exterior-ring-from-own-points', ext_ok and n_poly >= 1,
           'the exterior ring must be a clone of the contour\'s own points; found %s' % ext_found,
           loc=unit.body.loc(unit.body.j['line_lo']), reason='provenance')
    # the holes
    holes_ok = holes_src_ok and bool(hole_locals or hole_closures)
    holes_found = None
    n_hole_sites = 0
    for hc in sorted(hole_closures):
        bh, ph = rep.explore(ctx, hc, rule)
        for p in ph or []:
            if p.end != 'return':
                continue
            n_hole_sites += 1
            holes_found = show(noepoch(p.ret))[:140]
            hunit = _Unit(bh, ph, 'closure')
            ok = _hole_ring_ok(hunit, p.ret, p, lambda ix: _base_of(ix)[0] == 'param' and _base_of(ix)[1] == 2 or
                               any(x[0] == 'param' and x[1] == 2 for x in sym.walk(ix)))
            holes_ok = holes_ok and ok
    if hole_locals:
        for p in unit.paths:
            for e in p.calls():
                if not (e['callee'].endswith('::push') and 'Vec' in e['callee']):
                    continue
                tgt = strip_upd(e['args'][0])
                if not (tgt[0] == 'ref' and tgt[1][0][0] == 'loc' and tgt[1][0][2] in hole_locals):
                    continue
                n_hole_sites += 1
                holes_found = show(noepoch(e['args'][1]))[:160]

                def idx_own(ix, p=p):
                    for x in sym.walk(ix):
                        if x[0] in ('call', 'pcall') and x[1].endswith('::next') and unit.iter_kind(x, p) == 'hole_ids':
                            return True
                    return False
                holes_ok = holes_ok and _hole_ring_ok(unit, e['args'][1], p, idx_own)
    rep.ob(rule, 'holes-from-own-hole_ids', holes_ok and n_hole_sites >= 1,
           'interior rings must be the points of contours[h] for h in this contour\'s hole_ids; found %s' % holes_found,
           loc=unit.body.loc(unit.body.j['line_lo']), reason='provenance')
