"""C09 far-away parts and early exits (partly decided: each shortcut fires only under its geometric precondition, and the
bounding-box shortcut returns what the sweep would return for operands that cannot interact: the trivial-result table)."""
from rules import oprules, sweeprules, fillrules

from rules import looprules

LEVEL = 'other'
EXPLANATION = __doc__


def run(ctx, rep):
    fillrules.check_process_polygon(ctx, rep, rules=('S-fill', 'W-left', 'W-collapsed', 'W-iter', 'B-acc'))
    fillrules.check_fill_queue(ctx, rep)
    oprules.check_box_test(ctx, rep)
    oprules.check_initial_boxes(ctx, rep)
    oprules.check_pipeline(ctx, rep)
    oprules.check_trivial(ctx, rep)
    sweeprules.check_break(ctx, rep)
    looprules.check_loops(ctx, rep)
