"""Exact rational-function normal form for value trees built from + - * / over input coordinates.

A polynomial is a dict {monomial: Fraction} with monomial = sorted tuple of (variable, exponent); a rational function is a
pair (numerator, denominator).  Two value trees denote the same real-arithmetic formula iff n1*d2 - n2*d1 is the zero
polynomial: this identifies `a1 + s*(a2-a1)` with `(1-s)*a1 + s*a2` or with operands commuted, and distinguishes every
formula that differs as a function of the inputs.  min/max are not rational: `alternatives` returns the finite set of
rational functions a tree can evaluate to (one per outcome of the comparisons inside min/max).

Nothing is evaluated numerically and no solver is involved; this is normalisation of syntax."""
import re
from fractions import Fraction
from sym import strip_upd, show, noepoch
from rules.degreerules import callee_kind


class NotRational(Exception):
    pass


def pconst(c):
    c = Fraction(c)
    return {(): c} if c != 0 else {}


def pvar(name):
    return {((name, 1),): Fraction(1)}


def padd(a, b, sign=1):
    out = dict(a)
    for m, c in b.items():
        v = out.get(m, 0) + sign * c
        if v == 0:
            out.pop(m, None)
        else:
            out[m] = v
    return out


def mmul(m1, m2):
    d = dict(m1)
    for v, e in m2:
        d[v] = d.get(v, 0) + e
    return tuple(sorted(d.items()))


def pmul(a, b):
    out = {}
    for m1, c1 in a.items():
        for m2, c2 in b.items():
            m = mmul(m1, m2)
            v = out.get(m, 0) + c1 * c2
            if v == 0:
                out.pop(m, None)
            else:
                out[m] = v
    return out


def psubst(p, env):
    """substitute polynomials for variables"""
    out = {}
    for m, c in p.items():
        term = pconst(c)
        for v, e in m:
            rep = env.get(v)
            base = rep if rep is not None else pvar(v)
            for _ in range(e):
                term = pmul(term, base)
        out = padd(out, term)
    return out


class Rat:
    __slots__ = ('n', 'd')

    def __init__(self, n, d=None):
        self.n = n
        self.d = d if d is not None else pconst(1)

    def __add__(self, o):
        return Rat(padd(pmul(self.n, o.d), pmul(o.n, self.d)), pmul(self.d, o.d))

    def __sub__(self, o):
        return Rat(padd(pmul(self.n, o.d), pmul(o.n, self.d), -1), pmul(self.d, o.d))

    def __mul__(self, o):
        return Rat(pmul(self.n, o.n), pmul(self.d, o.d))

    def __truediv__(self, o):
        return Rat(pmul(self.n, o.d), pmul(self.d, o.n))

    def __neg__(self):
        return Rat(padd({}, self.n, -1), self.d)

    def same(self, o):
        return padd(pmul(self.n, o.d), pmul(o.n, self.d), -1) == {}

    def is_zero(self):
        return self.n == {}

    def subst(self, env):
        return Rat(psubst(self.n, env), psubst(self.d, env))

    def proportional(self, o):
        """self == c * o for a non-zero rational constant c"""
        if self.is_zero() or o.is_zero():
            return False
        a, b = pmul(self.n, o.d), pmul(o.n, self.d)
        if set(a) != set(b):
            return False
        ratios = set(a[m] / b[m] for m in a)
        return len(ratios) == 1


def const(c):
    return Rat(pconst(c))


def var(name):
    return Rat(pvar(name))


def leaf_name(x):
    """dotted name of a parameter projection"""
    parts = []
    while x[0] == 'field':
        parts.append(str(x[2]))
        x = strip_upd(x[1])
    if x[0] == 'deref':
        return leaf_name(strip_upd(x[1]))
    if x[0] == 'param':
        return '.'.join([x[2]] + parts[::-1])
    return None


def alternatives(v, limit=64):
    """the set (list) of rational functions the value tree can denote"""
    x = strip_upd(v)
    k = x[0]
    if k == 'c':
        c = x[1]
        if isinstance(c, tuple) and c[0] == 'float':
            try:
                return [const(Fraction(c[1]))]
            except (ValueError, ZeroDivisionError):
                raise NotRational('float literal %s' % (c,))
        if isinstance(c, (int,)) and not isinstance(c, bool):
            return [const(c)]
        raise NotRational('constant %s' % (c,))
    if k == 'field':
        inner = strip_upd(x[1])
        if inner[0] == 'agg' and x[2] in inner[3]:
            return alternatives(inner[4][inner[3].index(x[2])], limit)
        # geo-types Coord arithmetic is component-wise (trusted): (a - b).x = a.x - b.x, (a * k).x = a.x * k
        if inner[0] in ('pcall', 'call') and x[2] in ('x', 'y') and re.search(r'geo_types::Coord<T> as std::ops::(Add|Sub|Neg|Mul<T>|Div<T>)>::(add|sub|neg|mul|div)$', inner[1]):
            m = inner[1].rsplit('::', 1)[1]
            if m == 'neg':
                return [-a for a in alternatives(('field', inner[2][0], x[2]), limit)]
            lhs = alternatives(('field', inner[2][0], x[2]), limit)
            rhs = alternatives(('field', inner[2][1], x[2]) if m in ('add', 'sub') else inner[2][1], limit)
            out = []
            for a in lhs:
                for b in rhs:
                    out.append({'add': a.__add__, 'sub': a.__sub__, 'mul': a.__mul__, 'div': a.__truediv__}[m](b))
            return dedup(out, limit)
        nm = leaf_name(x)
        if nm is not None:
            return [var(nm)]
        raise NotRational(show(noepoch(x))[:60])
    if k in ('pcall', 'call'):
        kind = callee_kind(x[1])
        if kind in ('add', 'sub', 'mul', 'div'):
            out = []
            for a in alternatives(x[2][0], limit):
                for b in alternatives(x[2][1], limit):
                    out.append({'add': a.__add__, 'sub': a.__sub__, 'mul': a.__mul__, 'div': a.__truediv__}[kind](b))
            return dedup(out, limit)
        if kind == 'neg':
            return [-a for a in alternatives(x[2][0], limit)]
        if kind == 'minmax':
            return dedup(alternatives(x[2][0], limit) + alternatives(x[2][1], limit), limit)
        if kind == 'poly' and x[1].endswith('Zero::zero'):
            return [const(0)]
        if kind == 'one':
            return [const(1)]
        if kind == 'same' and x[2]:
            return alternatives(x[2][0], limit)
        raise NotRational('call %s' % x[1][-40:])
    if k == 'op' and x[1] in ('add', 'sub', 'mul', 'div') and len(x) == 4:
        out = []
        for a in alternatives(x[2], limit):
            for b in alternatives(x[3], limit):
                out.append({'add': a.__add__, 'sub': a.__sub__, 'mul': a.__mul__, 'div': a.__truediv__}[x[1]](b))
        return dedup(out, limit)
    if k == 'op' and x[1] == 'neg':
        return [-a for a in alternatives(x[2], limit)]
    if k == 'deref':
        return alternatives(x[1], limit)
    if k == 'param':
        return [var(x[2])]
    raise NotRational(show(noepoch(x))[:60])


def dedup(rs, limit):
    out = []
    for r in rs:
        if not any(r.same(o) for o in out):
            out.append(r)
    if len(out) > limit:
        raise NotRational('too many alternatives')
    return out


def single(v):
    a = alternatives(v)
    if len(a) != 1:
        raise NotRational('not a single rational function (min/max inside)')
    return a[0]
