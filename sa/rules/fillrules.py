"""Rules on event creation: process_polygon / fill_queue (S-fill, W-left, W-collapsed, W-iter, B-acc, X-opsites) and
divide_segment (S-divide, I-private-bump).  Used by C04, C05, C07, C09, C13, C16."""
import re
import sym
from sym import show, noepoch, strip_upd, short
from rules.tables import obj_root, event_cell_stores, atom_name

PROCESS = 'boolean::fill_queue::process_polygon'
FILL = 'boolean::fill_queue::fill_queue'
DIVIDE = 'boolean::divide_segment::divide_segment'


def new_events(p):
    """SweepEvent creations on a path: list of dict(fields..., site, value) in order"""
    out = []
    for e in p.events:
        if e['k'] == 'call' and re.search(r'rc::Rc::<T>::new$', e['callee']):
            a = strip_upd(e['args'][0])
            if a[0] == 'agg' and a[5].endswith('SweepEvent'):
                d = dict(zip(a[3], a[4]))
                m = strip_upd(d.get('mutable', ('c', 0)))
                if m[0] in ('call', 'pcall') and m[1].endswith('RefCell::<T>::new'):
                    mp = strip_upd(m[2][0])
                    if mp[0] == 'agg':
                        d.update(dict(zip(mp[3], mp[4])))
                d['_value'] = e['ret']
                d['_line'] = e['line']
                d['_depth'] = e['depth']
                out.append(d)
    return out


def name_events(p, evs, names):
    """alias map from the Rc values of created events to short names"""
    alias = {}
    for d, n in zip(evs, names):
        alias[show(noepoch(d['_value']))] = n
    return alias


def weak_target(v, p, alias):
    x = strip_upd(v)
    if x[0] in ('call', 'pcall') and x[1].endswith('::downgrade'):
        return obj_root(x[2][0], alias, p.final.mem)
    if x[0] in ('call', 'pcall') and re.search(r'Weak::<T>::new$', x[1]):
        return 'none'
    return 'other:' + show(noepoch(x))[:60]


def line_point(v):
    """'start' / 'end' when v is that field of the current line (payload of the lines iterator)"""
    x = strip_upd(v)
    if x[0] == 'field' and x[2] in ('start', 'end'):
        src = strip_upd(x[1])
        # `for (i, line) in ring.lines().enumerate()`: the line is the second component of the payload
        if src[0] == 'field' and str(src[2]) == '1' and strip_upd(src[1])[0] == 'field' and str(strip_upd(src[1])[2]) == '0' \
                and strip_upd(strip_upd(src[1])[1])[0] == 'variant':
            it0 = strip_upd(strip_upd(strip_upd(src[1])[1])[1])
            if it0[0] in ('call', 'pcall') and 'Enumerate<' in it0[1] and it0[1].endswith('::next'):
                src = strip_upd(src[1])
        if src[0] == 'field' and str(src[2]) == '0' and strip_upd(src[1])[0] == 'variant':
            it = strip_upd(strip_upd(src[1])[1])
            if it[0] in ('call', 'pcall') and it[1].endswith('::next'):
                return x[2]
    return None


def coord_of_line(v):
    """('start'|'end', 'x'|'y') when v is a coordinate of an endpoint of the current line"""
    x = strip_upd(v)
    if x[0] == 'field' and x[2] in ('x', 'y'):
        w = line_point(x[1])
        if w:
            return (w, x[2])
    return None


def is_const_bool(v, b):
    x = strip_upd(v)
    return x[0] == 'c' and x[1] is b


def param_name(v):
    x = strip_upd(v)
    return x[2] if x[0] == 'param' else None


def filter_skips_collapsed(ctx, rep, p):
    """True when the ring loop of this path iterates `lines(contour_or_hole).filter(closure)` and the closure is exactly
    `line.start != line.end` (trusting std::iter::Filter to yield the items the closure accepts)"""
    nxt = [e for e in p.calls() if e['callee'].endswith('::next')]
    if not nxt or not all('Filter<' in e['callee'] for e in nxt):
        return False
    fl = [e for e in p.calls() if e['callee'].endswith('::filter') and 'Iterator' in e['callee'] and len(e['args']) == 2]
    if len(fl) != 1:
        return False
    recv_ok = any(x[0] in ('call', 'pcall') and x[1].endswith('::lines') and x[2] and param_name(x[2][0]) == 'contour_or_hole'
                  for x in sym.walk(fl[0]['args'][0]))
    c = strip_upd(fl[0]['args'][1])
    if not recv_ok or c[0] != 'agg' or c[1] != 'closure' or c[2] not in ctx.facts().bodies:
        return False
    try:
        cb, cps = ctx.paths(c[2])
    except sym.CannotAnalyse:
        return False
    rep.analysed.add(c[2])

    def own_point(v):
        x = strip_upd(v)
        if x[0] == 'field' and x[2] in ('start', 'end'):
            y = strip_upd(x[1])
            while y[0] in ('deref', 'refval') and len(y) > 1:
                y = strip_upd(y[1])
            if y[0] == 'param' and y[1] == 2:
                return x[2]
        return None

    def collapsed_atom(x):
        """+1 when x is start == end, -1 when start != end, of the closure's own argument"""
        x = strip_upd(x)
        if x[0] == 'op' and x[1] in ('eq', 'ne') and len(x) == 4 and {own_point(x[2]), own_point(x[3])} == {'start', 'end'}:
            return 1 if x[1] == 'eq' else -1
        if x[0] == 'op' and x[1] == 'not':
            return -collapsed_atom(x[2])
        return 0

    rows = []
    for cp in cps:
        if cp.end != 'return':
            continue
        collapsed = None
        for (v, cnd) in cp.conds:
            a = collapsed_atom(v)
            if a == 0:
                return False
            collapsed = bool(cnd[1]) if a > 0 else (not cnd[1])
        r = strip_upd(sym.simplify(sym.subst(cp.ret, cp.conds)))
        if sym.is_const(r):
            if collapsed is None:
                return False
            rows.append((collapsed, bool(r[1])))
        else:
            a = collapsed_atom(r)
            if a == 0 or collapsed is not None:
                return False
            rows += [(True, a > 0), (False, a < 0)]
    return bool(rows) and all(accept == (not collapsed) for (collapsed, accept) in rows) and {c_ for c_, _ in rows} == {True, False}


def resolve_process_polygon(ctx, rep=None):
    """the private per-ring routine, by name or - after a rename / reordering of its parameters - by what it is: the function of
    fill_queue.rs (other than fill_queue) that takes a `&LineString` and creates the events.  Its parameters get the canonical
    names from their types and from where they flow (the two booleans: 5th and 6th argument of the public SweepEvent::new_rc)."""
    f = ctx.facts()
    if PROCESS in f.bodies:
        return PROCESS
    cache = getattr(ctx, '_resolved_pp', None)
    if cache is None:
        cache = ctx._resolved_pp = {}
    if ctx.config in cache:
        return cache[ctx.config]
    cands = []
    for n, b in f.bodies.items():
        if not n.startswith('boolean::fill_queue::') or n == FILL or '{closure' in n or b.j.get('promoted') is not None:
            continue
        tys = [b.locals[i]['ty'] for i in range(1, b.arg_count + 1)]
        if any(re.match(r'^&(\'\w+ )?geo_types::LineString<', ty) for ty in tys) and b.loops():
            cands.append(n)
    res = None
    if len(cands) == 1:
        n = cands[0]
        b = f.bodies[n]
        tys = [b.locals[i]['ty'] for i in range(1, b.arg_count + 1)]
        names = [None] * b.arg_count
        for i, ty in enumerate(tys):
            if 'LineString<' in ty:
                names[i] = 'contour_or_hole'
            elif ty == 'u32':
                names[i] = 'contour_id'
            elif 'BinaryHeap<' in ty:
                names[i] = 'event_queue'
            elif 'BoundingBox<' in ty:
                names[i] = 'bbox'
        bools = [i for i, ty in enumerate(tys) if ty == 'bool']
        if len(bools) == 2 and all(x is not None for j, x in enumerate(names) if j not in bools):
            # which boolean reaches which argument of new_rc
            sym.CANON_PARAMS[n] = [x or ('flag%d' % j) for j, x in enumerate(names)]
            try:
                bb, ps = ctx.paths(n)
                roles = {}
                for p in ps:
                    for e in p.calls(depth0=False):
                        if e['callee'].endswith('SweepEvent::<F>::new_rc') and len(e['args']) == 6:
                            for pos, role in ((4, 'is_subject'), (5, 'is_exterior_ring')):
                                a = strip_upd(e['args'][pos])
                                if a[0] == 'param' and (a[1] - 1) in bools:
                                    roles.setdefault(a[1] - 1, set()).add(role)
                if all(len(roles.get(j, ())) == 1 for j in bools) and {next(iter(roles[j])) for j in bools} == {'is_subject', 'is_exterior_ring'}:
                    for j in bools:
                        names[j] = next(iter(roles[j]))
                    sym.CANON_PARAMS[n] = names
                    ctx._paths = {k: v for k, v in ctx._paths.items() if k[0] != n}
                    res = n
                else:
                    del sym.CANON_PARAMS[n]
            except sym.CannotAnalyse:
                sym.CANON_PARAMS.pop(n, None)
    cache[ctx.config] = res
    return res


# ------------------------------------------------------------------------------- process_polygon

def check_process_polygon(ctx, rep, rules=('S-fill', 'W-left', 'W-collapsed', 'W-iter', 'B-acc')):
    R_FILL, R_LEFT, R_COLL, R_ITER, R_ACC = rules
    b, ps = rep.explore(ctx, resolve_process_polygon(ctx) or PROCESS, R_FILL)
    if b is None:
        return
    n_paths = 0
    n_acc = 0
    for p in ps:
        if p.end != 'backedge':
            if p.end == 'return':
                evs = new_events(p)
                rep.ob(R_FILL, 'exit-path-creates-nothing', not evs and not any(True for _ in p.calls('push')),
                       'the path leaving the ring loop creates events', loc=b.loc(b.j['line_lo']), reason='dominance')
            continue
        conds = {}
        for (v, c) in p.conds:
            x = strip_upd(v)
            if x[0] == 'op' and x[1] == 'eq' and line_point(x[2]) and line_point(x[3]) and {line_point(x[2]), line_point(x[3])} == {'start', 'end'}:
                conds['collapsed'] = c[1]
            elif x[0] == 'op' and x[1] in ('lt', 'gt', 'le', 'ge'):
                # the two events of a non-collapsed edge lie at different points, so their order is never Equal: <= is <
                conds['order'] = ({'le': 'lt', 'ge': 'gt'}.get(x[1], x[1]), x[2], x[3], c[1])
        if 'collapsed' not in conds and filter_skips_collapsed(ctx, rep, p):
            conds['collapsed'] = False
            rep.ob(R_COLL, 'collapsed-edge-skipped', True, 'collapsed edges are removed by a filter on the ring\'s lines')
        evs = new_events(p)
        pushes = [e for e in p.calls('push') if 'BinaryHeap' in e['callee']]
        stores = [e for e in p.events if e['k'] == 'store']
        if conds.get('collapsed') is True:
            ok = not evs and not pushes and not stores
            rep.ob(R_COLL, 'collapsed-edge-skipped', ok,
                   'an edge with start == end must produce no events and leave the bounding box alone; creates %d events, %d pushes, '
                   '%d stores' % (len(evs), len(pushes), len(stores)), loc=b.loc(b.j['line_lo']), reason='dominance')
            continue
        if conds.get('collapsed') is not False:
            rep.ob(R_COLL, 'creation-guarded-by-collapsed-test', False,
                   'a path creates events without having tested line.start == line.end (conditions: %s)'
                   % [show(noepoch(v))[:50] for v, _ in p.conds], loc=b.loc(evs[0]['_line']) if evs else None, reason='dominance')
            continue
        n_paths += 1
        key = 'order=%s' % (conds['order'][3] if 'order' in conds else '?')
        # S-fill: exactly two events e1(start), e2(end)
        ok = len(evs) == 2 and line_point(evs[0].get('point')) == 'start' and line_point(evs[1].get('point')) == 'end'
        rep.ob(R_FILL, 'two-events-start-end@' + key, ok,
               'each non-collapsed edge must create exactly one event at line.start and one at line.end; found points %s'
               % [show(noepoch(d.get('point', ('c', 0))))[-20:] for d in evs], loc=b.loc(evs[0]['_line']) if evs else None,
               reason='provenance')
        if len(evs) != 2:
            continue
        alias = name_events(p, evs, ['e1', 'e2'])
        e1, e2 = evs
        for d, nm in ((e1, 'e1'), (e2, 'e2')):
            ok = param_name(d.get('contour_id')) == 'contour_id' \
                and param_name(d.get('is_subject')) == 'is_subject' and param_name(d.get('is_exterior_ring')) == 'is_exterior_ring'
            rep.ob(R_FILL, 'event-fields(%s)@%s' % (nm, key), ok,
                   '%s must be created with the ring\'s contour_id / is_subject / is_exterior_ring (its left flag is W-left\'s business); found left=%s '
                   'contour_id=%s is_subject=%s exterior=%s' % (nm, show(d.get('left', ('c', '?'))), show(d.get('contour_id', ('c', '?'))),
                                                               show(d.get('is_subject', ('c', '?'))), show(d.get('is_exterior_ring', ('c', '?')))),
                   loc=b.loc(d['_line']), reason='provenance')
        # links: e2.other = e1 at creation; e1.other <- e2 by a store
        t2 = weak_target(e2.get('other_event'), p, alias)
        cs = event_cell_stores(p)
        link = [(obj_root(ptr, alias, p.final.mem), weak_target(val, p, alias)) for (i, ptr, f, val) in cs if f == 'other_event']
        ok = t2 == 'e1' and link == [('e1', 'e2')]
        rep.ob(R_FILL, 'mutual-links@' + key, ok,
               'the two events of an edge must point at each other: e2.other_event=%s at creation, stores %s' % (t2, link),
               loc=b.loc(e2['_line']), reason='provenance')
        # W-left: after the iteration exactly the event at the lexicographically smaller point (x, then y: the one that comes first
        # in the sweep) is flagged left - whether the flag is given at creation or set after comparing the two events.  Evaluated
        # on concrete end points.
        import itertools as _it

        def ev(v, env):
            x = strip_upd(v)
            if sym.is_const(x):
                return x[1]
            c_ = coord_of_line(x)
            if c_:
                return env[c_[0]][0 if c_[1] == 'x' else 1]
            w_ = line_point(x)
            if w_:
                return env[w_]
            if x[0] == 'agg' and x[1] == 'tuple':
                return tuple(ev(q, env) for q in x[4])
            if x[0] == 'op' and x[1] == 'not':
                return not ev(x[2], env)
            if x[0] == 'op' and len(x) == 4 and x[1] in ('lt', 'gt', 'le', 'ge', 'eq', 'ne', 'bitand', 'bitor', 'bitxor'):
                names_ = [obj_root(q, alias, p.final.mem) for q in (x[2], x[3])]
                if set(names_) == {'e1', 'e2'} and x[1] in ('lt', 'gt', 'le', 'ge'):
                    # Ord of events is the reversed sweep order: a < b  <=>  a comes later  <=>  point(a) > point(b)
                    pa, pb = (env['start'] if n_ == 'e1' else env['end'] for n_ in names_)
                    return {'lt': pa > pb, 'le': pa > pb, 'gt': pa < pb, 'ge': pa < pb}[x[1]]
                l_, r_ = ev(x[2], env), ev(x[3], env)
                return {'lt': l_ < r_, 'gt': l_ > r_, 'le': l_ <= r_, 'ge': l_ >= r_, 'eq': l_ == r_, 'ne': l_ != r_,
                        'bitand': bool(l_) and bool(r_), 'bitor': bool(l_) or bool(r_), 'bitxor': bool(l_) != bool(r_)}[x[1]]
            raise ValueError(show(noepoch(x))[:60])

        final = {'e1': e1.get('left'), 'e2': e2.get('left')}
        for (i, ptr, f, val) in cs:
            if f == 'left':
                who = obj_root(ptr, alias, p.final.mem)
                if who in final:
                    final[who] = val
        bad_left = []
        n_env = 0
        try:
            for sx, sy, ex, ey in _it.product((0, 1), repeat=4):
                if (sx, sy) == (ex, ey):
                    continue
                env = {'start': (sx, sy), 'end': (ex, ey)}
                feasible = True
                for (v, c) in p.conds:
                    try:
                        r_ = ev(noepoch(v), env)
                    except (ValueError, KeyError, TypeError, IndexError):
                        continue
                    if c[0] == 'eq' and bool(r_) != bool(c[1]):
                        feasible = False
                        break
                if not feasible:
                    continue
                n_env += 1
                got = (bool(ev(noepoch(final['e1']), env)), bool(ev(noepoch(final['e2']), env)))
                want = ((sx, sy) < (ex, ey), (sx, sy) > (ex, ey))
                if got != want:
                    bad_left.append((env, got, want))
        except (ValueError, KeyError, TypeError, IndexError) as e_:
            bad_left.append(('not evaluable: %s' % e_, None, None))
        rep.ob(R_LEFT, 'left-flag@' + key, not bad_left and n_env > 0,
               'exactly the event that comes first in sweep order (smaller x, then smaller y) must end up with left=true: %s'
               % ('for %s the flags (e1, e2) are %s, expected %s' % bad_left[0] if bad_left else 'no end-point configuration reaches this path'),
               loc=b.loc(b.j['line_lo']), reason='table-row')
        # pushes
        pushed = [obj_root(e['args'][1], alias, p.final.mem) for e in pushes]
        qs = set(param_name(e['args'][0]) for e in pushes)
        rep.ob(R_FILL, 'both-pushed-once@' + key, sorted(pushed) == ['e1', 'e2'] and qs == {'event_queue'},
               'both events of an edge must be pushed exactly once onto the queue parameter: pushed %s onto %s' % (pushed, qs),
               loc=b.loc(pushes[0]['line']) if pushes else None, reason='provenance')
        # B-acc: the four box updates
        box = {}
        for e in stores:
            base, pth = e['loc']
            if base[0] == 'ext' and param_name(base[1]) == 'bbox' and len(pth) == 2:
                box[(pth[0][1], pth[1][1])] = e
        for corner, axis, fn in (('min', 'x', 'min'), ('min', 'y', 'min'), ('max', 'x', 'max'), ('max', 'y', 'max')):
            e = box.get((corner, axis))
            ok = False
            found = None
            if e is not None:
                v = strip_upd(e['val'])
                if v[0] in ('pcall', 'call') and re.search(r'Float::%s$' % fn, v[1]) and len(v[2]) == 2:
                    args = [acc_arg(a) for a in v[2]]
                    found = (short(v[1]), args)
                    old = ('bbox', corner, axis)
                    ok = old in args and any(isinstance(a, tuple) and a[0] in ('start', 'end') and a[1] == axis for a in args)
                else:
                    found = show(noepoch(v))[:80]
            n_acc += 1
            rep.ob(R_ACC, 'bbox.%s.%s@%s' % (corner, axis, key), ok,
                   'bbox.%s.%s must be updated to %s(bbox.%s.%s, <endpoint>.%s) of the current line; found %s'
                   % (corner, axis, fn, corner, axis, axis, found), loc=b.loc(e['line']) if e else b.loc(b.j['line_lo']),
                   reason='provenance', found=str(found))
        # W-iter: nothing created on this path depends on earlier iterations
        bad = []
        for d in evs:
            for fld in ('point', 'contour_id', 'is_subject', 'is_exterior_ring', 'left'):
                for leaf in sym.walk(d.get(fld, ('c', 0))):
                    if leaf[0] == 'havoc':
                        bad.append((fld, show(leaf)))
        rep.ob(R_ITER, 'no-loop-carried-input@' + key, not bad,
               'event fields depend on state carried over from earlier edges of the ring: %s' % bad, loc=b.loc(b.j['line_lo']),
               reason='provenance')
    rep.floor(R_FILL, 'non-collapsed loop paths', n_paths, 1)
    rep.floor(R_ACC, 'box update sites on paths', n_acc, 4)


def acc_arg(a):
    x = strip_upd(a)
    c = coord_of_line(x)
    if c:
        return c
    if x[0] == 'field' and x[2] in ('x', 'y'):
        m = strip_upd(x[1])
        if m[0] == 'field' and m[2] in ('min', 'max'):
            base = strip_upd(m[1])
            if base[0] == 'deref' and param_name(base[1]) == 'bbox':
                return ('bbox', m[2], x[2])
    return 'other:' + show(noepoch(x))[:50]


def _len_leaf(v):
    """name of the operand whose length v is (slice::len(subject) as u32 -> 'subject')"""
    x = strip_upd(v)
    while x[0] == 'cast':
        x = strip_upd(x[2])
    if x[0] in ('call', 'pcall') and x[1].endswith('::len') and x[2]:
        a = strip_upd(x[2][0])
        while a[0] in ('deref', 'refval', 'ref') and len(a) > 1 and isinstance(a[1], tuple) and a[0] != 'ref':
            a = strip_upd(a[1])
        if a[0] == 'param':
            return a[2]
    return None


def _lin_len(v):
    """linear form over operand lengths: ({'subject': 1}, 0) for len(subject), constants, sums / differences"""
    x = strip_upd(v)
    while x[0] == 'cast':
        x = strip_upd(x[2])
    n = _len_leaf(x)
    if n:
        return ({n: 1}, 0)
    if sym.is_const(x) and isinstance(x[1], int) and not isinstance(x[1], bool):
        return ({}, int(x[1]))
    if x[0] == 'field' and str(x[2]) == '0':
        y = strip_upd(x[1])
        if y[0] == 'op' and y[1] in ('addwithoverflow', 'subwithoverflow') and len(y) == 4:
            a, b_ = _lin_len(y[2]), _lin_len(y[3])
            if a is None or b_ is None:
                return None
            s = 1 if y[1].startswith('add') else -1
            d = dict(a[0])
            for k, c in b_[0].items():
                d[k] = d.get(k, 0) + s * c
            return ({k: c for k, c in d.items() if c}, a[1] + s * b_[1])
    if x[0] == 'op' and x[1] in ('add', 'sub') and len(x) == 4:
        a, b_ = _lin_len(x[2]), _lin_len(x[3])
        if a is None or b_ is None:
            return None
        s = 1 if x[1] == 'add' else -1
        d = dict(a[0])
        for k, c in b_[0].items():
            d[k] = d.get(k, 0) + s * c
        return ({k: c for k, c in d.items() if c}, a[1] + s * b_[1])
    return None


def _range_len(v):
    """number of elements of a range value as a linear form over operand lengths; 'inf' for a.. ; None when unknown"""
    x = strip_upd(v)
    while x[0] in ('call', 'pcall') and x[1].endswith('into_iter') and len(x[2]) == 1:
        x = strip_upd(x[2][0])
    if x[0] == 'agg' and x[5].endswith('RangeFrom'):
        return 'inf'
    lo = hi = None
    incl = False
    if x[0] in ('call', 'pcall') and x[1].endswith('RangeInclusive::<Idx>::new') and len(x[2]) == 2:
        lo, hi, incl = _lin_len(x[2][0]), _lin_len(x[2][1]), True
    elif x[0] == 'agg' and x[5].endswith('::Range') and len(x[4]) == 2:
        lo, hi = _lin_len(x[4][0]), _lin_len(x[4][1])
    if lo is None or hi is None:
        return None
    d = dict(hi[0])
    for k, c in lo[0].items():
        d[k] = d.get(k, 0) - c
    return ({k: c for k, c in d.items() if c}, hi[1] - lo[1] + (1 if incl else 0))


PRESERVING = re.compile(r'(::into_iter|slice::<impl \[T\]>::iter|Vec::<T(, A)?>::iter|Iterator::(enumerate|cloned|copied|rev|by_ref|peekable|inspect))$')


def _covers(v):
    """name of the operand whose polygons the iterator value v yields completely, else None"""
    x = strip_upd(v)
    for _ in range(12):
        if x[0] in ('deref', 'refval') and len(x) > 1:
            x = strip_upd(x[1])
            continue
        break
    if x[0] == 'param' and x[2] in ('subject', 'clipping'):
        return x[2]
    if x[0] in ('call', 'pcall'):
        if PRESERVING.search(x[1]) and x[2]:
            return _covers(x[2][0])
        if x[1].endswith('Iterator::zip') and len(x[2]) == 2:
            for a, b_ in ((x[2][0], x[2][1]), (x[2][1], x[2][0])):
                op = _covers(a)
                if op:
                    n = _range_len(b_)
                    if n == 'inf' or n == ({op: 1}, 0):
                        return op
                    if _covers(b_) == op:
                        return op
            return None
    return None


# ------------------------------------------------------------------------------------ fill_queue

def check_fill_queue(ctx, rep, rules=('B-acc', 'X-opsites', 'W-iter')):
    R_ACC, R_OPS, R_ITER = rules
    b, ps = rep.explore(ctx, FILL, R_ACC)
    if b is None:
        return
    calls = {}

    def subst_params(v, actual):
        if not isinstance(v, tuple) or not v:
            return v
        if v[0] == 'param' and isinstance(v[1], int) and 1 <= v[1] <= len(actual):
            return actual[v[1] - 1]
        return tuple(subst_params(x, actual) if isinstance(x, tuple) else x for x in v)

    PP = resolve_process_polygon(ctx) or PROCESS
    CANON_ORDER = ['contour_or_hole', 'is_subject', 'contour_id', 'event_queue', 'bbox', 'is_exterior_ring']
    roles = sym.CANON_PARAMS.get(PP, CANON_ORDER)

    def canon_args(args):
        """arguments of the per-ring routine in the canonical order, whatever order its parameters are declared in"""
        if len(args) == 6 and sorted(roles) == sorted(CANON_ORDER):
            return tuple(args[roles.index(r)] for r in CANON_ORDER)
        return tuple(args)

    def pp_calls(p):
        """process_polygon calls of a path, including those made by local helper functions it calls (one level)"""
        for e in p.calls():
            if e['callee'] == PP:
                yield e['line'], canon_args(e['args'])
            elif e['callee'] in ctx.facts().bodies and not e.get('inlined'):
                try:
                    hb, hps = ctx.paths(e['callee'])
                except sym.CannotAnalyse:
                    continue
                seen_h = set()
                for hp in hps:
                    for he in hp.calls():
                        if he['callee'] != PP:
                            continue
                        ca = canon_args(tuple(subst_params(a, e['args']) for a in he['args']))
                        k_ = (he['line'], noepoch(ca))     # one site can be reached with different kinds of ring
                        if k_ in seen_h:
                            continue
                        seen_h.add(k_)
                        rep.analysed.add(e['callee'])
                        yield (e['line'], he['line']), ca

    # implicit flows of the operation: the same call site must hand process_polygon the same values (except the exterior flag and
    # the contour id) on the paths that assumed `operation == X` and on those that assumed the opposite (seed s102: an
    # Option chosen under the permitted branch `operation == Difference` carried a Difference-only cull into process_polygon)
    implicit = {}
    for p in ps:
        opkey = tuple(sorted(set((show(noepoch(v))[:120], repr(c)) for v, c in p.conds
                                 if any(x[0] == 'param' and len(x) > 2 and x[2] == 'operation' for x in sym.walk(v)))))
        for line_, a in pp_calls(p):
            for i, av in enumerate(a):
                if i in (2, 5):
                    continue
                implicit.setdefault((line_, i), {}).setdefault(opkey, set()).add(show(noepoch(av))[:200])
    n_imp = 0
    for (line_, i), groups in sorted(implicit.items(), key=str):
        vals = list(groups.values())
        n_imp += 1
        same = all(v == vals[0] for v in vals[1:])
        rep.ob(R_OPS, 'argument-independent-of-operation:arg%d' % i, same,
               'argument %d of a process_polygon call depends on which way an operation test went (%s): the operation may influence only the '
               'exterior flag and the contour id of clipping rings' % (i, sorted(set().union(*vals))[:3]), loc=b.loc(line_[0] if isinstance(line_, tuple) else line_), reason='dominance')
    rep.floor(R_OPS, 'process_polygon arguments compared across operation assumptions', n_imp, 4)      # one call site, four compared arguments
    for p in ps:
        for line_, a in pp_calls(p):
            e = {'line': line_}
            ring = strip_upd(a[0])
            ring_kind = 'other'
            if ring[0] in ('pcall', 'call') and ring[1].endswith('::exterior'):
                ring_kind = 'exterior'
            elif ring[0] == 'field' and str(ring[2]) == '0':
                ring_kind = 'interior'
            subj = strip_upd(a[1])
            box = param_name(a[4])
            ext = strip_upd(a[5])
            qa = strip_upd(a[3])
            queue_local = qa[0] == 'ref' and qa[1][0][0] == 'loc'
            if qa[0] == 'param' and param_name(qa) == 'event_queue':
                queue_local = True      # handed on by a helper
            # one instance per call site and kind of ring it is reached with (a loop over `once(exterior).chain(interiors)` has one site)
            calls.setdefault((e['line'], ring_kind, show(noepoch(subj))), []).append((ring_kind, subj, box, ext, queue_local, a[2], p))
    n = 0
    for (line, _rk, _sj), lst in sorted(calls.items(), key=lambda kv: str(kv[0])):
        ring_kind, subj, box, ext, queue_local, cid, p = lst[0]
        n += 1
        is_subj = subj[1] if sym.is_const(subj) else None
        exp_box = 'sbbox' if is_subj else 'cbbox'
        inst = '%s-ring-of-%s' % (ring_kind, 'subject' if is_subj else 'clipping')
        rep.ob(R_ACC, 'operand-box:' + inst, is_subj is not None and box == exp_box and queue_local,
               'rings of the %s operand must be accumulated into %s with is_subject=%s and pushed to the local queue; found box=%s '
               'is_subject=%s' % ('subject' if is_subj else 'clipping', exp_box, is_subj, box, show(subj)),
               loc=b.loc(line if isinstance(line, int) else line[0]), reason='provenance')
        line = line if isinstance(line, int) else line[0]
        if ring_kind == 'interior':
            rep.ob(R_OPS, 'interior-flag:' + inst, is_const_bool(ext, False), 'interior rings must be flagged non-exterior; found %s' % show(ext),
                   loc=b.loc(line), reason='provenance')
        elif ring_kind == 'exterior' and is_subj:
            rep.ob(R_OPS, 'exterior-flag:' + inst, is_const_bool(ext, True), 'subject exterior rings must be flagged exterior; found %s' % show(ext),
                   loc=b.loc(line), reason='provenance')
        elif ring_kind == 'exterior':
            # the only operation-dependent value: exterior = (operation != Difference)
            x = ext
            ok = x[0] == 'op' and x[1] == 'ne' and param_name(x[2]) == 'operation' and show(x[3]).endswith('Difference{}')
            rep.ob(R_OPS, 'exterior-flag:' + inst, ok, 'clipping exterior flag must be `operation != Difference`; found %s' % show(noepoch(x)),
                   loc=b.loc(line), reason='provenance')
    rep.floor(R_ACC, 'process_polygon call sites', n, 4)
    # local helpers fill_queue calls (not inlined: they contain loops or branches) are analysed with the actual arguments substituted
    units = [(b, p, None) for p in ps]
    descended = set()
    for p in ps:
        for e in p.calls():
            cn = e['callee']
            if cn == PP or cn not in ctx.facts().bodies or e.get('inlined') or (cn, e['line']) in descended:
                continue
            try:
                hb, hps = ctx.paths(cn)
            except sym.CannotAnalyse:
                continue
            descended.add((cn, e['line']))
            rep.analysed.add(cn)
            for hp in hps:
                units.append((hb, hp, e['args']))
    descended_names = set(cn for cn, _ in descended)

    def sub(v, actual):
        return v if actual is None else subst_params(v, actual)

    # the operation parameter reaches nothing but the exterior flag / contour-id increment of clipping polygons
    uses = set()
    branch_conds = set()
    for (ub, p, actual) in units:
        for e in p.events:
            if e['k'] == 'branch' and e.get('depth', 0) == 0:
                val = sub(e['val'], actual)
                if any(x[0] == 'param' and x[2] == 'operation' for x in sym.walk(val)):
                    uses.add(('branch', e['line']))
                    # (a) branches that depend on the operation: only the test `operation != Difference` (the exterior flag) may
                    v = strip_upd(val)
                    okc = v[0] == 'op' and v[1] in ('ne', 'eq') and param_name(v[2]) == 'operation' and show(v[3]).endswith('Difference{}')
                    if not okc:
                        branch_conds.add((show(noepoch(v))[:80], ub.loc(e['line'])))
            if e['k'] == 'call' and e['depth'] == 0:
                if actual is None and e['callee'] in descended_names:
                    continue            # analysed inside the helper
                if re.search(r'(iter::once|Iterator::(chain|map|zip|enumerate|by_ref)|IntoIterator>?::into_iter|::next)$', e['callee']):
                    continue            # iterator plumbing carries a value into the items; what the items are used for is judged there
                for i, a in enumerate(e['args']):
                    if any(x[0] == 'param' and x[2] == 'operation' for x in sym.walk(sub(a, actual))):
                        uses.add((short(e['callee']), i))
    for (c, loc) in sorted(branch_conds):
        rep.ob(R_OPS, 'operation-dependent-branch', False,
               'fill_queue branches on `%s`: the only operation-dependent decision allowed here is `operation != Difference` for the '
               'exterior flag / contour id of clipping polygons (every ring of both operands must be queued for every operation)' % c,
               loc=loc, reason='dominance')
    # (b) every iteration of every ring loop hands its ring to process_polygon
    n_iter = 0
    seen_iter = set()
    for (ub, p, actual) in units:
        if p.end != 'backedge':
            continue
        last = max(i for i, e in enumerate(p.events) if e['k'] == 'loophead' and e['bb'] == p.end_info)
        if actual is not None:
            k = (ub.id, tuple(p.blocks))
            if k in seen_iter:
                continue            # the same helper path, reached from another call site
            seen_iter.add(k)
        n_iter += 1
        called = any(e['k'] == 'call' and e['depth'] == 0 and (e['callee'] == PP or
                     (e['callee'] in ctx.facts().bodies and not e.get('inlined'))) for e in p.events[last:])
        rep.ob(R_OPS, 'every-ring-queued', called,
               'a path through a polygon/ring loop of %s reaches the next iteration without calling process_polygon: some ring of '
               'an operand is not queued (conditions: %s)' % (short(ub.id), [show(noepoch(v))[:50] for v, _ in p.conds][-3:]),
               loc=ub.loc(ub.j['line_lo']), reason='dominance')
    rep.floor(R_OPS, 'loop iteration paths of fill_queue', n_iter, 4)
    # (c) the loops over the operands run over *all* polygons of the operand: the iterator is the operand's own iterator, possibly
    #     through adaptors that neither drop nor cut elements; zip is accepted only with a partner that is provably long enough
    covered = {}
    for (ub, p, actual) in units:
        for e in p.events:
            if e['k'] != 'loophead':
                continue
            for l, v in e.get('pre', {}).items():
                vv = sub(v, actual)
                # the operand(s) whose polygons are iterated (a parameter used only for its length does not count)
                ops_ = sorted(set(nm for nm in ('subject', 'clipping') for y in sym.walk(vv)
                                  if y[0] in ('call', 'pcall') and (y[1].endswith('::into_iter') or y[1].endswith('::iter')) and y[2]
                                  and _covers(y[2][0]) == nm and strip_upd(y[2][0])[0] in ('param', 'deref', 'refval')))
                x = strip_upd(vv)
                if len(ops_) != 1 or x[0] not in ('call', 'pcall') or not re.search(r'(into_iter|::iter|Iterator::\w+)$', x[1]):
                    continue
                got = _covers(vv)
                covered.setdefault(ops_[0], set()).add((got == ops_[0], show(noepoch(vv))[:140]))
    for nm in ('subject', 'clipping'):
        items = covered.get(nm, set())
        bad_it = sorted(s for ok_, s in items if not ok_)
        rep.ob(R_OPS, 'operand-iterated-completely:%s' % nm, bool(items) and not bad_it,
               'every polygon of the %s operand must be queued for every operation: the loop must run over the whole operand (its own '
               'iterator, through adaptors that neither drop nor cut elements; zip only with a partner of at least the same length); '
               'found %s' % (nm, bad_it or 'no loop over this operand'), loc=b.loc(b.j['line_lo']), reason='dominance')
    allowed = {(short(PP), roles.index('is_exterior_ring') if 'is_exterior_ring' in roles else 5)}
    extra = sorted(u for u in uses if u[0] != 'branch' and u not in allowed)
    rep.ob(R_OPS, 'operation-reaches-only-exterior-flag', not extra,
           'fill_queue lets the operation influence %s (allowed: the exterior flag of clipping rings and their contour ids)' % extra,
           loc=b.loc(b.j['line_lo']), reason='provenance')
    rep.info['fill_queue operation uses'] = sorted(map(str, uses))


# -------------------------------------------------------------------------------- divide_segment

def _check_corner_case_1(rep, rule, b, ps):
    """where divide_segment moves the division point by one ulp, it does so for exactly the configuration that needs it (the point
    shares x with the left end point of the divided segment and lies below it: the new left event would sort before it), upwards,
    on x only.  Decided by evaluating every path on concrete coordinates.  Nothing is required when the routine does not move the
    point at all (whether corner case 1 is then handled elsewhere is not decided here)."""
    import itertools

    def val(v, env):
        x = v if v[0] == 'upd' else strip_upd(v)
        if sym.is_const(x):
            return x[1]
        if x[0] == 'c' and isinstance(x[1], tuple) and x[1][0] == 'float':
            return float(x[1][1])
        if x[0] == 'param' and x[2] == 'inter':
            return dict(env['inter'])
        if x[0] == 'agg' and x[5].endswith('Coord') and tuple(x[3]) == ('x', 'y'):
            return {'x': val(x[4][0], env), 'y': val(x[4][1], env)}
        if x[0] == 'upd':
            base = val(x[1], env)
            for (path, nv) in x[2]:
                if len(path) == 1 and path[0][0] == 'f' and isinstance(base, dict):
                    base = dict(base)
                    base[path[0][1]] = val(nv, env)
                else:
                    raise ValueError('update of %s' % (path,))
            return base
        if x[0] == 'field' and x[2] in ('x', 'y'):
            inner = strip_upd(x[1])
            if inner[0] == 'field' and inner[2] == 'point':
                who = strip_upd(inner[1])
                while who[0] in ('deref', 'rcptr', 'refval'):
                    who = strip_upd(who[1])
                if who[0] == 'param' and who[2] == 'se_l':
                    return env['l'][x[2]]
                raise ValueError('point of %s' % show(noepoch(who))[:40])
            base = val(x[1], env)
            if isinstance(base, dict):
                return base[x[2]]
        if x[0] in ('call', 'pcall') and x[1].endswith('nextafter') and len(x[2]) == 2:
            return val(x[2][0], env) + (0.25 if val(x[2][1], env) else -0.25)
        if x[0] == 'op' and x[1] == 'not':
            return not val(x[2], env)
        if x[0] == 'op' and len(x) == 4 and x[1] in ('eq', 'ne', 'lt', 'gt', 'le', 'ge', 'bitand', 'bitor'):
            l_, r_ = val(x[2], env), val(x[3], env)
            return {'eq': l_ == r_, 'ne': l_ != r_, 'lt': l_ < r_, 'gt': l_ > r_, 'le': l_ <= r_, 'ge': l_ >= r_,
                    'bitand': bool(l_) and bool(r_), 'bitor': bool(l_) or bool(r_)}[x[1]]
        raise ValueError(show(noepoch(x))[:60])

    rows = []
    for p in ps:
        if p.end != 'return':
            continue
        evs = new_events(p)
        if evs:
            rows.append((p, evs))
    moved = any(any(y[0] in ('call', 'pcall') and y[1].endswith('nextafter') for y in sym.walk(d.get('point', ('c', 0)))) for _, evs in rows for d in evs)
    if not moved:
        return
    bad = []
    n = 0
    for ix, iy, lx, ly in itertools.product((0, 1, 2), repeat=4):
        if (ix, iy) == (lx, ly):
            continue        # a segment is never divided at its own end point (G-endpoint)
        env = {'inter': {'x': ix, 'y': iy}, 'l': {'x': lx, 'y': ly}}
        exp = {'x': ix + (0.25 if (ix == lx and iy < ly) else 0), 'y': iy}
        for (p, evs) in rows:
            feasible = True
            for (v, c) in p.conds:
                try:
                    r_ = val(noepoch(v), env)
                except (ValueError, KeyError, TypeError, IndexError):
                    continue        # a condition on something else (links, the order of the new events)
                if c[0] == 'eq' and bool(r_) != bool(c[1]):
                    feasible = False
                    break
            if not feasible:
                continue
            for d in evs:
                n += 1
                try:
                    got = val(noepoch(d.get('point')), env)
                except (ValueError, KeyError, TypeError, IndexError) as e_:
                    got = 'not evaluable: %s' % e_
                if got != exp:
                    bad.append((ix, iy, lx, ly, got, exp))
    rep.rows_compared += n
    rep.ob(rule, 'corner-case-1-guard', not bad and n > 0,
           'divide_segment may move the division point only by one ulp upwards in x, and only when it shares x with the left end point and '
           'lies below it; e.g. inter=(%s,%s), se_l.point=(%s,%s): new events at %s, expected %s (+0.25 stands for the next float)'
           % (bad[0] if bad else ('-',) * 6), loc=b.loc(b.j['line_lo']), reason='table-row')


def check_divide(ctx, rep, rules=('S-divide', 'I-private-bump')):
    R_DIV, R_BUMP = rules
    b, ps = rep.explore(ctx, DIVIDE, R_DIV)
    if b is None:
        return None
    n = 0
    bump_paths = []
    for p in ps:
        if p.end != 'return':
            continue
        evs = new_events(p)
        if not evs:
            # the early return when the right event is gone
            has = [c for (v, c) in p.conds if strip_upd(v)[0] == 'discr']
            rep.ob(R_DIV, 'no-other-event-returns-untouched', not list(p.calls('push')), 'early return path pushes events',
                   loc=b.loc(b.j['line_lo']), reason='dominance')
            continue
        n += 1
        alias0 = {'se_l.other_event': 'se_r'}
        names = []
        for d in evs:
            names.append('l' if is_const_bool(d.get('left'), True) else 'r')
        alias = dict(alias0)
        alias.update(name_events(p, evs, names))
        bumped = any(strip_upd(d.get('point', ('c', 0)))[0] == 'upd' for d in evs)
        swap = None
        for (v, c) in p.conds:
            x = strip_upd(v)
            rel, a_, b_ = None, None, None
            if x[0] in ('pcall', 'call') and re.search(r'SweepEvent::<F>::(is_before|is_after)$', x[1]) and len(x[2]) == 2:
                rel, a_, b_ = ('gt' if x[1].endswith('is_before') else 'lt'), x[2][0], x[2][1]
            elif x[0] in ('op',) and x[1] in ('gt', 'lt') and len(x) == 4:
                rel, a_, b_ = x[1], x[2], x[3]
            elif x[0] == 'op' and x[1] in ('eq', 'ne') and len(x) == 4:
                # `a.cmp(b) == Greater` is `a > b` (events never compare Equal: O-noequal)
                for call, const in ((strip_upd(x[2]), strip_upd(x[3])), (strip_upd(x[3]), strip_upd(x[2]))):
                    if call[0] in ('call', 'pcall') and call[1].endswith('as std::cmp::Ord>::cmp') and len(call[2]) == 2:
                        o = const[2] if const[0] == 'agg' else (const[1][2] if const[0] == 'c' and isinstance(const[1], tuple) else None)
                        if o in ('Greater', 'Less'):
                            rel = 'gt' if (o == 'Greater') == (x[1] == 'eq') else 'lt'
                            a_, b_ = call[2]
            if rel:
                na, nb = obj_root(a_, alias, p.final.mem), obj_root(b_, alias, p.final.mem)
                if {na, nb} == {'l', 'se_r'}:
                    # is_before(l, se_r) is `l > se_r`
                    before = c[1] if (rel == 'gt' and na == 'l') or (rel == 'lt' and na == 'se_r') else (not c[1])
                    swap = not before
        key = 'bump=%d,swap=%s' % (bumped, {None: '?', True: 1, False: 0}[swap])
        byname = dict(zip(names, evs))
        ok = sorted(names) == ['l', 'r']
        rep.ob(R_DIV, 'one-right-one-left@' + key, ok, 'a division must create one right event r and one left event l; found %s' % names,
               loc=b.loc(evs[0]['_line']), reason='provenance')
        if not ok:
            continue
        r, l = byname['r'], byname['l']
        same_point = noepoch(r.get('point')) == noepoch(l.get('point'))
        rep.ob(R_DIV, 'same-point@' + key, same_point, 'r and l must be created at one and the same point', loc=b.loc(l['_line']),
               reason='provenance')
        tr, tl = weak_target(r.get('other_event'), p, alias), weak_target(l.get('other_event'), p, alias)
        cs = event_cell_stores(p)
        links = sorted((obj_root(ptr, alias, p.final.mem), weak_target(val, p, alias)) for (i, ptr, f, val) in cs if f == 'other_event')
        ok = tr == 'se_l' and tl == 'se_r' and links == [('se_l', 'r'), ('se_r', 'l')]
        rep.ob(R_DIV, 'four-links@' + key, ok,
               'links after a division must be se_l<->r and se_r<->l; found r.other=%s l.other=%s stores=%s' % (tr, tl, links),
               loc=b.loc(r['_line']), reason='provenance', expected="r.other=se_l l.other=se_r [('se_l','r'),('se_r','l')]",
               found='r.other=%s l.other=%s %s' % (tr, tl, links))
        for d, nm in ((r, 'r'), (l, 'l')):
            cid = atom_name(strip_upd(d.get('contour_id')), alias)
            sj = atom_name(strip_upd(d.get('is_subject')), alias)
            rep.ob(R_DIV, 'inherits-operand(%s)@%s' % (nm, key), cid == 'se_l.contour_id' and sj == 'se_l.is_subject',
                   '%s must inherit contour_id and is_subject from the divided segment; found %s, %s' % (nm, cid, sj),
                   loc=b.loc(d['_line']), reason='provenance')
        lefts = sorted((obj_root(ptr, alias, p.final.mem), show(val)) for (i, ptr, f, val) in cs if f == 'left')
        exp = [('l', 'False'), ('se_r', 'True')] if swap else []
        rep.ob(R_DIV, 'corner-case-swap@' + key, swap is not None and lefts == exp,
               'when l is not before se_r both flags must be swapped (se_r.left=true and l.left=false), otherwise none: expected %s, '
               'found %s' % (exp, lefts), loc=b.loc(b.j['line_lo']), reason='table-row', expected=exp, found=lefts)
        pushes = [e for e in p.calls('push') if 'BinaryHeap' in e['callee']]
        pushed = sorted(obj_root(e['args'][1], alias, p.final.mem) for e in pushes)
        rep.ob(R_DIV, 'both-pushed@' + key, pushed == ['l', 'r'] and set(param_name(e['args'][0]) for e in pushes) == {'queue'},
               'l and r must be pushed once each onto the queue parameter; found %s' % pushed,
               loc=b.loc(pushes[0]['line']) if pushes else None, reason='provenance')
        # I-private-bump
        pt = r.get('point')
        unmod = pt[0] == 'param' and pt[2] == 'inter'
        if not unmod:
            bump_paths.append((key, show(noepoch(r.get('point')))[:120], r['_line']))
    rep.floor(R_DIV, 'division paths', n, 4)
    _check_corner_case_1(rep, R_DIV, b, ps)
    if R_BUMP is None:
        return b
    for key, what, line in bump_paths[:1]:
        rep.ob(R_BUMP, 'divide_segment/point-is-callers-argument', False,
               'the point stored in the new events is not the caller\'s `inter` but %s; possible_intersection passes one `inter` to two '
               'calls, so the two segments can be split at different points' % what, loc=b.loc(line), reason='provenance')
    if not bump_paths:
        rep.ob(R_BUMP, 'divide_segment/point-is-callers-argument', True)
    return b
