"""C14 classification tables (decided completely; the choice of predecessor, i.e. the float order, is not)."""
from rules import booltables as bt, sweeprules, pirules

LEVEL = 'other'
EXPLANATION = __doc__


def run(ctx, rep):
    bt.check_select(ctx, rep)
    bt.check_trans(ctx, rep, 'T-trans-normal', ['Normal'])
    bt.check_trans(ctx, rep, 'T-trans-coincident', ['SameTransition', 'DifferentTransition'])
    bt.check_prop(ctx, rep)
    bt.check_atom_models(ctx, rep)
    bt.check_prev(ctx, rep)
    bt.check_result_part(ctx, rep)
    pirules.check_code(ctx, rep, rule='T-type')
    sweeprules.check_loop(ctx, rep, rule_neigh='S-neigh', rule_recompute='S-recompute')
