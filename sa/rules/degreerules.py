"""R-degree: homogeneity (physical dimension) inference for floating-point values.

Input coordinates have degree 1.  + - min max and every comparison need equal degrees; * adds, / subtracts degrees;
zero / infinity / literal 0.0 are degree-polymorphic; one() and every other literal have degree 0; orient2d of three points
has degree 2.  If every comparison relates equal degrees and every stored coordinate has degree 1, each floating-point
operation and each branch commutes exactly with multiplication by 2^k (no overflow/underflow), so scaling both operands by
2^k yields the bit-identical scaled result.  Used by C08 (scaling clause) and C10 (no precision-specific constants)."""
import re
import sym
from sym import show, noepoch, strip_upd, short
from rules.common import CallGraph, entry_bodies

POLY = 'poly'
NA = 'na'


class DegreeError(Exception):
    pass


ARITH = re.compile(r'(^|::)(Add::add|Sub::sub|Mul::mul|Div::div|Neg::neg)$')


def callee_kind(name):
    n = name
    if re.search(r'ops::(arith::)?Add::add$|Add>::add$', n):
        return 'add'
    if re.search(r'ops::(arith::)?Sub::sub$|Sub>::sub$', n):
        return 'sub'
    if re.search(r'ops::(arith::)?Mul::mul$|Mul>::mul$', n):
        return 'mul'
    if re.search(r'ops::(arith::)?Div::div$|Div>::div$', n):
        return 'div'
    if re.search(r'ops::(arith::)?Neg::neg$|Neg>::neg$', n):
        return 'neg'
    if re.search(r'Float::(min|max)$|f(32|64)>?::(min|max)$', n):
        return 'minmax'
    if re.search(r'Float::abs$|f(32|64)>?::abs$', n):
        return 'same'
    if re.search(r'(Float|f(32|64)>?)::signum$', n):
        return 'one'            # +-1: degree 0, unchanged by scaling
    if re.search(r'(Float|f(32|64)>?)::(is_nan|is_finite|is_infinite|is_sign_positive|is_sign_negative)$', n):
        return None             # boolean, scale-invariant
    if re.search(r'(Zero::zero|Float::infinity|Float::neg_infinity|Float::nan|Float::max_value|Float::min_value)$', n):
        return 'poly'
    if re.search(r'One::one$', n):
        return 'one'
    if re.search(r'Float::(epsilon|min_positive_value)$|f(32|64)::EPSILON', n):
        return 'const'
    if n.endswith('robust::orient2d') or n.endswith('signed_area::signed_area'):
        return 'orient'
    if re.search(r'(nextafter|next_after)$', n):
        return 'same'
    if re.search(r'convert::Into::into$|convert::From<.*>>::from$|Into<.*>>::into$|clone::Clone::clone$|Clone>::clone$', n):
        return 'same'
    if re.search(r'(NumCast::from|ToPrimitive::to_f(32|64)|Float::(sqrt|powi|powf|ln|exp|round|floor|ceil|trunc|recip))$|f(32|64)>?::(sqrt|powi|round|floor|ceil)$', n):
        return 'nonlinear'
    if re.search(r'<impl f(32|64)>::\w+$|num_traits::(float::)?Float::\w+$', n) and not REPR_PRED_NAME.search(n):
        # any other inherent / Float method on a floating-point value has no degree rule: fail closed when it is applied to a
        # quantity that has a degree (seed s95 hid an absolute-vs-relative bound behind f64::abs / f64::max, which had none)
        return 'unknown-float'
    return None


REPR_PRED_NAME = re.compile(r'::(is_normal|is_subnormal|classify|integer_decode|to_bits)$')


# degrees of scalar float parameters of local helpers, inferred from the arguments at their call sites (fixpoint in check_degrees)
PARAM_DEG = {}
CUR_FN = [None]
CUR_BODY = [None]


def degree(v):
    """degree of a value tree: int, POLY, or NA for things that are not floating-point quantities"""
    x = strip_upd(v)
    k = x[0]
    if k == 'param':
        return PARAM_DEG.get((CUR_FN[0], x[1]), NA)
    if k == 'c':
        c = x[1]
        if isinstance(c, tuple) and c[0] == 'float':
            try:
                return POLY if float(c[1]) == 0.0 or c[1] in ('inf', '-inf') else 0
            except ValueError:
                return POLY if 'inf' in c[1] else 0
        return NA
    if k == 'deref':
        return degree(x[1])
    if k == 'field' and strip_upd(x[1])[0] == 'param' and strip_upd(x[1])[1] == 1 and '{closure' in (CUR_FN[0] or ''):
        # a value captured by a closure: the degree of what was captured where the closure was made
        return PARAM_DEG.get((CUR_FN[0], ('env', str(x[2]))), NA)
    if k == 'field' and strip_upd(x[1])[0] == 'param' and CUR_BODY[0] is not None and x[2] not in ('x', 'y'):
        # a float field of a parameter of a local struct type: the degree every construction of that struct gives the field
        pi = strip_upd(x[1])[1]
        if isinstance(pi, int) and pi < len(CUR_BODY[0].locals):
            ty = CUR_BODY[0].locals[pi]['ty'].lstrip('&').split('<')[0]
            d = PARAM_DEG.get(('struct', ty.split('::')[-1], str(x[2])))
            if d is not None:
                return d
    if k == 'field' and strip_upd(x[1])[0] == 'agg' and strip_upd(x[1])[1] == 'adt' and x[2] in strip_upd(x[1])[3]:
        inner = strip_upd(x[1])
        return degree(inner[4][list(inner[3]).index(x[2])])
    if k == 'field' and x[2] in ('x', 'y'):
        inner = strip_upd(x[1])
        if inner[0] == 'agg' and len(inner[4]) == 2:
            return degree(inner[4][0 if x[2] == 'x' else 1])
        return 1           # a coordinate of a point / box corner
    if k in ('pcall', 'call'):
        kind = callee_kind(x[1])
        if kind is None:
            return NA
        args = [degree(a) for a in x[2]]
        if kind in ('add', 'sub', 'minmax'):
            return unify(args[0], args[1], '%s of degrees %s and %s in %s' % (kind, args[0], args[1], show(noepoch(x))[:90]))
        if kind == 'mul':
            return add_deg(args[0], args[1], +1)
        if kind == 'div':
            return add_deg(args[0], args[1], -1)
        if kind in ('neg', 'same'):
            return args[0] if args else NA
        if kind == 'poly':
            return POLY
        if kind == 'one':
            return 0
        if kind == 'const':
            return 0
        if kind == 'orient':
            for a in x[2]:
                aa = strip_upd(a)
                if aa[0] == 'agg':
                    for comp in aa[4]:
                        d = degree(comp)
                        if d not in (1, POLY):
                            raise DegreeError('orient2d is given a coordinate of degree %s: %s' % (d, show(noepoch(comp))[:60]))
            return 2
        if kind == 'nonlinear':
            raise DegreeError('non-homogeneous float operation %s' % short(x[1]))
        if kind == 'unknown-float':
            if any(a not in (NA, POLY) for a in args):
                raise DegreeError('float operation %s has no degree rule (applied to a quantity of degree %s)' % (short(x[1]), [a for a in args if a not in (NA, POLY)][0]))
            return NA
    if k == 'op':
        if x[1] in ('add', 'sub'):
            return unify(degree(x[2]), degree(x[3]), 'arithmetic on different degrees in %s' % show(noepoch(x))[:80])
        if x[1] == 'mul':
            return add_deg(degree(x[2]), degree(x[3]), +1)
        if x[1] == 'div':
            return add_deg(degree(x[2]), degree(x[3]), -1)
        if x[1] == 'neg':
            return degree(x[2])
        return NA
    if k == 'cast' and x[1].startswith('FloatToFloat'):
        return degree(x[2])
    if k == 'cast' and (x[1].startswith('IntToFloat')):
        return 0
    return NA


def unify(a, b, what):
    if a == NA or b == NA:
        return NA if a == b else (a if b == NA else b)
    if a == POLY:
        return b
    if b == POLY:
        return a
    if a != b:
        raise DegreeError(what)
    return a


def add_deg(a, b, sign):
    if a == NA or b == NA:
        return NA
    if a == POLY or b == POLY:
        return POLY
    return a + sign * b


CMP = ('lt', 'le', 'gt', 'ge', 'eq', 'ne')
# predicates whose outcome depends on the binary exponent of the value (not invariant under scaling by 2^k, and different for
# f32 and f64 at the same real value)
REPR_PRED = re.compile(r'(Float|f32|f64)::(is_normal|is_subnormal|classify|integer_decode|to_bits)$')


def check_body(rep, rule, b, ps, stats):
    """all float comparisons and coordinate constructions on the paths of one body"""
    seen = set()

    def visit(v, line):
        for x in sym.walk(v):
            if x[0] == 'op' and x[1] in CMP and len(x) == 4:
                key = ('cmp', noepoch(x))
                if key in seen:
                    continue
                seen.add(key)
                try:
                    da, db = degree(x[2]), degree(x[3])
                except DegreeError as e:
                    stats['sites'] += 1
                    rep.ob(rule, 'homogeneous:%s' % short(b.id), False, '%s: %s' % (b.id, e), loc=b.loc(line), reason='degree')
                    continue
                if da == NA and db == NA:
                    continue
                stats['sites'] += 1
                stats['cmp'] += 1
                ok = da == db or POLY in (da, db)
                if da == NA or db == NA:
                    ok = False
                rep.ob(rule, 'comparison:%s:%s' % (short(b.id), 'deg%s-vs-deg%s' % (da, db)), ok,
                       '%s compares a quantity of degree %s with one of degree %s (%s): the outcome changes when both operands are scaled '
                       'by 2^k (an absolute tolerance / constant)' % (b.id, da, db, show(noepoch(x))[:110]), loc=b.loc(line), reason='degree')
            elif x[0] in ('call', 'pcall') and REPR_PRED.search(x[1]):
                key = ('repr', noepoch(x))
                if key in seen:
                    continue
                seen.add(key)
                try:
                    d = degree(x[2][0]) if x[2] else NA
                except DegreeError:
                    d = '?'
                if d in (NA, POLY):
                    continue
                stats['sites'] += 1
                rep.ob(rule, 'exponent-dependent-predicate:%s:%s' % (short(b.id), x[1].split('::')[-1]), False,
                       '%s applies %s to a quantity of degree %s (%s): the outcome depends on the binary exponent, so it changes when both '
                       'operands are scaled by 2^k and differs between f32 and f64' % (b.id, short(x[1]), d, show(noepoch(x[2][0]))[:90]),
                       loc=b.loc(line), reason='degree')
            elif x[0] == 'agg' and x[1] == 'adt' and x[5].endswith('Coord') and len(x[4]) == 2:
                key = ('coord', noepoch(x))
                if key in seen:
                    continue
                seen.add(key)
                for comp, nm in zip(x[4], ('x', 'y')):
                    try:
                        d = degree(comp)
                    except DegreeError as e:
                        stats['sites'] += 1
                        rep.ob(rule, 'homogeneous:%s' % short(b.id), False, '%s: %s' % (b.id, e), loc=b.loc(line), reason='degree')
                        continue
                    if d == NA:
                        continue
                    stats['sites'] += 1
                    stats['coord'] += 1
                    rep.ob(rule, 'coordinate:%s:deg%s' % (short(b.id), d), d in (1, POLY),
                           '%s builds a coordinate %s of degree %s (%s): coordinates must be homogeneous of degree 1 in the inputs'
                           % (b.id, nm, d, show(noepoch(comp))[:100]), loc=b.loc(line), reason='degree')

    for p in ps:
        for (v, c) in p.conds:
            visit(v, b.j['line_lo'])
        for e in p.events:
            if e['k'] == 'call':
                for a in e['args']:
                    visit(a, e['line'])
                if 'ret' in e:
                    visit(e['ret'], e['line'])
            elif e['k'] == 'store':
                visit(e['val'], e['line'])
                base, pth = e['loc']
                if pth and pth[-1][0] == 'f' and pth[-1][1] in ('x', 'y'):
                    try:
                        d = degree(e['val'])
                    except DegreeError as ex:
                        stats['sites'] += 1
                        rep.ob(rule, 'homogeneous:%s' % short(b.id), False, '%s: %s' % (b.id, ex), loc=b.loc(e['line']), reason='degree')
                        continue
                    if d != NA:
                        stats['sites'] += 1
                        stats['coord'] += 1
                        rep.ob(rule, 'stored-coordinate:%s:deg%s' % (short(b.id), d), d in (1, POLY),
                               '%s stores a value of degree %s into a coordinate field (%s)' % (b.id, d, show(noepoch(e['val']))[:90]),
                               loc=b.loc(e['line']), reason='degree')
        if p.ret is not None:
            visit(p.ret, b.j['line_lo'])


def check_degrees(ctx, rep, rule='R-degree'):
    f = ctx.facts()
    cg = CallGraph(f)
    reach = sorted(n for n in cg.reachable(entry_bodies(f)) if n in f.bodies)
    stats = {'sites': 0, 'cmp': 0, 'coord': 0, 'bodies': 0, 'skipped': []}
    todo = []
    for name in reach:
        b = f.bodies[name]
        imp = b.j.get('impl') or {}
        if imp.get('auto_derived') or b.j.get('promoted') is not None:
            continue
        if not name.startswith('boolean::') and not name.startswith('<') or name.startswith('<splay') or name.startswith('splay::'):
            continue
        if 'NextAfter' in (imp.get('trait') or ''):
            continue       # the one-ulp step: degree-preserving by the trusted table
        # only bodies that mention floats
        text = ' '.join(l['ty'] for l in b.locals)
        if not re.search(r'\bF\b|f64|f32|Coord<', text):
            continue
        try:
            bb, ps = ctx.paths(name)
        except sym.CannotAnalyse as e:
            rep.ob(rule, 'analysable:%s' % short(name), False, 'cannot analyse %s: %s' % (name, e), reason='cannot-tabulate')
            continue
        todo.append((name, bb, ps))
    # scalar float parameters of helpers get the degree of what they are called with (consistent over all call sites)
    PARAM_DEG.clear()
    for _ in range(4):
        seen_deg = {}
        for (name, bb, ps) in todo:
            CUR_FN[0] = name
            CUR_BODY[0] = bb
            for p in ps:
                # local structs of float fields: every construction gives each field a degree
                vals_ = [a for e in p.events if e['k'] == 'call' for a in e['args']] + [e['val'] for e in p.events if e['k'] == 'store'] + \
                    ([p.ret] if p.ret is not None else [])
                for v_ in vals_:
                    for y in sym.walk(v_):
                        if y[0] == 'agg' and y[1] == 'adt' and y[3] and y[5].startswith('boolean::') and len(y[3]) == len(y[4]):
                            for fn_, fv_ in zip(y[3], y[4]):
                                try:
                                    d = degree(fv_)
                                except DegreeError:
                                    continue
                                if d not in (NA, POLY):
                                    seen_deg.setdefault(('struct', y[5].split('::')[-1], str(fn_)), set()).add(d)
                for e in p.events:
                    if e['k'] == 'call':
                        # closures built on this path: what each captures (by value, or by reference to a local of this body)
                        for a in e['args']:
                            for y in sym.walk(a):
                                if y[0] == 'agg' and y[1] == 'closure' and y[2] in f.bodies:
                                    for i_, cap in enumerate(y[4]):
                                        cv = strip_upd(cap)
                                        if cv[0] == 'ref' and cv[1][0][0] == 'loc' and cv[1] in p.final.mem:
                                            cv = p.final.mem[cv[1]]
                                        try:
                                            d = degree(cv)
                                        except DegreeError:
                                            continue
                                        if d not in (NA, POLY):
                                            seen_deg.setdefault((y[2], ('env', str(i_))), set()).add(d)
                    if e['k'] != 'call' or e['callee'] not in f.bodies:
                        continue
                    cb = f.bodies[e['callee']]
                    for i, a in enumerate(e['args']):
                        if i + 1 >= len(cb.locals) or cb.locals[i + 1]['ty'] not in ('F', 'f64', 'f32', 'T'):
                            continue
                        try:
                            d = degree(a)
                        except DegreeError:
                            continue
                        if d in (NA, POLY):
                            continue
                        seen_deg.setdefault((e['callee'], i + 1), set()).add(d)
        new_env = {k: next(iter(v)) for k, v in seen_deg.items() if len(v) == 1}
        if new_env == PARAM_DEG:
            break
        PARAM_DEG.clear()
        PARAM_DEG.update(new_env)
    stats['helper parameters with inferred degree'] = len(PARAM_DEG)
    for (name, bb, ps) in todo:
        CUR_FN[0] = name
        CUR_BODY[0] = bb
        rep.analysed.add(name)
        rep.paths_enumerated += len(ps)
        stats['bodies'] += 1
        check_body(rep, rule, bb, ps, stats)
    CUR_FN[0] = None
    CUR_BODY[0] = None
    rep.info['R-degree'] = dict(stats)
    rep.floor(rule, 'float comparison sites', stats['cmp'], 40)
    rep.floor(rule, 'coordinate construction / store sites', stats['coord'], 12)
    # positive control
    fx = ctx.fixture()
    if fx is not None:
        from models import Purity
        hit = False
        b = fx.body('absolute_tolerance_pt')
        if b is not None:
            ps = sym.Explorer(fx, b, Purity(fx)).explore()
            r2 = type(rep)('ctl')
            st2 = {'sites': 0, 'cmp': 0, 'coord': 0}
            check_body(r2, 'ctl', b, ps, st2)
            hit = bool(r2.violations)
        rep.ob('positive-control', 'absolute-tolerance', hit, 'R-degree does not flag the absolute tolerance in the positive-control crate',
               reason='floor')
        hit2 = False
        b = fx.body('linear_filter_bound')
        if b is not None:
            ps = sym.Explorer(fx, b, Purity(fx)).explore()
            r2 = type(rep)('ctl')
            check_body(r2, 'ctl', b, ps, {'sites': 0, 'cmp': 0, 'coord': 0})
            hit2 = bool(r2.violations)
        rep.ob('positive-control', 'linear-filter-bound', hit2, 'R-degree does not flag |det| > c * max|coordinate difference| (inherent f64 abs / max) '
               'in the positive-control crate', reason='floor')
    return stats
