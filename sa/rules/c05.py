"""C05 mutual consistency of the four operations (partly decided: oracle-free identities between the extracted tables,
and the operation-dependent sites of the sweep)."""
from rules import booltables as bt, oracle, sweeprules, fillrules

from rules import looprules

LEVEL = 'other'
EXPLANATION = __doc__


def run(ctx, rep):
    sel = bt.check_select(ctx, rep, rule='T-select')
    tr = bt.check_trans(ctx, rep, 'T-trans-normal', ['Normal'])
    if sel:
        n = 0
        for subj in (False, True):
            for oio in (False, True):
                i = sel.get(('Intersection', 'Normal', subj, oio))
                u = sel.get(('Union', 'Normal', subj, oio))
                x = sel.get(('Xor', 'Normal', subj, oio))
                d = sel.get(('Difference', 'Normal', subj, oio))
                key = 'is_subject=%d,other_in_out=%d' % (subj, oio)
                if None in (i, u, x, d):
                    continue
                n += 3
                rep.ob('X-partition', 'int-union-complementary:' + key, i != u,
                       'a normal edge must be selected by exactly one of Intersection and Union (found %s / %s)' % (i, u), reason='table-row')
                rep.ob('X-partition', 'xor-selects-all:' + key, x is True, 'Xor must select every normal edge', reason='table-row')
                exp = u if subj else i
                rep.ob('X-partition', 'difference=union-subject+intersection-clipping:' + key, d == exp,
                       'Difference must select exactly Union\'s subject edges and Intersection\'s clipping edges', reason='table-row')
        for et, ops in (('SameTransition', {'Intersection', 'Union'}), ('DifferentTransition', {'Difference'}), ('NonContributing', set())):
            for subj in (False, True):
                for oio in (False, True):
                    got = set(op for op in oracle.OPS if sel.get((op, et, subj, oio)))
                    n += 1
                    rep.ob('X-partition', '%s:is_subject=%d,other_in_out=%d' % (et, subj, oio), got == ops,
                           '%s edges must be selected by exactly %s, are selected by %s' % (et, sorted(ops), sorted(got)), reason='table-row')
        rep.rows_compared += n
    if tr:
        n = 0
        for subj in (False, True):
            for io in (False, True):
                for oio in (False, True):
                    def r(op):
                        v = tr.get((op, 'Normal', subj, io, oio))
                        return None if v is None else int(v == 'OutIn')
                    own, oth = int(not io), int(not oio)
                    s, c = (own, oth) if subj else (oth, own)
                    ri, ru, rx, rd = r('Intersection'), r('Union'), r('Xor'), r('Difference')
                    key = 'is_subject=%d,in_out=%d,other_in_out=%d' % (subj, io, oio)
                    # inclusion-exclusion pointwise, on the rows where both operations select the edge it is checked directly;
                    # where only one selects it the identity still constrains that one
                    if ri is not None and ru is not None:
                        n += 1
                        rep.ob('X-transition', 'int+union=s+c:' + key, ri + ru == s + c, 'r_int + r_union != s + c above the edge', reason='table-row')
                    if ri is not None and ru is None:
                        n += 1
                        rep.ob('X-transition', 'int<=both:' + key, ri == (s and c), 'r_int != s and c above the edge', reason='table-row')
                    if ru is not None and ri is None:
                        n += 1
                        rep.ob('X-transition', 'union>=either:' + key, ru == int(bool(s or c)), 'r_union != s or c above the edge', reason='table-row')
                    if rx is not None:
                        n += 1
                        rep.ob('X-transition', 'xor=union-int:' + key, rx == (int(bool(s or c)) - int(bool(s and c))), 'r_xor != r_union - r_int', reason='table-row')
                    if rd is not None:
                        n += 1
                        rep.ob('X-transition', 'diff=s-int:' + key, rd == s - int(bool(s and c)), 'r_diff != s - r_int', reason='table-row')
        rep.rows_compared += n
    # coincident edges: Intersection and Union keep the same-transition edges and must give them the same transition (both operands
    # change the same way across the edge); the table itself is compared with the oracle as in C02/C14
    trc = bt.check_trans(ctx, rep, 'T-trans-coincident', ['SameTransition', 'DifferentTransition'])
    if trc:
        n = 0
        for subj in (False, True):
            for io in (False, True):
                for oio in (False, True):
                    ri = trc.get(('Intersection', 'SameTransition', subj, io, oio))
                    ru = trc.get(('Union', 'SameTransition', subj, io, oio))
                    if ri is None or ru is None:
                        continue
                    n += 1
                    rep.ob('X-transition', 'same-transition:int=union:is_subject=%d,in_out=%d,other_in_out=%d' % (subj, io, oio), ri == ru,
                           'a shared edge with both interiors on the same side must get the same transition from Intersection and Union '
                           '(%s / %s)' % (ri, ru), reason='table-row')
        rep.rows_compared += n
    fillrules.check_fill_queue(ctx, rep, rules=('B-acc', 'X-opsites', 'W-iter'))
    # the four operations must see the same edges: every non-collapsed edge of every ring becomes exactly one event pair, whatever
    # the operation (an operation-specific cull of edges reaches process_polygon as an ordinary value - seed s102 - so the taint
    # rule above cannot see it; the per-edge rule can)
    fillrules.check_process_polygon(ctx, rep, rules=('S-fill', None, None, None, None))
    sweeprules.check_break(ctx, rep)
    looprules.check_loops(ctx, rep)
