"""C08 similarity transforms: the power-of-two scaling clause is decided soundly by homogeneity (degree) inference over every
float comparison and coordinate construction reachable from the API.  Translation, mirroring, transposition and quarter turns
are NOT decided (the sweep is deliberately asymmetric in x/y and up/down), except for one structural necessary condition of the
translation clause: every event point is an input vertex, the clamped point returned by intersection() for a proper crossing,
or the point of an existing event (G-sources) - in particular the end points of a collinear overlap are the existing vertices
and never re-computed in floating point (a re-computed a1 + s*(a2-a1) is not exact even on integer inputs and its rounding
depends on the absolute position).
For the mirror / transposition / quarter-turn clause one structural necessary condition is decided: a transposition turns a
non-vertical edge into a vertical one, so the same configuration runs once through the ordinary rows and once through the
vertical-predecessor rows of compute_fields.  The rows for a vertical predecessor (in/out compensation in the same-operand and
the other-operand branch, T-prop; a vertical predecessor is never chosen as prev_in_result, T-prev) must classify as the
geometry dictates, like the ordinary rows, and is_vertical must be the exact test x0 == x1 the tables are read against (T-atoms).
Seeds s83 and s88 (written against this clause) break exactly these rows.  That the two poses then give the *same region* is a
statement about all inputs and is not decided."""
from rules import booltables as bt, degreerules, fillrules, pirules

LEVEL = 'proof'
EXPLANATION = __doc__
TRUSTED = ['rustc nightly type checker / MIR construction / callee resolution', 'bofacts extractor and the rule code',
           'degree table of external callees: Float::min/max/abs, Into<f64>, next_after preserve the degree; robust::orient2d maps three '
           'degree-1 points to degree 2 and its adaptive error bounds are eps-constant x |degree-2 sums|, so they scale with the data',
           'IEEE-754: multiplication by 2^k is exact and commutes with + - * / comparisons absent overflow/underflow/subnormals']
ASSUMPTIONS = ['no overflow, underflow or subnormal intermediate (the property excludes them)',
               'the scaling clause of C08 is decided; of the translation clause only the provenance of event points (G-sources) is checked; of mirror / transpose / rotation only the vertical-predecessor rows of the classification tables (T-prop, T-prev, T-atoms) are checked']


def run(ctx, rep):
    degreerules.check_degrees(ctx, rep)
    # translation clause, structural part: where the point of every created event comes from
    fillrules.check_process_polygon(ctx, rep, rules=('G-sources', None, None, None, None))
    fillrules.check_divide(ctx, rep, rules=('G-sources', None))
    pirules.check_code(ctx, rep, rule='G-sources')
    # mirror / transpose clause, structural part: the pose-dependent (vertical predecessor) rows of the classification
    bt.check_prop(ctx, rep)
    bt.check_prev(ctx, rep)
    bt.check_atom_models(ctx, rep)
