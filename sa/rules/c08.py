"""C08 similarity transforms: the power-of-two scaling clause is decided soundly by homogeneity (degree) inference over every
float comparison and coordinate construction reachable from the API.  Translation, mirroring, transposition and quarter turns
are NOT decided (the sweep is deliberately asymmetric in x/y and up/down)."""
from rules import degreerules

LEVEL = 'proof'
EXPLANATION = __doc__
TRUSTED = ['rustc nightly type checker / MIR construction / callee resolution', 'bofacts extractor and the rule code',
           'degree table of external callees: Float::min/max/abs, Into<f64>, next_after preserve the degree; robust::orient2d maps three '
           'degree-1 points to degree 2 and its adaptive error bounds are eps-constant x |degree-2 sums|, so they scale with the data',
           'IEEE-754: multiplication by 2^k is exact and commutes with + - * / comparisons absent overflow/underflow/subnormals']
ASSUMPTIONS = ['no overflow, underflow or subnormal intermediate (the property excludes them)',
               'only the scaling clause of C08 is claimed; translation / mirror / transpose / rotation are not decided']


def run(ctx, rep):
    degreerules.check_degrees(ctx, rep)
