"""C07 independence of how an operand is written or wrapped (partly decided: wrapper forwarding, per-edge independence of
event creation, left flag, collapsed edges, no reader of ring orientation)."""
from rules import oprules, fillrules
from rules.common import all_statements

from rules import looprules

LEVEL = 'other'
EXPLANATION = __doc__


def _mentions(x, local):
    """number of places rooted at `local` anywhere in a statement / terminator"""
    if isinstance(x, dict):
        n = 1 if ('l' in x and 'p' in x and x['l'] == local) else 0
        return n + sum(_mentions(v, local) for v in x.values())
    if isinstance(x, list):
        return sum(_mentions(v, local) for v in x)
    return 0


def is_flag_copy(b, stmt, arg_index=5):
    """`tmp = copy x.is_exterior_ring` whose only use is the is_exterior_ring argument of SweepEvent::new / new_rc: the flag is
    handed on to the event made from x (a divided segment inheriting it), nothing is decided by it."""
    from facts import callee_name
    dst = stmt['place']
    if dst['p'] or stmt['rv']['k'] != 'use':
        return False
    loc = dst['l']
    total = 0
    for _, st in all_statements(b, cleanup=True):
        total += _mentions({k: v for k, v in st.items() if k != 'line'}, loc)
    ok_uses = 0
    for bl in b.blocks:
        t = bl['term']
        m = _mentions(t, loc)
        if not m:
            continue
        total += m
        if t['k'] in ('call', 'tailcall'):
            cn = callee_name(t)
            if 'SweepEvent' in cn and (cn.endswith('::new_rc') or cn.endswith('::new')):
                for ai, a in enumerate(t['args']):
                    if a['k'] in ('copy', 'move') and a['place']['l'] == loc and not a['place']['p'] and ai == arg_index:
                        ok_uses += 1
    # the defining assignment mentions it once; storage markers are not statements of kind assign but may mention it
    others = 0
    for _, st in all_statements(b, cleanup=True):
        if st is stmt:
            continue
        if st['k'] == 'assign':
            others += _mentions(st, loc)
    term_mentions = sum(_mentions(bl['term'], loc) for bl in b.blocks)
    return ok_uses >= 1 and others == 0 and term_mentions == ok_uses


def field_reads(facts, field, passthrough=None):
    out = []
    for name, b in facts.bodies.items():
        if (b.j.get('impl') or {}).get('auto_derived'):
            continue
        for i, st in all_statements(b):
            if st['k'] != 'assign':
                continue
            def places(rv):
                k = rv['k']
                if k in ('use', 'cast'):
                    ops = [rv['op']]
                elif k == 'unop':
                    ops = [rv['a']]
                elif k == 'binop':
                    ops = [rv['a'], rv['b']]
                elif k == 'aggregate':
                    ops = rv['fields']
                elif k in ('ref', 'discr', 'copyforderef'):
                    return [rv['place']]
                else:
                    ops = []
                return [o['place'] for o in ops if o and o['k'] in ('copy', 'move')]
            for pl in places(st['rv']):
                if any(e['k'] == 'field' and e['name'] == field for e in pl['p']):
                    if passthrough is not None and is_flag_copy(b, st):
                        passthrough.append((name, b.loc(st['line'])))
                        continue
                    out.append((name, b.loc(st['line'])))
    return out


def run(ctx, rep):
    oprules.check_forward(ctx, rep)
    fillrules.check_process_polygon(ctx, rep, rules=('S-fill', 'W-left', 'W-collapsed', 'W-iter', 'B-acc'))
    fillrules.check_fill_queue(ctx, rep, rules=('B-acc', 'X-opsites', 'W-iter'))
    import witness
    witness.check(ctx, rep, ['WPairings', 'WPairingsNeg'], rule='W-types')
    # W-winding: nothing in the default configuration reads the ring-orientation flag or computes a ring orientation
    f = ctx.facts()
    copies = []
    reads = field_reads(f, 'is_exterior_ring', passthrough=copies)
    for (name, loc) in copies:
        rep.ob('W-winding', 'flag-copied-to-new-event:%s' % name, True, '%s hands is_exterior_ring on to a new event (only use of the value)' % name, loc=loc)
    for (name, loc) in reads:
        rep.ob('W-winding', 'reader:%s' % name, False, '%s reads is_exterior_ring: operands must be interpreted by edge parity only' % name,
               loc=loc, reason='inventory')
    rep.ob('W-winding', 'no-reader-of-is_exterior_ring', not reads, '')
    ctl = field_reads(f, 'is_subject')
    rep.floor('W-winding', 'control: readers of is_subject found by the same scan', len(ctl), 8)
    from facts import callee_name
    orient = []
    for name, b in f.bodies.items():
        for _, t in b.calls():
            cn = callee_name(t)
            if any(w in cn for w in ('signed_area', 'orient2d', 'winding', 'is_ccw', 'is_cw', 'make_ccw', '::reverse', 'Winding')) and \
                    ('fill_queue' in name or name.endswith('boolean_operation') or 'BooleanOp' in name or name.endswith('trivial_result')):
                orient.append((name, cn, b.loc(t['line'])))
    for (name, cn, loc) in orient:
        rep.ob('W-winding', 'orientation-call:%s' % name, False, '%s calls %s on operand rings' % (name, cn), loc=loc, reason='inventory')
    rep.ob('W-winding', 'no-orientation-of-input-rings', not orient, '')
    looprules.check_loops(ctx, rep)
