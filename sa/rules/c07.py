"""C07 independence of how an operand is written or wrapped (partly decided: wrapper forwarding, per-edge independence of
event creation, left flag, collapsed edges, no reader of ring orientation)."""
from rules import oprules, fillrules
from rules.common import all_statements

from rules import looprules

LEVEL = 'other'
EXPLANATION = __doc__


def field_reads(facts, field):
    out = []
    for name, b in facts.bodies.items():
        if (b.j.get('impl') or {}).get('auto_derived'):
            continue
        for i, st in all_statements(b):
            if st['k'] != 'assign':
                continue
            def places(rv):
                k = rv['k']
                if k in ('use', 'cast'):
                    ops = [rv['op']]
                elif k == 'unop':
                    ops = [rv['a']]
                elif k == 'binop':
                    ops = [rv['a'], rv['b']]
                elif k == 'aggregate':
                    ops = rv['fields']
                elif k in ('ref', 'discr', 'copyforderef'):
                    return [rv['place']]
                else:
                    ops = []
                return [o['place'] for o in ops if o and o['k'] in ('copy', 'move')]
            for pl in places(st['rv']):
                if any(e['k'] == 'field' and e['name'] == field for e in pl['p']):
                    out.append((name, b.loc(st['line'])))
    return out


def run(ctx, rep):
    oprules.check_forward(ctx, rep)
    fillrules.check_process_polygon(ctx, rep, rules=('S-fill', 'W-left', 'W-collapsed', 'W-iter', 'B-acc'))
    fillrules.check_fill_queue(ctx, rep, rules=('B-acc', 'X-opsites', 'W-iter'))
    import witness
    witness.check(ctx, rep, ['WPairings', 'WPairingsNeg'], rule='W-types')
    # W-winding: nothing in the default configuration reads the ring-orientation flag or computes a ring orientation
    f = ctx.facts()
    reads = field_reads(f, 'is_exterior_ring')
    for (name, loc) in reads:
        rep.ob('W-winding', 'reader:%s' % name, False, '%s reads is_exterior_ring: operands must be interpreted by edge parity only' % name,
               loc=loc, reason='inventory')
    rep.ob('W-winding', 'no-reader-of-is_exterior_ring', not reads, '')
    ctl = field_reads(f, 'is_subject')
    rep.floor('W-winding', 'control: readers of is_subject found by the same scan', len(ctl), 8)
    from facts import callee_name
    orient = []
    for name, b in f.bodies.items():
        for _, t in b.calls():
            cn = callee_name(t)
            if any(w in cn for w in ('signed_area', 'orient2d', 'winding', 'is_ccw', 'is_cw', 'make_ccw', '::reverse', 'Winding')) and \
                    ('fill_queue' in name or name.endswith('boolean_operation') or 'BooleanOp' in name or name.endswith('trivial_result')):
                orient.append((name, cn, b.loc(t['line'])))
    for (name, cn, loc) in orient:
        rep.ob('W-winding', 'orientation-call:%s' % name, False, '%s calls %s on operand rings' % (name, cn), loc=loc, reason='inventory')
    rep.ob('W-winding', 'no-orientation-of-input-rings', not orient, '')
    looprules.check_loops(ctx, rep)
