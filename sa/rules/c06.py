"""C06 set-algebra laws (partly decided; the empty-operand / disjoint-boxes clause fully, for finite coordinates):
L-empty chain (initial boxes, boxes written only per non-collapsed edge, strict shortcut test, trivial result table),
L-symmetric (selection / transition tables of Intersection, Union, Xor do not read is_subject), L-self (twin typing)."""
from rules import booltables as bt, oprules, fillrules, pirules, oracle, sweeprules

LEVEL = 'other'
EXPLANATION = __doc__


def run(ctx, rep):
    # L-empty / L-disjoint chain
    oprules.check_initial_boxes(ctx, rep, rule='L-empty')
    fillrules.check_process_polygon(ctx, rep, rules=('S-fill', 'W-left', 'W-collapsed', 'W-iter', 'B-acc'))
    oprules.check_box_test(ctx, rep, rule='B-test')
    oprules.check_trivial(ctx, rep, rule='T-trivial')
    # L-symmetric at table level
    sel = bt.check_select(ctx, rep, rule='T-select')
    tr = bt.check_trans(ctx, rep, 'T-trans-normal', ['Normal'])
    if sel:
        n = 0
        for op in ('Intersection', 'Union', 'Xor'):
            for et in oracle.EDGE_TYPES:
                for oio in (False, True):
                    a, b = sel.get((op, et, False, oio)), sel.get((op, et, True, oio))
                    n += 1
                    rep.ob('L-symmetric', 'select:%s,%s,other_in_out=%d' % (op, et, oio), a == b,
                           'in_result of the symmetric operation %s depends on which operand the edge belongs to (%s vs %s)' % (op, a, b),
                           reason='table-row')
        rep.rows_compared += n
    if tr:
        n = 0
        for op in ('Intersection', 'Union', 'Xor'):
            for io in (False, True):
                for oio in (False, True):
                    a, b = tr.get((op, 'Normal', False, io, oio)), tr.get((op, 'Normal', True, io, oio))
                    if a is None and b is None:
                        continue
                    n += 1
                    rep.ob('L-symmetric', 'transition:%s,in_out=%d,other_in_out=%d' % (op, io, oio), a == b,
                           'result transition of the symmetric operation %s depends on the operand (%s vs %s)' % (op, a, b), reason='table-row')
        rep.rows_compared += n
    # L-self: coincident twins
    pirules.check_code(ctx, rep, rule='T-type')
    bt.check_trans(ctx, rep, 'T-trans-coincident', ['SameTransition', 'DifferentTransition'])
    # coincident twins found late are re-classified bottom-to-top (both operand orders go through this protocol)
    sweeprules.check_loop(ctx, rep, rule_neigh='S-neigh', rule_recompute='S-recompute')
