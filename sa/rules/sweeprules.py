"""Rules on the sweep loop (subdivide): S-neigh (neighbour checks on insertion / before removal), S-recompute
(fields recomputed bottom-to-top after coincident twins were typed), B-break (early termination condition),
O-consumers (comparator given to the sweep line).  Used by C05, C09, C13, C14, C15."""
import re
import sym
from sym import show, noepoch, strip_upd, short
from rules.tables import obj_root, weak_link, atom_name

SUBDIVIDE = 'boolean::subdivide_segments::subdivide'
OPAQUE = ('splay::set::SplaySet',)     # the sweep line is used through its set API (delegation is checked by C17)
ALIAS = {'(BinaryHeap::pop(event_queue) as Some).0': 'event'}
REL = ('insert', 'remove', 'prev', 'next', 'contains', 'compute_fields', 'possible_intersection')


def ent(v, p, alias=None):
    """entity names in the sweep loop: event, event.other_event, prev(X), next(X)"""
    alias = alias or ALIAS
    x = strip_upd(v)
    for _ in range(12):
        k = x[0]
        if k == 'ref' and x[1][0][0] == 'loc' and x[1] in p.final.mem:
            x = strip_upd(p.final.mem[x[1]])
            continue
        if k == 'ref' and x[1][0][0] == 'loc' and x[1][1] and (x[1][0], ()) in p.final.mem:
            # a reference into a local (e.g. `&maybe_prev.Some.0`): the local's value with the projection applied
            y = p.final.mem[(x[1][0], ())]
            for pe in x[1][1]:
                if pe[0] == 'v':
                    y = ('variant', y, pe[1])
                elif pe[0] == 'f':
                    y = ('field', y, pe[1])
                else:
                    y = None
                    break
            if y is not None:
                x = sym.simplify(y) if hasattr(sym, 'simplify') else y
                continue
        if k in ('rcptr', 'refval'):
            x = strip_upd(x[1])
            continue
        if k == 'deref' and strip_upd(x[1])[0] in ('call', 'pcall', 'field', 'variant', 'param', 'refval', 'rcptr'):
            x = strip_upd(x[1])
            continue
        if k == 'field' and str(x[2]) == '0' and strip_upd(x[1])[0] == 'variant' and strip_upd(x[1])[2] == 'Some':
            inner = strip_upd(strip_upd(x[1])[1])
            return opt_name(inner, p, alias, payload=True)
        break
    s = obj_root(x, alias, p.final.mem)
    return s


def opt_name(v, p, alias=None, payload=False):
    """name of an Option value (or of its payload)"""
    alias = alias or ALIAS
    x = strip_upd(v)
    if x[0] == 'agg' and x[1] == 'adt' and x[5].endswith('Option'):
        if x[2] == 'None':
            return 'None'
        inner = ent(x[4][0], p, alias)
        return inner if payload else 'Some(%s)' % inner
    if x[0] in ('call', 'pcall'):
        m = re.search(r'SplaySet::<T, C>::(prev|next)$', x[1])
        if m:
            key = ent(x[2][1], p, alias)
            s = '%s(%s)' % (m.group(1), key)
            return s if payload else s + '?'
        if re.search(r'Option::<&T>::cloned$', x[1]) or re.search(r'Option::<T>::(as_ref|cloned)$', x[1]):
            return opt_name(x[2][0], p, alias, payload)
        if x[1].endswith('BinaryHeap::<T>::pop') or x[1].endswith('BinaryHeap::<T, A>::pop'):
            return 'event' if payload else 'pop?'
        w = weak_link(x, alias)
        if w:
            return w if payload else w + '?'
    if x[0] == 'ref' and x[1][0][0] == 'loc' and x[1] in p.final.mem:
        return opt_name(p.final.mem[x[1]], p, alias, payload)
    return 'other:' + show(noepoch(x))[:60]


def tokens(p):
    """relevant calls and branch assumptions of one path through subdivide, with entity-named arguments"""
    out = []
    for e in p.events:
        # events of local helpers that were expanded into the loop body count as the loop's own (a straight-line inlined callee has no
        # branches and none of the calls below)
        if e.get('depth', 0) > 2:
            continue
        if e['k'] == 'call':
            n = short(e['callee']).split('::')[-1]
            if n in REL and ('SplaySet' in e['callee'] or n in ('compute_fields', 'possible_intersection')):
                # references to temporaries of an expanded helper: the value they had when the call was made
                rv = e.get('ref_vals', {})
                eargs = []
                for i_, a_ in enumerate(e['args']):
                    s_ = strip_upd(a_)
                    if s_[0] == 'ref' and s_[1][0][0] == 'loc' and s_[1] not in p.final.mem and i_ in rv:
                        a_ = ('refval', rv[i_])
                    eargs.append(a_)
                e = dict(e, args=tuple(eargs))
                if n == 'compute_fields':
                    args = [ent(e['args'][0], p), opt_name(e['args'][1], p), ent(e['args'][2], p)]
                elif n == 'possible_intersection':
                    args = [ent(e['args'][0], p), ent(e['args'][1], p)]
                else:
                    args = [ent(a, p) for a in e['args'][1:]]
                out.append(('call', n, tuple(args), e['line'], e))
        elif e['k'] == 'branch':
            out.append(('br', cond_name(e['val'], p), e['cond'], e['line'], e))
    return out


def cond_name(v, p):
    x = strip_upd(v)
    if x[0] == 'discr':
        return 'has(%s)' % opt_name(strip_upd(x[1]), p, payload=True)
    if x[0] == 'op' and x[1] == 'eq' and len(x) == 4:
        a, b = strip_upd(x[2]), strip_upd(x[3])
        if a[0] == 'call' and a[1].endswith('possible_intersection') and sym.is_const(b):
            return 'pi(%s,%s)==%s' % (ent(a[2][0], p), ent(a[2][1], p), b[1])
        if a[0] == 'param' and b[0] in ('agg', 'c'):
            bn = b[2] if b[0] == 'agg' else b[1][2]
            return '%s==%s' % (a[2], bn)
    if x[0] in ('call', 'pcall') and x[1].endswith('::contains'):
        return 'contains(%s)' % ent(x[2][1], p)
    n = atom_name(x, {})
    if n:
        n = n.replace('(BinaryHeap::pop(event_queue) as Some).0', 'event')
        return n
    if x[0] == 'op':
        return '%s(%s)' % (x[1], ','.join(show(noepoch(y))[:50] for y in x[2:]))
    return show(noepoch(x))[:80]


def is_true(c):
    return c[0] == 'eq' and c[1] in (True, 1)


def check_loop(ctx, rep, rule_neigh='S-neigh', rule_recompute='S-recompute'):
    b, ps = rep.explore(ctx, SUBDIVIDE, rule_neigh, opaque=OPAQUE)
    if b is None:
        return None
    n_left = n_right = n_pi = n_rec = 0
    for p in ps:
        if p.end not in ('backedge', 'return'):
            continue
        tk = tokens(p)
        calls = [t for t in tk if t[0] == 'call']
        brs = {t[1]: t[2] for t in tk if t[0] == 'br'}
        left = brs.get('event.left')
        if left is None:
            # paths that leave the loop before looking at the event (queue empty / early break): no sweep-line calls
            popped = any(k.startswith('has(event)') and is_true(v) for k, v in brs.items())
            if p.end == 'backedge' and popped:
                rep.ob(rule_neigh, 'every-popped-event-is-processed', False,
                       'a path pops an event and goes on to the next one without inserting (left) or removing (right) its segment: the '
                       'segment silently disappears from the sweep (conditions: %s)' % sorted(k for k in brs)[:6],
                       loc=b.loc(tk[-1][3]) if tk else b.loc(b.j['line_lo']), reason='dominance')
                continue
            ok = not calls
            rep.ob(rule_neigh, 'exit-path-has-no-sweepline-calls', ok,
                   'a path that leaves the loop calls %s' % [c[1] for c in calls], loc=b.loc(b.j['line_lo']), reason='dominance')
            continue
        names = [c[1] for c in calls]
        if is_true(left):
            n_left += 1
            key = 'L:' + ','.join('%s=%s' % (k, int(is_true(v))) for k, v in sorted(brs.items()) if k.startswith('has(') or k.startswith('pi('))
            # L1 insert first, exactly once, no remove
            ok = names.count('insert') == 1 and names[0] == 'insert' and calls[0][2] == ('event',) and 'remove' not in names
            rep.ob(rule_neigh, 'insert-first@' + key, ok,
                   'on a left event the segment must be inserted (once) before its neighbours are queried; call sequence %s'
                   % [(c[1], c[2]) for c in calls[:4]], loc=b.loc(calls[0][3]) if calls else None, reason='dominance')
            # L2 first compute_fields
            cfs = [c for c in calls if c[1] == 'compute_fields']
            ok = bool(cfs) and cfs[0][2] == ('event', 'prev(event)?', 'operation')
            rep.ob(rule_neigh, 'fields-from-predecessor@' + key, ok,
                   'first compute_fields must be (event, sweep_line.prev(event), operation), is %s' % (cfs[0][2] if cfs else None,),
                   loc=b.loc(cfs[0][3]) if cfs else None, reason='provenance')
            # L3 / L4 neighbour checks
            pis = [c for c in calls if c[1] == 'possible_intersection']
            exp = []
            if is_true(brs.get('has(next(event))', ('eq', 0))):
                exp.append(('event', 'next(event)'))
            if is_true(brs.get('has(prev(event))', ('eq', 0))):
                exp.append(('prev(event)', 'event'))
            got = [c[2] for c in pis]
            n_pi += len(got)
            rep.ob(rule_neigh, 'neighbour-checks@' + key, got == exp,
                   'a newly inserted segment must be checked against its upper neighbour (event, next) and its lower '
                   'neighbour (prev, event), lower segment first in each call; expected %s, found %s' % (exp, got),
                   loc=b.loc(pis[0][3]) if pis else b.loc(calls[0][3]), reason='dominance', expected=exp, found=got)
            if 'has(next(event))' not in brs or 'has(prev(event))' not in brs:
                rep.ob(rule_neigh, 'neighbour-presence-tested@' + key, False,
                       'path does not test both neighbours for presence: %s' % sorted(brs), loc=b.loc(calls[0][3]), reason='dominance')
            # L5 recomputation protocol
            for i, c in enumerate(calls):
                if c[1] != 'possible_intersection':
                    continue
                lower, upper = c[2]
                res = brs.get('pi(%s,%s)==2' % (lower, upper))
                after = []
                for d in calls[i + 1:]:
                    if d[1] == 'possible_intersection':
                        break
                    if d[1] == 'compute_fields':
                        after.append(d[2])
                if res is None:
                    rep.ob(rule_recompute, 'result-tested(%s,%s)' % (lower, upper), False,
                           'the result of possible_intersection(%s, %s) is not compared with 2' % (lower, upper),
                           loc=b.loc(c[3]), reason='dominance')
                    continue
                if is_true(res):
                    n_rec += 1
                    exp2 = [(lower, 'prev(%s)?' % lower, 'operation'), (upper, 'Some(%s)' % lower, 'operation')]
                    rep.ob(rule_recompute, 'after(%s,%s)==2@%s' % (lower, upper, key), after == exp2,
                           'after twins were typed, fields must be recomputed for the lower segment with its own predecessor '
                           'and then for the upper segment with Some(lower): expected %s, found %s' % (exp2, after),
                           loc=b.loc(c[3]), reason='dominance', expected=exp2, found=after)
                else:
                    rep.ob(rule_recompute, 'after(%s,%s)!=2@%s' % (lower, upper, key), after == [],
                           'fields recomputed although no edge type changed: %s' % after, loc=b.loc(c[3]), reason='dominance')
        else:
            n_right += 1
            key = 'R:' + ','.join('%s=%s' % (k, int(is_true(v))) for k, v in sorted(brs.items()) if k.startswith('has(') or k.startswith('contains('))
            o = 'event.other_event'
            ok = 'insert' not in names and 'compute_fields' not in names
            rep.ob(rule_neigh, 'right-event-no-insert@' + key, ok, 'a right event inserts / recomputes: %s' % names,
                   loc=b.loc(calls[0][3]) if calls else None, reason='dominance')
            has_other = is_true(brs.get('has(%s)' % o, ('eq', 0)))
            cont = [v for k, v in brs.items() if k == 'contains(%s)' % o]
            in_line = has_other and cont and all(is_true(v) for v in cont)
            rem = [c for c in calls if c[1] == 'remove']
            pis = [c for c in calls if c[1] == 'possible_intersection']
            if in_line:
                queried = set(c[1] for c in calls if c[1] in ('prev', 'next') and c[2] == (o,))
                hp, hn = brs.get('has(prev(%s))' % o), brs.get('has(next(%s))' % o)
                none_p = 'prev' in queried and hp is not None and not is_true(hp)
                none_n = 'next' in queried and hn is not None and not is_true(hn)
                rep.ob(rule_neigh, 'neighbours-queried-before-removal@' + key, queried == {'prev', 'next'} or none_p or none_n,
                       'before a segment is removed both of its sweep-line neighbours must be looked up (sweep_line.prev / next of the left '
                       'event) on every path, unless the first one looked up does not exist; this path queries %s' % sorted(queried),
                       loc=b.loc(rem[0][3]) if rem else b.loc(b.j['line_lo']), reason='dominance')
                both = is_true(brs.get('has(prev(%s))' % o, ('eq', 0))) and is_true(brs.get('has(next(%s))' % o, ('eq', 0)))
                exp = [('prev(%s)' % o, 'next(%s)' % o)] if both else []
                got = [c[2] for c in pis]
                n_pi += len(got)
                rep.ob(rule_neigh, 'post-removal-check@' + key, got == exp,
                       'before a segment is removed its two neighbours (of the left event) must be checked against each other '
                       'when both exist: expected %s, found %s' % (exp, got),
                       loc=b.loc(rem[0][3]) if rem else b.loc(b.j['line_lo']), reason='dominance', expected=exp, found=got)
                ok = len(rem) == 1 and rem[0][2] == (o,) and calls[-1][1] == 'remove'
                rep.ob(rule_neigh, 'remove-left-event-last@' + key, ok,
                       'the left event of the finished segment must be removed from the sweep line, after the neighbour check; '
                       'found %s' % [(c[1], c[2]) for c in calls if c[1] in ('remove', 'possible_intersection')],
                       loc=b.loc(rem[0][3]) if rem else b.loc(b.j['line_lo']), reason='dominance')
                if pis and rem:
                    idx_pi = calls.index(pis[0])
                    idx_rm = calls.index(rem[0])
                    rep.ob(rule_neigh, 'check-before-remove@' + key, idx_pi < idx_rm, 'neighbour check after removal',
                           loc=b.loc(rem[0][3]), reason='dominance')
            else:
                rep.ob(rule_neigh, 'no-removal-without-segment@' + key, not rem and not pis,
                       'remove / neighbour check although the segment is not in the sweep line', loc=b.loc(b.j['line_lo']),
                       reason='dominance')
    rep.floor(rule_neigh, 'left-event paths', n_left, 10)
    rep.floor(rule_neigh, 'right-event paths', n_right, 4)
    rep.floor(rule_neigh, 'possible_intersection call instances on paths', n_pi, 20)
    rep.floor(rule_recompute, 'recomputation instances on paths', n_rec, 10)
    return b, ps


class CannotEval(Exception):
    pass


def check_break(ctx, rep, rule='B-break'):
    """break iff (Intersection and event.x > min(sbbox.max.x, cbbox.max.x)) or (Difference and event.x > sbbox.max.x);
    strict; the current event is pushed to sorted_events before the test; Union/Xor never stop early.
    The tests made between popping an event and looking at its left flag are *evaluated* for the four operations and all
    orderings of (event.x, sbbox.max.x, cbbox.max.x) (27 weak orderings on {0,1,2}), so the form of the test (match, named
    booleans, min() or an if) does not matter; a test on anything else is reported."""
    import itertools
    b, ps = rep.explore(ctx, SUBDIVIDE, rule, opaque=OPAQUE)
    if b is None:
        return
    ops = ctx.facts().enum_variants('boolean::Operation') or ['Intersection', 'Difference', 'Union', 'Xor']

    def ev(v, env, p, depth=0):
        x = strip_upd(v)
        k = x[0]
        if depth > 40:
            raise CannotEval('too deep')
        if k == 'c':
            c = x[1]
            if isinstance(c, (bool, int)):
                return c
            if isinstance(c, tuple) and c[0] == 'enum':
                return ('enum', c[2])
            raise CannotEval(show(x)[:40])
        if k == 'param' and x[2] == 'operation':
            return ('enum', env['op'])
        if k == 'agg' and x[1] == 'adt' and not x[4]:
            return ('enum', x[2])
        if k in ('refval', 'deref') and len(x) > 1 and strip_upd(x[1])[0] in ('ref', 'param', 'agg', 'c'):
            return ev(x[1], env, p, depth + 1)
        if k == 'ref' and x[1][0][0] == 'loc' and x[1] in p.final.mem:
            return ev(p.final.mem[x[1]], env, p, depth + 1)
        if k == 'discr':
            val = ev(x[1], env, p, depth + 1)
            if isinstance(val, tuple) and val[0] == 'enum' and val[1] in ops:
                return ops.index(val[1])
            raise CannotEval('discriminant of %s' % show(noepoch(x[1]))[:40])
        if k == 'op':
            if x[1] == 'not':
                return not ev(x[2], env, p, depth + 1)
            a, c = ev(x[2], env, p, depth + 1), ev(x[3], env, p, depth + 1)
            f = {'gt': lambda: a > c, 'lt': lambda: a < c, 'ge': lambda: a >= c, 'le': lambda: a <= c, 'eq': lambda: a == c,
                 'ne': lambda: a != c, 'bitand': lambda: bool(a) and bool(c), 'bitor': lambda: bool(a) or bool(c),
                 'bitxor': lambda: bool(a) != bool(c)}.get(x[1])
            if f is None:
                raise CannotEval('operator %s' % x[1])
            if x[1] in ('gt', 'lt', 'ge', 'le') and (isinstance(a, tuple) or isinstance(c, tuple)):
                raise CannotEval('ordering of non-numbers')
            return f()
        if k in ('pcall', 'call') and re.search(r'Float::(min|max)$', x[1]) and len(x[2]) == 2:
            a, c = ev(x[2][0], env, p, depth + 1), ev(x[2][1], env, p, depth + 1)
            return min(a, c) if x[1].endswith('min') else max(a, c)
        if k in ('pcall', 'call') and re.search(r'Float::(infinity|max_value)$', x[1]) and not x[2]:
            return float('inf')         # a bound no coordinate exceeds: `x > F::infinity()` never stops the sweep
        if k in ('pcall', 'call') and re.search(r'Float::(neg_infinity|min_value)$', x[1]) and not x[2]:
            return float('-inf')
        if k in ('pcall', 'call') and re.search(r'PartialEq(<[^>]*>)?>?::(eq|ne)$', x[1]) and len(x[2]) == 2:
            a, c = ev(x[2][0], env, p, depth + 1), ev(x[2][1], env, p, depth + 1)
            return (a == c) if x[1].endswith('eq') else (a != c)
        nm = coord_name(x, p)
        if nm in env:
            return env[nm]
        raise CannotEval(nm[:60])

    def holds(cond, val):
        if isinstance(val, tuple):
            raise CannotEval('enum in a branch')
        val = int(val)
        if cond[0] == 'eq':
            return val == int(cond[1])
        if cond[0] == 'notin':
            return val not in [int(z) for z in cond[1]]
        raise CannotEval('condition %s' % (cond,))

    prefixes = []
    for p in ps:
        brs = []
        pushed = False
        looked = False
        got_event = False
        for e in p.events:
            if e.get('depth', 0) != 0:
                continue
            if e['k'] == 'call' and e['callee'].endswith('::push') and 'Vec' in e['callee']:
                pushed = ent(e['args'][1], p) == 'event'
            if e['k'] == 'branch':
                nm = cond_name(e['val'], p)
                if nm == 'event.left':
                    looked = True
                    break
                if nm.startswith('has(') and not nm.startswith('has(other:'):
                    if nm == 'has(event)' and is_true(e['cond']):
                        got_event = True
                    continue
                brs.append((nm, e['cond'], e['val'], e['line']))
        if not got_event:
            continue
        exits = (p.end == 'return') and not looked
        prefixes.append((p, brs, exits, pushed))
        if exits:
            rep.ob(rule, 'event-recorded-before-break', pushed, 'the event at which the sweep stops is not pushed to sorted_events first',
                   loc=b.loc(b.j['line_lo']), reason='dominance')
    n = 0
    bad_tests = set()
    results = {}
    for op in ops:
        for (ex, s, c) in itertools.product((0, 1, 2), repeat=3):
            env = {'op': op, 'event.point.x': ex, 'sbbox.max.x': s, 'cbbox.max.x': c}
            expected = (op == 'Intersection' and ex > min(s, c)) or (op == 'Difference' and ex > s)
            outcomes = set()
            for (p, brs, exits, pushed) in prefixes:
                consistent = True
                for (nm, cond, val, line) in brs:
                    try:
                        if not holds(cond, ev(val, env, p)):
                            consistent = False
                            break
                    except CannotEval as e_:
                        bad_tests.add((nm[:60], line, str(e_)))
                        consistent = False
                        break
                if consistent:
                    outcomes.add(exits)
            key = (op, ex > s, ex > c)
            r = results.setdefault(key, [expected, set()])
            r[1] |= outcomes if outcomes else {'no-path'}
    for (nm, line, why) in sorted(bad_tests):
        rep.ob(rule, 'unexpected-early-test:%s' % nm, False,
               'before an event is processed the sweep tests `%s` (%s); only `event.x > min(sbbox.max.x, cbbox.max.x)` (Intersection) and '
               '`event.x > sbbox.max.x` (Difference) may stop or skip work' % (nm, why), loc=b.loc(line), reason='table-row')
    for (op, a, c_), (expected, outs) in sorted(results.items()):
        n += 1
        if op in ('Intersection', 'Difference'):
            inst = '%s-bound:beyond-subject=%d,beyond-clipping=%d' % (op, a, c_)
        else:
            inst = '%s-never-stops-early:beyond-subject=%d,beyond-clipping=%d' % (op, a, c_)
        rep.ob(rule, inst, outs == {expected},
               '%s with event.x > sbbox.max.x = %s and event.x > cbbox.max.x = %s: the sweep must %s, the code %s'
               % (op, a, c_, 'stop' if expected else 'go on', {True: 'stops', False: 'goes on', 'no-path': 'has no path'} and
                  sorted('stops' if o is True else 'goes on' if o is False else 'has no consistent path' for o in outs)),
               loc=b.loc(b.j['line_lo']), reason='table-row')
    rep.rows_compared += n
    rep.floor(rule, 'break-condition rows', n, 16)


def bound_name(v, p):
    """name of the right-hand side of `event.point.x > BOUND` (strict greater-than only)"""
    x = strip_upd(v)
    if x[0] != 'op' or x[1] != 'gt':
        return 'other-op:' + x[1]
    lhs = coord_name(x[2], p)
    rhs = coord_name(x[3], p)
    if lhs != 'event.point.x':
        return 'other-lhs:' + lhs
    return rhs


def coord_name(v, p):
    x = strip_upd(v)
    if x[0] == 'field' and x[2] in ('x', 'y'):
        inner = strip_upd(x[1])
        if inner[0] == 'field' and inner[2] in ('point', 'min', 'max'):
            base = strip_upd(inner[1])
            if base[0] == 'deref':
                return '%s.%s.%s' % (ent(base[1], p), inner[2], x[2])
    if x[0] in ('pcall', 'call') and re.search(r'Float::min$', x[1]) and len(x[2]) == 2:
        return 'min(%s,%s)' % (coord_name(x[2][0], p), coord_name(x[2][1], p))
    if x[0] in ('pcall', 'call') and re.search(r'Float::max$', x[1]) and len(x[2]) == 2:
        return 'max(%s,%s)' % (coord_name(x[2][0], p), coord_name(x[2][1], p))
    if x[0] == 'havoc' or x[0] == 'upd':
        return 'loop-carried'
    return show(noepoch(x))[:60]


def check_comparator(ctx, rep, rule='O-consumers'):
    """the sweep line is a SplaySet built with the fn item compare_segments"""
    b, ps = rep.explore(ctx, SUBDIVIDE, rule, opaque=OPAQUE)
    if b is None:
        return
    ok = False
    for p in ps:
        for e in p.calls():
            if e['callee'].endswith('SplaySet::<T, C>::new'):
                a = strip_upd(e['args'][0])
                ok = a[0] == 'c' and isinstance(a[1], tuple) and a[1][0] == 'fn' and a[1][1].endswith('compare_segments::compare_segments')
                if not ok:
                    rep.ob(rule, 'sweep-line-comparator', False, 'the sweep line is ordered by %s, not by compare_segments' % show(a),
                           loc=b.loc(e['line']), reason='provenance')
                    return
    rep.ob(rule, 'sweep-line-comparator', ok, 'no SplaySet::new(compare_segments) found in subdivide', loc=b.loc(b.j['line_lo']),
           reason='anchor-missing')
