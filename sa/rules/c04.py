"""C04 output geometry comes from the inputs (partly decided: coordinate provenance from input vertices / clamped
intersection points to result rings, endpoint guards).  Closedness, area and orientation of rings are not decided."""
from rules import fillrules, pirules, cerules, segrules, oprules, walkrules, booltables as bt

from rules import looprules

LEVEL = 'other'
EXPLANATION = __doc__


def run(ctx, rep):
    # G-sources: where the point of every created event comes from
    fillrules.check_process_polygon(ctx, rep, rules=('G-sources', 'W-left', 'W-collapsed', 'W-iter', 'B-acc'))
    fillrules.check_divide(ctx, rep, rules=('G-sources', None))
    pirules.check_code(ctx, rep, rule='G-sources')
    # G-sinks
    cerules.check_sinks(ctx, rep)
    walkrules.check_result_events(ctx, rep)
    walkrules.check_other_pos(ctx, rep)
    walkrules.check_walk(ctx, rep)
    walkrules.check_next_pos(ctx, rep)
    walkrules.check_vertex_cycle(ctx, rep)
    oprules.check_assemble(ctx, rep, rule='G-sinks')
    oprules.check_trivial(ctx, rep, rule='G-sinks')
    # rings close only if the edges are selected consistently: the selection / propagation tables are a necessary condition
    bt.check_select(ctx, rep)
    bt.check_prop(ctx, rep)
    bt.check_atom_models(ctx, rep)
    # G-clamp, G-endpoint
    segrules.check_clamp(ctx, rep)
    segrules.check_algebra(ctx, rep)
    pirules.check_endpoint_guards(ctx, rep)
    looprules.check_loops(ctx, rep)
