"""Extraction of the finite decision tables of the sweep classification from MIR paths, and their comparison
with the oracle tables.  Shared by C01, C02, C05, C06, C14."""
import sym
from sym import show, noepoch, strip_upd
from rules import oracle
from rules.tables import Table, CannotTabulate, fmt_val, prefix_conds, event_cell_stores, obj_root, atom_name

IN_RESULT = 'boolean::compute_fields::in_result'
DET_TRANS = 'boolean::compute_fields::determine_result_transition'
COMPUTE = 'boolean::compute_fields::compute_fields'
POSSIBLE = 'boolean::possible_intersection::possible_intersection'

ALIAS_CF = {'(maybe_prev as Some).0': 'prev', 'discr(maybe_prev)': 'has_prev'}


def ename(x):
    return x[2] if isinstance(x, tuple) and x[0] == 'enum' else x


def _ret_eval(tab, outcome, val):
    return ename(tab.ev(outcome, val))


def table_of_return(ctx, rep, rule, fn):
    """decision table of a loop-free function's return value; None (+violation) when not tabulable"""
    b, ps = rep.explore(ctx, fn, rule)
    if b is None:
        return None
    try:
        tab = Table(ctx.facts(), b)
        for p in ps:
            if p.end == 'unreachable':
                continue
            if p.end != 'return':
                raise CannotTabulate('path ends with %s' % p.end)
            tab.add_row(p.conds, p.ret, p, outcome_terms=[p.ret])
        rows = list(tab.tabulate(_ret_eval))
    except (CannotTabulate, sym.CannotAnalyse) as e:
        rep.ob(rule, 'tabulable:%s' % sym.short(fn), False, 'cannot tabulate %s: %s' % (fn, e),
               loc=b.loc(b.j['line_lo']), reason='cannot-tabulate')
        return None
    return b, tab, rows


def need_atoms(rep, rule, fn, tab, b, allowed, required=()):
    """the oracle is a function of the listed atoms.  Further atoms with a finite domain that the paths happen to test (for
    example because an independent computation was moved in front) are enumerated like the others: every row is still compared
    with the oracle, so a result that wrongly depends on them shows up as a mismatching row.  Only an explosion fails closed."""
    extra = sorted(set(tab.atoms) - set(allowed))
    rep.info.setdefault('further atoms enumerated', {})[sym.short(fn)] = extra
    rep.ob(rule, 'atoms:%s' % sym.short(fn), len(extra) <= 5,
           '%s branches on %s besides the atoms of the table (%s): too many to enumerate' % (fn, extra, sorted(allowed)),
           loc=b.loc(b.j['line_lo']), reason='cannot-tabulate')
    return len(extra) <= 5


def path_lines(b, p):
    return ['%s:%s' % (b.file, l) for l in p.branch_lines()][:10]


# ------------------------------------------------------------- the stored result transition as one table (fallback)

def combined_table(ctx, rep, rule):
    """(body, {(op, edge_type, is_subject, in_out, other_in_out): set of 'None' / 'InOut' / 'OutIn'}) read from compute_fields with
    every helper of its module expanded: the value stored into result_transition as a function of the operation and of the event's
    own edge type and flags (loads of the flags are atoms, so the part of compute_fields that writes them does not enter).  Used when
    the selection / transition helpers are not the two functions the primary tables read (renamed, merged, other signatures)."""
    cached = getattr(ctx, '_combined_tables', None)
    if cached is None:
        cached = ctx._combined_tables = {}
    if ctx.config in cached:
        return cached[ctx.config]
    f = ctx.facts()
    helpers = tuple(sorted(n for n in f.bodies if n.startswith('boolean::compute_fields::') and n != COMPUTE
                           and '{closure' not in n and '{promoted' not in n))
    b, ps = rep.explore(ctx, COMPUTE, rule, expand=helpers, atomic=('in_out', 'other_in_out'))
    res = None
    if b is not None:
        try:
            tab = Table(f, b, alias=ALIAS_CF, domains={'has_prev': [0, 1]})
            seen = set()
            for p in ps:
                if p.end == 'unreachable':
                    continue
                if p.end != 'return':
                    raise CannotTabulate('path ends with %s' % p.end)
                st = [s for s in event_cell_stores(p) if s[2] == 'result_transition' and obj_root(s[1], ALIAS_CF) == 'event']
                if len(st) != 1:
                    raise CannotTabulate('%d stores of the event\'s result_transition on one path (expected 1)' % len(st))
                flags = [s[0] for s in event_cell_stores(p) if s[2] in ('in_out', 'other_in_out')]
                lo = max(flags) if flags else -1
                if lo > st[0][0]:
                    raise CannotTabulate('the flags are written after the result transition was computed')
                conds = []
                for e in p.events[lo + 1:st[0][0]]:
                    if e['k'] == 'branch':
                        conds.extend(sym.normalise_cond(e['val'], e['cond']))
                key = (tuple(sorted(map(repr, (noepoch(c) for c in conds)))), repr(noepoch(st[0][3])))
                if key in seen:
                    continue
                seen.add(key)
                tab.add_row(conds, st[0][3], p, outcome_terms=[st[0][3]])
            rows = list(tab.tabulate(_ret_eval))
            allowed = {'operation', 'event.edge_type', 'event.is_subject', 'event.other_in_out', 'event.in_out'}
            if need_atoms(rep, rule, COMPUTE, tab, b, allowed):
                code = {}
                for val, out, p in rows:
                    for op in oracle.OPS:
                        for et in oracle.EDGE_TYPES:
                            for subj in (False, True):
                                for io in (False, True):
                                    for oio in (False, True):
                                        want = {'operation': op, 'event.edge_type': et, 'event.is_subject': subj, 'event.in_out': io,
                                                'event.other_in_out': oio}
                                        if all(ename(val[a]) == w for a, w in want.items() if a in val):
                                            code.setdefault((op, et, subj, io, oio), set()).add(out)
                res = (b, code)
        except (CannotTabulate, sym.CannotAnalyse) as e:
            rep.ob(rule, 'tabulable:compute_fields/result', False, 'cannot tabulate the result transition stored by compute_fields: %s' % e,
                   loc=b.loc(b.j['line_lo']), reason='cannot-tabulate')
    cached[ctx.config] = res
    return res


def _anchors_present(ctx):
    f = ctx.facts()
    return IN_RESULT in f.bodies and DET_TRANS in f.bodies


def select_from_combined(ctx, rep, rule):
    r = combined_table(ctx, rep, rule)
    if r is None:
        return None
    b, code = r
    table = {}
    n = 0
    for op in oracle.OPS:
        for et in oracle.EDGE_TYPES:
            for subj in (False, True):
                for oio in (False, True):
                    outs = set()
                    for io in (False, True):
                        outs |= set(o != 'None' for o in code.get((op, et, subj, io, oio), {'?'}))
                    exp = oracle.in_result(op, et, subj, oio)
                    n += 1
                    rep.ob(rule, 'op=%s,edge_type=%s,is_subject=%d,other_in_out=%d' % (op, et, subj, oio), outs == {exp},
                           'compute_fields selects the edge %s but a %s edge with these flags %s a boundary of %s'
                           % (sorted(outs), et, 'is' if exp else 'is not', op), loc=b.loc(b.j['line_lo']), reason='table-row',
                           expected=exp, found=sorted(outs))
                    if len(outs) == 1:
                        table[(op, et, subj, oio)] = outs.pop()
    rep.rows_compared += n
    return table


def trans_from_combined(ctx, rep, rule, edge_types):
    r = combined_table(ctx, rep, rule)
    if r is None:
        return None
    b, code = r
    table = {}
    n = 0
    for op in oracle.OPS:
        for et in edge_types:
            for subj in (False, True):
                for io in (False, True):
                    for oio in (False, True):
                        exp = oracle.transition(op, et, subj, io, oio)
                        if exp is None or not oracle.in_result(op, et, subj, oio):
                            continue
                        vals = set(code.get((op, et, subj, io, oio), {'?'}))
                        n += 1
                        rep.ob(rule, 'op=%s,edge_type=%s,is_subject=%d,in_out=%d,other_in_out=%d' % (op, et, subj, io, oio), vals == {exp},
                               'result transition %s recorded, but the %s result is %s just above such a %s edge'
                               % (sorted(vals), op, 'inside' if exp == 'OutIn' else 'outside', et), loc=b.loc(b.j['line_lo']),
                               reason='table-row', expected=exp, found=sorted(vals))
                        if len(vals) == 1:
                            table[(op, et, subj, io, oio)] = vals.pop()
    rep.rows_compared += n
    return table


# ---------------------------------------------------------------------------------- T-select

def check_select(ctx, rep, rule='T-select'):
    """in_result == oracle for every (operation, edge_type, is_subject, other_in_out); returns the code's table"""
    if not _anchors_present(ctx):
        return select_from_combined(ctx, rep, rule)
    r = table_of_return(ctx, rep, None, IN_RESULT)
    if r is None:
        return select_from_combined(ctx, rep, rule)
    b, tab, rows = r
    allowed = {'operation', 'event.edge_type', 'event.is_subject', 'event.other_in_out', 'event.in_out'}
    if set(tab.atoms) - allowed:
        return select_from_combined(ctx, rep, rule)
    code = {}
    for val, out, p in rows:
        op = ename(val.get('operation'))
        et = ename(val.get('event.edge_type', ('enum', '', 'Normal')))
        subj = val.get('event.is_subject')
        oio = val.get('event.other_in_out')
        code.setdefault((op, et, subj, oio), set()).add((out, tuple(path_lines(b, p))))
    table = {}
    n = 0
    for op in oracle.OPS:
        for et in oracle.EDGE_TYPES:
            for subj in (False, True):
                for oio in (False, True):
                    # rows of the code table that agree with this key on the atoms the code reads
                    outs = set()
                    for (cop, cet, csubj, coio), os_ in code.items():
                        if (cop in (None, op)) and (cet == et or 'event.edge_type' not in tab.atoms) and \
                                (csubj in (None, subj)) and (coio in (None, oio)):
                            outs |= os_
                    exp = oracle.in_result(op, et, subj, oio)
                    vals = set(o for o, _ in outs)
                    ok = vals == {exp}
                    n += 1
                    inst = 'op=%s,edge_type=%s,is_subject=%d,other_in_out=%d' % (op, et, subj, oio)
                    rep.ob(rule, inst, ok,
                           'in_result selects the edge %s but a %s edge with these flags %s a boundary of %s'
                           % (sorted(vals), et, 'is' if exp else 'is not', op),
                           loc=b.loc(b.j['line_lo']), reason='table-row', expected=exp, found=sorted(vals))
                    if not ok:
                        rep.violations[-1]['path'] = sorted(set(l for _, ls in outs for l in ls))
                    if len(vals) == 1:
                        table[(op, et, subj, oio)] = vals.pop()
    rep.rows_compared += n
    rep.sample({'table': 'T-select', 'rows': n, 'atoms': sorted(tab.atoms),
                'example': {'op=Difference,Normal,subject,other_in_out=1': table.get(('Difference', 'Normal', True, True))}})
    return table


# ----------------------------------------------------------------------------------- T-trans

def check_trans(ctx, rep, rule, edge_types, name=None):
    """determine_result_transition == oracle on the rows with the given edge types that in_result selects"""
    if not _anchors_present(ctx):
        return trans_from_combined(ctx, rep, rule, edge_types)
    r = table_of_return(ctx, rep, None, DET_TRANS)
    if r is None:
        return trans_from_combined(ctx, rep, rule, edge_types)
    b, tab, rows = r
    allowed = {'operation', 'event.edge_type', 'event.is_subject', 'event.other_in_out', 'event.in_out'}
    if set(tab.atoms) - allowed:
        return trans_from_combined(ctx, rep, rule, edge_types)
    reads_et = 'event.edge_type' in tab.atoms
    code = {}
    for val, out, p in rows:
        key = (ename(val.get('operation')), ename(val.get('event.edge_type')) if reads_et else None,
               val.get('event.is_subject'), val.get('event.in_out'), val.get('event.other_in_out'))
        code.setdefault(key, set()).add((out, tuple(path_lines(b, p))))
    n = 0
    table = {}
    for op in oracle.OPS:
        for et in edge_types:
            for subj in (False, True):
                for io in (False, True):
                    for oio in (False, True):
                        exp = oracle.transition(op, et, subj, io, oio)
                        if exp is None:
                            continue
                        outs = set()
                        for (cop, cet, csubj, cio, coio), os_ in code.items():
                            if cop in (None, op) and cet in (None, et) and csubj in (None, subj) and \
                                    cio in (None, io) and coio in (None, oio):
                                outs |= os_
                        vals = set(o for o, _ in outs)
                        n += 1
                        inst = 'op=%s,edge_type=%s,is_subject=%d,in_out=%d,other_in_out=%d' % (op, et, subj, io, oio)
                        ok = vals == {exp}
                        rep.ob(rule, inst, ok,
                               'result transition %s recorded, but the %s result is %s just above such a %s edge'
                               % (sorted(vals), op, 'inside' if exp == 'OutIn' else 'outside', et),
                               loc=b.loc(b.j['line_lo']), reason='table-row', expected=exp, found=sorted(vals))
                        if not ok:
                            rep.violations[-1]['path'] = sorted(set(l for _, ls in outs for l in ls))
                        if len(vals) == 1:
                            table[(op, et, subj, io, oio)] = vals.pop()
    rep.rows_compared += n
    rep.sample({'table': rule, 'rows': n, 'atoms': sorted(tab.atoms)})
    return table


# ------------------------------------------------------------------------------------ T-prop

def _find_call(p, suffix, start=0):
    for i, e in enumerate(p.events):
        if i >= start and e['k'] == 'call' and e['depth'] == 0 and e['callee'].endswith(suffix):
            return i
    return None


def _inline_span(p, i):
    """index range of the events produced while call number i was being inlined"""
    j = i + 1
    while j < len(p.events) and p.events[j].get('depth', 0) > 0:
        j += 1
    return i + 1, j


def check_prop(ctx, rep, rule='T-prop'):
    """the (in_out, other_in_out) written to the event in the first half of compute_fields == oracle"""
    b, ps = rep.explore(ctx, COMPUTE, rule)
    if b is None:
        return None
    f = ctx.facts()
    try:
        tab = Table(f, b, alias=ALIAS_CF, domains={'has_prev': [0, 1]})
        seen = set()
        for p in ps:
            if p.end != 'return':
                continue
            # the first stores into the event's in_out / other_in_out fields
            st = [s for s in event_cell_stores(p) if s[2] in ('in_out', 'other_in_out')]
            if not st:
                raise CannotTabulate('a path of compute_fields writes neither in_out nor other_in_out')
            first = {}
            for (i, ptr, field, val) in st:
                if obj_root(ptr, ALIAS_CF) != 'event':
                    raise CannotTabulate('in_out written on %s, not on the event being computed' % obj_root(ptr, ALIAS_CF))
                first.setdefault(field, (i, val))
            if set(first) != {'in_out', 'other_in_out'}:
                raise CannotTabulate('only %s written' % sorted(first))
            upto = max(i for i, _ in first.values())
            conds = prefix_conds(p, upto)
            outcome = (first['in_out'][1], first['other_in_out'][1])
            key = (tuple(sorted(map(repr, (noepoch(c) for c in conds)))), repr(noepoch(outcome)))
            if key in seen:
                continue
            seen.add(key)
            tab.add_row(conds, outcome, p, outcome_terms=list(outcome))
            # no later write to these two fields on the same path
            later = [s for s in st if s[0] > upto]
            if later:
                raise CannotTabulate('in_out / other_in_out written twice on one path')
        rows = list(tab.tabulate(lambda t, o, val: (t.ev(o[0], val), t.ev(o[1], val))))
    except (CannotTabulate, sym.CannotAnalyse) as e:
        rep.ob(rule, 'tabulable:compute_fields', False, 'cannot tabulate the flag propagation of compute_fields: %s' % e,
               loc=b.loc(b.j['line_lo']), reason='cannot-tabulate')
        return None
    allowed = {'has_prev', 'event.is_subject', 'prev.is_subject', 'is_vertical(prev)', 'prev.in_out', 'prev.other_in_out'}
    if not need_atoms(rep, rule, COMPUTE, tab, b, allowed):
        return None
    n = 0
    seen_inst = set()
    for val, out, p in rows:
        has_prev = bool(val.get('has_prev', 1))
        same = val.get('event.is_subject') == val.get('prev.is_subject')
        vert = val.get('is_vertical(prev)', False)
        pio, poio = val.get('prev.in_out', False), val.get('prev.other_in_out', False)
        exp = oracle.propagate(has_prev, same, vert, pio, poio)
        if has_prev:
            inst = 'same_operand=%d,prev_vertical=%d,prev.in_out=%d,prev.other_in_out=%d' % (same, vert, pio, poio)
        else:
            inst = 'no_prev'
        ok = tuple(out) == tuple(exp)
        if inst in seen_inst and ok:
            continue
        seen_inst.add(inst)
        n += 1
        rep.ob(rule, inst, ok,
               'compute_fields sets (in_out, other_in_out) = %s from the predecessor; the strip between a %s predecessor '
               'of %s operand and the edge gives %s' % (tuple(out), 'vertical' if vert else 'non-vertical',
                                                         'the same' if same else 'the other', exp),
               loc=b.loc(b.j['line_lo']), reason='table-row', expected=list(exp), found=list(out))
        if not ok:
            rep.violations[-1]['path'] = path_lines(b, p)
    rep.rows_compared += n
    rep.floor(rule, 'distinct rows', n, 17)
    rep.sample({'table': 'T-prop', 'rows': n, 'atoms': sorted(tab.atoms)})
    return True


# ------------------------------------------------------------------------------------ T-prev

def check_prev(ctx, rep, rule='T-prev'):
    """prev_in_result := prev iff prev is in the result and not vertical; else prev's own prev_in_result; else cleared"""
    b, ps = rep.explore(ctx, COMPUTE, rule)
    if b is None:
        return None
    f = ctx.facts()
    try:
        tab = Table(f, b, alias=ALIAS_CF, domains={'has_prev': [0, 1]})
        seen = set()
        for p in ps:
            if p.end != 'return':
                continue
            st = [s for s in event_cell_stores(p) if s[2] == 'prev_in_result']
            if len(st) != 1:
                raise CannotTabulate('%d writes of prev_in_result on one path (expected exactly 1)' % len(st))
            i, ptr, field, val = st[0]
            if obj_root(ptr, ALIAS_CF) != 'event':
                raise CannotTabulate('prev_in_result written on %s' % obj_root(ptr, ALIAS_CF))
            outcome = classify_weak(val, p)
            conds = prefix_conds(p, i)
            key = (tuple(sorted(map(repr, (noepoch(c) for c in conds)))), outcome)
            if key in seen:
                continue
            seen.add(key)
            tab.add_row(conds, outcome, p)
        alias2 = dict(ALIAS_CF)
        tab.alias = alias2
        rows = list(tab.tabulate(lambda t, o, val: o))
    except (CannotTabulate, sym.CannotAnalyse) as e:
        rep.ob(rule, 'tabulable:compute_fields', False, 'cannot tabulate the prev_in_result logic of compute_fields: %s' % e,
               loc=b.loc(b.j['line_lo']), reason='cannot-tabulate')
        return None
    n = 0
    done = set()
    pp_atom = [a for a in tab.atoms if a == 'discr(prev.prev_in_result)']
    for val, out, p in rows:
        has_prev = bool(val.get('has_prev', 1))
        if not has_prev:
            exp, inst = 'cleared', 'no_prev'
        else:
            rt = ename(val.get('prev.result_transition', ('enum', '', 'None')))
            in_res = rt != 'None'
            vert = val.get('is_vertical(prev)', False)
            has_pp = bool(val[pp_atom[0]]) if pp_atom else False
            if in_res and not vert:
                exp = 'prev'
            elif has_pp:
                exp = 'prev.prev_in_result'
            else:
                exp = 'cleared'
            inst = 'prev_in_result=%d,prev_vertical=%d,prev_has_prev_in_result=%d' % (in_res, vert, has_pp)
        ok = out == exp
        if inst in done and ok:
            continue
        done.add(inst)
        n += 1
        rep.ob(rule, inst, ok, 'compute_fields records %s as the nearest lower result edge; expected %s' % (out, exp),
               loc=b.loc(b.j['line_lo']), reason='table-row', expected=exp, found=out)
        if not ok:
            rep.violations[-1]['path'] = path_lines(b, p)
    rep.rows_compared += n
    rep.floor(rule, 'distinct rows', n, 9)
    return True


def classify_weak(val, p):
    """what a Weak stored into prev_in_result refers to"""
    v = strip_upd(val)
    if v[0] in ('pcall', 'call') and v[1].endswith('::downgrade'):
        a = strip_upd(v[2][0])
        # &Rc: either the parameter prev, or a local holding get_prev_in_result()'s payload
        if a[0] == 'ref':
            held = p.final.mem.get(a[1])
            if held is None:
                return 'other:unknown-local'
            return obj_root(held, ALIAS_CF)
        return obj_root(a, ALIAS_CF)
    if v[0] in ('pcall', 'call') and v[1].endswith('Weak::<T>::new'):
        return 'cleared'
    return 'other:' + show(noepoch(v))


def check_result_part(ctx, rep, rule='S-result'):
    """third part of compute_fields: result_transition := None when in_result(event, operation) is false, else
    determine_result_transition(event, operation); both evaluated after the flags were written"""
    if not _anchors_present(ctx):
        # other helper structure: the stored value is tabulated as a whole (and must be computed after the flags are written)
        r = combined_table(ctx, rep, rule)
        rep.ob(rule, 'stored-result-transition-tabulated', r is not None,
               'the result transition stored by compute_fields cannot be read as a table of the operation and the event\'s own fields',
               reason='cannot-tabulate')
        return
    b, ps = rep.explore(ctx, COMPUTE, rule)
    if b is None:
        return
    n = 0
    seen = set()
    for p in ps:
        if p.end != 'return':
            continue
        st = [s for s in event_cell_stores(p) if s[2] == 'result_transition']
        flag_idx = [s[0] for s in event_cell_stores(p) if s[2] in ('in_out', 'other_in_out')]
        ok = len(st) == 1 and obj_root(st[0][1], ALIAS_CF) == 'event'
        what = 'missing'
        if ok:
            i, ptr, fld, val = st[0]
            v = strip_upd(val)
            # the governing in_result call
            ir = [(j, e) for j, e in enumerate(p.events) if e['k'] == 'call' and e['depth'] == 0 and e['callee'] == IN_RESULT]
            ok = len(ir) == 1 and flag_idx and ir[0][0] > max(flag_idx)
            if ok:
                e = ir[0][1]
                ok = obj_root(e['args'][0], ALIAS_CF) == 'event' and strip_upd(e['args'][1])[0] == 'param'
                res = None
                for (cv, cc) in p.conds:
                    if noepoch(strip_upd(cv)) == noepoch(strip_upd(e['ret'])):
                        res = cc[1]
                if v[0] == 'agg' and v[2] == 'None':
                    what = 'None'
                    ok = ok and res is False
                elif v[0] in ('pcall', 'call') and v[1] == DET_TRANS:
                    what = 'determine_result_transition'
                    ok = ok and res is True and obj_root(v[2][0], ALIAS_CF) == 'event' and strip_upd(v[2][1])[0] == 'param'
                else:
                    what = show(noepoch(v))[:60]
                    ok = False
                key = (what, res)
                if key in seen and ok:
                    continue
                seen.add(key)
        n += 1
        rep.ob(rule, 'result_transition=%s' % what, ok,
               'compute_fields must store None when in_result(event, operation) is false and determine_result_transition(event, '
               'operation) otherwise, both computed after in_out/other_in_out were written; found %s' % what,
               loc=b.loc(b.j['line_lo']), reason='dominance')
    rep.floor(rule, 'result cases', n, 2)


# ------------------------------------------------------------------ the geometric atoms the tables are written over

ISVERT = 'boolean::sweep_event::SweepEvent::<F>::is_vertical'
ISABOVE = 'boolean::sweep_event::SweepEvent::<F>::is_above'


def check_atom_models(ctx, rep, rule='T-atoms'):
    """The tables treat is_vertical(e) as an atom; their meaning is checked here:
    is_vertical(e) == (e has an other event and e.point.x == other.point.x, exactly).  (is_above is not used by the library;
    is_below is checked against its model by O-antisym-event.)"""
    import itertools
    from sym import show, noepoch, strip_upd
    import sym
    b, ps = rep.explore(ctx, ISVERT, rule)
    if b is not None:
        rows = []
        bad = []

        def xeq(v):
            """+1 for self.point.x == other.point.x, -1 for !=, 0 otherwise"""
            x = strip_upd(v)
            if x[0] == 'op' and x[1] == 'not':
                return -xeq(x[2])
            if x[0] == 'op' and x[1] in ('eq', 'ne') and len(x) == 4:
                sa, sb = show(noepoch(x[2])), show(noepoch(x[3]))
                own = [s for s in (sa, sb) if s.replace('*', '').replace('(', '').replace(')', '') == 'self.point.x']
                oth = [s for s in (sa, sb) if 'other_event' in s and s.rstrip(')').endswith('.point.x') and 'Weak::upgrade' in s]
                if len(own) == 1 and len(oth) == 1:
                    return 1 if x[1] == 'eq' else -1
            return 0

        for p in ps:
            if p.end != 'return':
                continue
            val = {}
            for (v, c) in p.conds:
                x = strip_upd(v)
                s = show(noepoch(x))
                if x[0] == 'discr' and 'Weak::upgrade' in s and 'other_event' in s:
                    val['has'] = (c == ('eq', 1))
                elif xeq(x):
                    val['xeq'] = bool(c[1]) if xeq(x) > 0 else (not c[1])
                else:
                    bad.append(s[:80])
            r = strip_upd(sym.simplify(sym.subst(p.ret, p.conds)))
            if sym.is_const(r):
                rows.append((val, bool(r[1])))
            elif xeq(r):
                for truth in (False, True):
                    v2 = dict(val)
                    v2['xeq'] = truth if xeq(r) > 0 else (not truth)
                    rows.append((v2, truth))
            else:
                bad.append('returns ' + show(noepoch(r))[:80])
        for s in sorted(set(bad)):
            rep.ob(rule, 'is_vertical-modelled', False, 'is_vertical depends on `%s`; it must be exactly: other event present and '
                   'self.point.x == other.point.x' % s, loc=b.loc(b.j['line_lo']), reason='cannot-tabulate')
        for has, xe in itertools.product((False, True), repeat=2):
            outs = set(r for (val, r) in rows if val.get('has', has) == has and val.get('xeq', xe) == xe)
            exp = has and xe
            rep.ob(rule, 'is_vertical:has_other=%d,same_x=%d' % (has, xe), outs == {exp},
                   'is_vertical with other event present=%s and equal x=%s returns %s, must return %s' % (has, xe, sorted(outs), exp),
                   loc=b.loc(b.j['line_lo']), reason='table-row')
        rep.rows_compared += 4
