"""C12 purity/determinism, decided whole from effects and state visible in the type-checked program:
operands only behind shared references to types without interior mutability (D-ref, D-freeze); unsafe code
confined to the two splay-tree root accessors (D-unsafe); no global/thread-local state (D-global); no ambient
effects (fs/io/net/env/process/thread/time/rand) in any reachable callee (D-effects); hash collections used for
membership only (D-hash); no address-dependent behaviour (D-addr); all mutable state created inside the call and
nothing Rc/RefCell escapes (D-local).  Zero-count scans are validated on a positive-control crate every run."""
import re
import sym
from facts import callee_name, callee_decl
from rules.common import CallGraph, boolean_entries, entry_bodies, all_statements, all_terms

LEVEL = 'proof'
EXPLANATION = __doc__
TRUSTED = ['rustc nightly type checker / MIR construction / Instance::try_resolve',
           'IEEE arithmetic and std collections are deterministic functions of their inputs',
           'std callees outside the banned module list have no ambient effects',
           'bofacts extractor and rule code']
ASSUMPTIONS = ['verdict is for the default feature configuration (debug-booleanop adds println!/File::create, listed)',
               'a user-constructed SplayTree with an impure comparator closure is out of scope']

BANNED = re.compile(r'\b(std|core)::(fs|io|net|env|process|thread|time|os|sync::(atomic|mpsc|Mutex|RwLock|Once|Condvar|OnceLock|LazyLock|Barrier)|'
                    r'random|hash::random|alloc::System)\b|\brand(_core|_chacha)?::|\b(getrandom|libc)::|::_?e?print(ln)?\b|\b_e?print\b')
GLOBAL_TY = re.compile(r'\b(LocalKey|OnceCell|OnceLock|LazyLock|LazyCell|Lazy|Once|Atomic[A-Z]\w*|Mutex|RwLock)\b')
CELLS = ('std::cell::UnsafeCell', 'std::cell::Cell', 'std::cell::RefCell', 'std::sync::atomic', 'std::sync::Mutex',
         'std::sync::RwLock', 'std::cell::OnceCell')
# Transmute is not listed: in MIR it is also what Box derefs and debug pointer checks lower to; a user-level
# transmute needs an `unsafe` block, and those are confined and shape-checked by D-unsafe.
PTR_CASTS = ('PointerExposeProvenance', 'PointerWithExposedProvenance')


# --------------------------------------------------------------------- scans (also run on the fixture)

def scan_unsafe(facts):
    hits = [u for u in facts.unsafe_blocks if not u['from_expansion']]
    fns = [i for i in facts.items if i['kind'] in ('Fn', 'AssocFn') and i.get('unsafe_fn')]
    impls = [i for i in facts.items if i['kind'].startswith('Impl') and i.get('unsafe_impl') and not i.get('auto_derived')]
    return hits, fns, impls


def scan_casts(facts):
    out = []
    for name, b in facts.bodies.items():
        for i, st in all_statements(b):
            if st['k'] == 'assign' and st['rv']['k'] == 'cast' and not st.get('exp'):
                kind = st['rv']['kind']
                if any(kind.startswith(p) for p in PTR_CASTS):
                    out.append((name, kind, st['rv']['from'], st['rv']['to'], b.loc(st['line'])))
                if kind.startswith('PtrToPtr') and ('*const' in st['rv']['from'] and '*mut' in st['rv']['to']):
                    out.append((name, 'const-to-mut ' + kind, st['rv']['from'], st['rv']['to'], b.loc(st['line'])))
    return out


def scan_globals(facts):
    out = []
    for it in facts.items:
        if it['kind'].startswith('Static'):
            out.append(('static', it['def'], it.get('ty', ''), '%s:%s' % (it['file'], it['line'])))
        elif it.get('ty') and GLOBAL_TY.search(it['ty']):
            out.append(('global-typed item', it['def'], it['ty'], '%s:%s' % (it['file'], it['line'])))
    for name, b in facts.bodies.items():
        for i, st in all_statements(b):
            if st['k'] == 'assign' and st['rv']['k'] == 'threadlocalref':
                out.append(('thread-local access', name, st['rv']['def'], b.loc(st['line'])))
        for i, t in all_terms(b):
            if t['k'] == 'call':
                cn = callee_name(t)
                if 'LocalKey' in cn or 'thread_local' in cn:
                    out.append(('thread-local access', name, cn, b.loc(t['line'])))
    return out


def scan_effects(facts, bodies=None):
    out = []
    for name, b in facts.bodies.items():
        if bodies is not None and name not in bodies:
            continue
        for i, t in all_terms(b):
            if t['k'] in ('call', 'tailcall'):
                for cn in (callee_name(t), callee_decl(t)):
                    if BANNED.search(cn):
                        out.append((name, cn, b.loc(t['line'])))
                        break
    return out


HASH_OK = re.compile(r'^std::collections::Hash(Set|Map)::<.*>::(new|insert|contains|contains_key|with_capacity)$')


def scan_hash(facts):
    bad, ok = [], []
    for name, b in facts.bodies.items():
        for i, t in all_terms(b):
            if t['k'] != 'call':
                continue
            cn = callee_name(t)
            c = t['callee']
            text = cn + ' ' + ' '.join(c.get('args', [])) + ' ' + ' '.join((c.get('resolved') or {}).get('args', []))
            if 'HashSet' in text or 'HashMap' in text or 'hash_set' in text or 'hash_map' in text:
                if HASH_OK.match(cn):
                    ok.append((name, cn))
                elif (c.get('resolved') or {}).get('kind') == 'dropglue':
                    ok.append((name, 'drop'))
                else:
                    bad.append((name, cn, b.loc(t['line'])))
    return bad, ok


ADDR_FNS = re.compile(r'(::as_ptr$|::addr$|::expose_provenance|fmt::Pointer|ptr::eq$|::into_raw$|::as_mut_ptr$|ptr::hash)')


def scan_addr(facts):
    out = []
    for name, b in facts.bodies.items():
        for i, st in all_statements(b):
            if st['k'] == 'assign' and st['rv']['k'] == 'cast' and st['rv']['kind'].startswith('PointerExposeProvenance'):
                out.append((name, 'pointer-to-integer cast', b.loc(st['line'])))
        for i, t in all_terms(b):
            if t['k'] != 'call' or t.get('exp'):
                continue
            cn = callee_name(t)
            c = t['callee']
            if ADDR_FNS.search(cn):
                out.append((name, cn, b.loc(t['line'])))
            if c.get('trait') in ('std::cmp::PartialOrd', 'std::cmp::Ord', 'std::hash::Hash') and \
                    any(a.startswith('*const') or a.startswith('*mut') for a in c.get('args', [])):
                out.append((name, 'ordering/hash of raw pointer via %s' % cn, b.loc(t['line'])))
    return out


# ------------------------------------------------------------------------------------------- the check

def run(ctx, rep):
    f = ctx.facts()
    cg = CallGraph(f)
    entries = boolean_entries(f)
    rep.floor('D-ref', 'BooleanOp impl/default methods', len(entries), 8)
    reach = cg.reachable(entry_bodies(f))
    reach_ops = cg.reachable(entries)
    local_reach = sorted(n for n in reach if n in f.bodies)
    rep.info['bodies_reachable_from_operations'] = len([n for n in reach_ops if n in f.bodies])
    rep.info['bodies_reachable_from_pub_api'] = len(local_reach)
    rep.floor('D-effects', 'local bodies reachable from the four operations', rep.info['bodies_reachable_from_operations'], 60)
    for n in local_reach:
        rep.analysed.add(n)

    # D-ref ------------------------------------------------------------------------------------
    for e in entries:
        b = f.bodies[e]
        ins = b.j.get('sig_inputs', [])
        ok = len(ins) >= 2 and all(t.startswith('&') and not t.startswith('&mut') for t in ins[:2])
        rep.ob('D-ref', e, ok, 'operation method %s does not take both operands by shared reference: %s' % (e, ins),
               loc=b.loc(b.j['line_lo']))
    for stage in ('boolean::boolean_operation', 'boolean::fill_queue::fill_queue', 'boolean::trivial_result'):
        # trivial_result is a helper of boolean_operation that need not exist; the two stages that receive the operands must
        b = rep.anchor(ctx, stage) if not stage.endswith('trivial_result') else f.body(stage)
        if b:
            ins = b.j.get('sig_inputs', [])
            # every parameter that carries polygons carries them behind shared references only (alone or inside a tuple)
            carrying = [t for t in ins if re.search(r'geo_types::(Polygon|MultiPolygon|LineString)<', t)]
            bad = [t for t in carrying if '&mut' in t or not re.match(r'^(\(\s*)?&', t) or
                   re.search(r'(^|[(,]\s*)(std::vec::Vec<)?geo_types::(Polygon|MultiPolygon|LineString)<', t)]
            ok = (len(carrying) >= 2 or stage.endswith('trivial_result')) and not bad
            rep.ob('D-ref', stage, ok, '%s must take the operands by shared reference (&[Polygon<F>]), has %s' % (stage, carrying),
                   loc=b.loc(b.j['line_lo']))

    # D-freeze ---------------------------------------------------------------------------------
    n = 0
    for ty, tr in f.type_reach.items():
        if not re.match(r'^&(\[)?geo_types::(Polygon|MultiPolygon|LineString|Coord)<', ty):
            continue
        n += 1
        cells = [a for a in tr['adts'] if any(a.startswith(c) for c in CELLS)]
        rep.ob('D-freeze', ty, not cells, 'operand type %s can reach interior mutability: %s' % (ty, cells))
    rep.floor('D-freeze', 'operand reference types', n, 3)

    # D-unsafe ---------------------------------------------------------------------------------
    blocks, ufns, uimpls = scan_unsafe(f)
    owners = sorted(set(u['owner'] for u in blocks))
    allowed = {'splay::tree::SplayTree::<K, V, C>::root_mut', 'splay::tree::SplayTree::<K, V, C>::root_ref'}
    for u in blocks:
        rep.ob('D-unsafe', 'block-in:%s' % u['owner'], u['owner'] in allowed,
               'unsafe block outside the two splay root accessors: %s' % u['snippet'],
               loc='%s:%s' % (u['file'], u['line_lo']))
    rep.floor('D-unsafe', 'unsafe blocks (root_mut, root_ref)', len(blocks), 2)
    for o in allowed & set(owners):
        # each dereferences only the pointer returned by UnsafeCell::get(&self.root)
        b, ps = rep.explore(ctx, o, 'D-unsafe')
        for p in ps:
            ok = False
            if p.end == 'return':
                r = sym.strip_upd(p.ret)
                if r[0] in ('call', 'pcall') and r[1].startswith('std::cell::UnsafeCell::<T>::get') and len(r[2]) == 1:
                    a = r[2][0]
                    ok = a[0] == 'ref' and a[1][1] == (('f', 'root'),) and a[1][0][0] == 'ext' and a[1][0][1][0] == 'param'
            rep.ob('D-unsafe', 'deref-of-root-cell:%s' % sym.short(o), ok,
                   '%s must return exactly *self.root.get(); returns %s' % (o, sym.show(p.ret) if p.ret else p.end),
                   loc=b.loc(b.j['line_lo']))
    for i in ufns:
        rep.ob('D-unsafe', 'unsafe-fn:%s' % i['def'], False, 'unsafe fn %s' % i['def'], loc='%s:%s' % (i['file'], i['line']))
    for i in uimpls:
        rep.ob('D-unsafe', 'unsafe-impl:%s' % i['def'], False, 'unsafe impl %s for %s' % (i.get('trait'), i.get('self_ty')),
               loc='%s:%s' % (i['file'], i['line']))
    casts = scan_casts(f)
    for (name, kind, fr, to, loc) in casts:
        rep.ob('D-unsafe', 'cast:%s:%s' % (name, kind.split('(')[0]), False, '%s cast %s -> %s in %s' % (kind, fr, to, name), loc=loc)
    rep.ob('D-unsafe', 'no-pointer-casts', not casts, '')

    # D-global ---------------------------------------------------------------------------------
    gl = scan_globals(f)
    for (k, d, ty, loc) in gl:
        rep.ob('D-global', '%s:%s' % (k, d), False, '%s %s: %s' % (k, d, ty), loc=loc)
    rep.ob('D-global', 'no-statics-thread-locals-lazy-globals', not gl, '')

    # D-effects --------------------------------------------------------------------------------
    eff = scan_effects(f)
    for (name, cn, loc) in eff:
        rep.ob('D-effects', '%s->%s' % (name, sym.short(cn)), False,
               '%s calls %s (ambient effect / ambient input)%s' % (name, cn, '' if name in reach else ' [not reachable from the pub API]'),
               loc=loc)
    rep.ob('D-effects', 'no-ambient-effects', not eff, '')
    ncalls = sum(1 for n in local_reach for _ in f.bodies[n].calls())
    rep.info['call_sites_scanned'] = ncalls
    rep.floor('D-effects', 'call sites scanned', ncalls, 600)

    # D-hash -----------------------------------------------------------------------------------
    bad, ok = scan_hash(f)
    for (name, cn, loc) in bad:
        rep.ob('D-hash', '%s->%s' % (name, sym.short(cn)), False,
               'hash collection used beyond new/insert/contains in %s: %s (iteration order is randomised)' % (name, cn), loc=loc)
    rep.ob('D-hash', 'membership-only', not bad, '')
    rep.info['hash collection call sites (membership only)'] = len(ok)   # no floor: replacing the set by a Vec<bool> is fine

    # D-addr -----------------------------------------------------------------------------------
    ad = scan_addr(f)
    for (name, what, loc) in ad:
        rep.ob('D-addr', '%s:%s' % (name, sym.short(what)), False, 'address-dependent operation in %s: %s' % (name, what), loc=loc)
    rep.ob('D-addr', 'no-address-dependence', not ad, '')
    ptr_eq = sum(1 for n in local_reach for _, t in f.bodies[n].calls() if callee_name(t).endswith('::ptr_eq'))
    rep.info['Rc::ptr_eq sites (identity by equality only)'] = ptr_eq

    # D-local ----------------------------------------------------------------------------------
    b = rep.anchor(ctx, 'boolean::boolean_operation')
    if b:
        out = b.j.get('sig_output', '')
        tr = f.type_reach.get(out, {'adts': []})
        leak = [a for a in tr['adts'] if a.startswith('std::rc::') or any(a.startswith(c) for c in CELLS)]
        rep.ob('D-local', 'return-type', out.startswith('geo_types::MultiPolygon<') and not leak,
               'boolean_operation returns %s which can carry shared/mutable state: %s' % (out, leak), loc=b.loc(b.j['line_lo']))
        bb, ps = rep.explore(ctx, 'boolean::boolean_operation', 'D-local')
        nmut = 0
        for p in ps:
            for e in p.calls():
                for a in e['args']:
                    a0 = sym.strip_upd(a)
                    if a0[0] == 'ref' and a0[2]:
                        nmut += 1
                        rep.ob('D-local', 'mut-arg-local:%s' % sym.short(e['callee']), a0[1][0][0] == 'loc',
                               '&mut passed to %s does not point to a local of boolean_operation: %s' % (e['callee'], sym.show(a)),
                               loc=b.loc(e['line']))
        rep.floor('D-local', '&mut arguments in boolean_operation', nmut, 3)
    # no operation method or stage takes &mut to an operand type
    for name in local_reach:
        bj = f.bodies[name].j
        for t in bj.get('sig_inputs', []):
            if t.startswith('&mut') and re.search(r'geo_types::(Polygon|MultiPolygon|LineString)<', t):
                rep.ob('D-local', 'mut-operand:%s' % name, False, '%s takes a mutable reference to operand geometry: %s' % (name, t),
                       loc=f.bodies[name].loc(bj['line_lo']))

    # thread confinement of the per-call state / results are plain data (type-level witnesses)
    import witness
    witness.check(ctx, rep, ['WSend', 'WSendNeg', 'WSyncNeg', 'WSyncPos'], rule='D-local')
    # positive controls: every zero-count scan must fire on the fixture crate
    fx = ctx.fixture()
    if fx is not None:
        ub, uf, ui = scan_unsafe(fx)
        ctl = {
            'unsafe block': len(ub), 'unsafe fn': len(uf), 'unsafe impl': len(ui), 'pointer cast': len(scan_casts(fx)),
            'global': len(scan_globals(fx)), 'effect': len(scan_effects(fx)), 'hash iteration': len(scan_hash(fx)[0]),
            'address': len(scan_addr(fx)),
        }
        rep.info['positive_controls'] = ctl
        for k, v in ctl.items():
            rep.ob('positive-control', k, v >= 1, 'the %s scan does not fire on the positive-control crate' % k, reason='floor')

    if ctx.tier == 'thorough' and ctx.config == 'default':
        # D-global / D-effects over the dependency crates the library calls into (whole crates, not only the reachable part)
        deps = ctx.dep_facts()
        rep.floor('D-global-deps', 'dependency crates analysed', len(deps), 4)
        dep_info = {}
        for cname, df in sorted(deps.items()):
            bad_statics = []
            for it in df.items:
                if it['kind'].startswith('Static'):
                    mutable = 'mutability: Mut' in it['kind']
                    celly = bool(GLOBAL_TY.search(it.get('ty', ''))) or 'Cell' in it.get('ty', '')
                    if mutable or celly:
                        bad_statics.append((it['def'], it.get('ty')))
            tl = [g for g in scan_globals(df) if g[0] == 'thread-local access' or (g[0] == 'global-typed item')]
            eff = scan_effects(df)
            ub, uf, ui = scan_unsafe(df)
            dep_info[cname] = {'bodies': len(df.bodies), 'immutable statics': len([i for i in df.items if i['kind'].startswith('Static')]),
                               'unsafe blocks (trusted, listed)': sorted(set(u['owner'] for u in ub))[:12]}
            rep.ob('D-global-deps', '%s:no-mutable-or-cell-statics' % cname, not bad_statics and not tl,
                   'dependency %s has global mutable state: %s %s' % (cname, bad_statics[:3], tl[:3]), reason='inventory')
            rep.ob('D-effects-deps', '%s:no-ambient-effects' % cname, not eff,
                   'dependency %s calls ambient-effect functions: %s' % (cname, [(a, sym.short(c)) for a, c, _ in eff[:4]]), reason='inventory')
        rep.info['dependency crates'] = dep_info
    if ctx.tier == 'thorough':
        fd = ctx.facts('debugfeat')
        effd = scan_effects(fd)
        rep.info['debug-booleanop feature adds effect sites (not part of the verdict)'] = sorted(set('%s -> %s' % (a, sym.short(c)) for a, c, _ in effd))[:40]
    rep.sample({'rule': 'D-effects', 'scanned': ncalls, 'banned_pattern': BANNED.pattern[:80] + '...'})
    rep.sample({'rule': 'D-unsafe', 'blocks': [(u['owner'], u['snippet']) for u in blocks]})
    rep.sample({'rule': 'D-hash', 'allowed_sites': sorted(set(ok))[:8]})
