"""Rules on possible_intersection: T-code (return code / division requests / edge types per case),
T-type (twin typing), G-endpoint (no division at an endpoint).  Used by C04, C06, C13, C14, C16."""
import itertools
import re
import sym
from sym import show, noepoch, strip_upd
from rules.tables import obj_root, atom_name, weak_link, fmt_val, CannotTabulate

POSSIBLE = 'boolean::possible_intersection::possible_intersection'
ALIAS = {'se1.other_event': 'other1', 'se2.other_event': 'other2'}


def ent(v, p):
    """entity name of an Rc / pointer value on path p"""
    return obj_root(v, ALIAS, p.final.mem)


def point_name(v, p):
    """name of a Coord value: ENTITY.point or inter (the payload of the intersection result)"""
    x = strip_upd(v)
    if x[0] == 'field' and x[2] == 'point':
        inner = strip_upd(x[1])
        if inner[0] == 'deref':
            return '%s.point' % ent(inner[1], p)
    if x[0] == 'field' and str(x[2]) == '0' and strip_upd(x[1])[0] == 'variant' and strip_upd(x[1])[2] == 'Point':
        src = strip_upd(strip_upd(x[1])[1])
        if src[0] in ('pcall', 'call') and src[1].endswith('::intersection'):
            return 'inter'
    return 'other:' + show(noepoch(x))[:80]


class Case:
    """one returning path of possible_intersection, in terms of named atoms"""
    pass


def analyse(ctx, rep, rule):
    """returns (body, list of Case) or None; Cases carry atoms dict, ret, divisions, types"""
    b, ps = rep.explore(ctx, POSSIBLE, rule)
    if b is None:
        return None
    cases = []
    try:
        for p in ps:
            if p.end == 'unreachable':
                continue
            if p.end == 'diverge':
                # panicking paths are C03's business; here they have no outcome
                c = Case()
                c.kind = 'diverge'
                c.path = p
                c.atoms = path_atoms(p, b, rep, rule)
                cases.append(c)
                continue
            if p.end != 'return':
                raise CannotTabulate('path ends with %s' % p.end)
            c = Case()
            c.kind = 'return'
            c.path = p
            r = strip_upd(p.ret)
            c.atoms = path_atoms(p, b, rep, rule)
            if not sym.is_const(r):
                # a code computed from conditions (`u8::from(split1 && split2)`): evaluated under the path's assumptions; atoms the
                # path has not decided split the case
                inner = r
                if r[0] in ('call', 'pcall') and r[1].endswith('::from') and len(r[2]) == 1:
                    inner = strip_upd(r[2][0])
                elif r[0] == 'cast':
                    inner = strip_upd(r[2])
                free = sorted(set(n for n in _bool_leaves(inner, p) if n not in c.atoms))
                if len(free) > 4:
                    raise CannotTabulate('return value %s depends on too many undecided conditions' % show(r)[:120])
                first = True
                for vals in itertools.product((False, True), repeat=len(free)):
                    c2 = c if first else Case()
                    first = False
                    c2.kind, c2.path = 'return', p
                    c2.atoms = dict(c.atoms)
                    c2.atoms.update(dict(zip(free, vals)))
                    c2.ret = int(_bool_eval(inner, c2.atoms, p))
                    c2.split = True
                    if c2 is not c:
                        c2.pending = True
                        cases.append(c2)
            else:
                c.ret = r[1]
            c.divs = []
            for e in p.calls('divide_segment'):
                a0 = e['args'][0]
                s0 = strip_upd(a0)
                if s0[0] == 'ref' and s0[1][0][0] == 'loc' and s0[1] not in p.final.mem and 0 in e.get('ref_vals', {}):
                    a0 = ('refval', e['ref_vals'][0])      # a temporary of a helper that no longer exists at the end of the path
                c.divs.append((ent(a0, p), point_name(e['args'][1], p), e['line']))
            c.types = {}
            from rules.tables import event_cell_stores
            for (i, ptr, field, val) in event_cell_stores(p):
                if field == 'edge_type':
                    v = strip_upd(val)
                    name = v[2] if v[0] == 'agg' else (v[1][2] if v[0] == 'c' and isinstance(v[1], tuple) else show(v))
                    c.types[ent(ptr, p)] = name
                else:
                    raise CannotTabulate('possible_intersection writes event field %s' % field)
            # intersection() must be called on exactly the four endpoints
            ic = list(p.calls('intersection'))
            c.inter_args = [point_name(a, p) for a in ic[0]['args']] if ic else None
            for c2 in cases:
                if getattr(c2, 'pending', False) and c2.path is p:
                    c2.divs, c2.types, c2.inter_args, c2.pending = c.divs, c.types, c.inter_args, False
            cases.append(c)
    except (CannotTabulate, sym.CannotAnalyse) as e:
        rep.ob(rule, 'tabulable:possible_intersection', False, 'cannot tabulate possible_intersection: %s' % e,
               loc=b.loc(b.j['line_lo']), reason='cannot-tabulate')
        return None
    return b, cases


def _leaf_name(x, p):
    """(atom name, negated) of a comparison leaf, in the canonical naming of path_atoms"""
    name = cond_name(x, p)
    if name is None:
        raise CannotTabulate('condition %s in the return value is not modelled' % show(noepoch(x))[:120])
    neg = False
    if name.startswith('ne('):
        name, neg = 'eq(' + name[3:], True
    return name, neg


def _bool_leaves(v, p):
    x = strip_upd(v)
    if sym.is_const(x):
        return []
    if x[0] == 'op' and x[1] == 'not':
        return _bool_leaves(x[2], p)
    if x[0] == 'op' and x[1] in ('bitand', 'bitor', 'bitxor') and len(x) == 4:
        return _bool_leaves(x[2], p) + _bool_leaves(x[3], p)
    return [_leaf_name(x, p)[0]]


def _bool_eval(v, atoms, p):
    x = strip_upd(v)
    if sym.is_const(x):
        return bool(x[1])
    if x[0] == 'op' and x[1] == 'not':
        return not _bool_eval(x[2], atoms, p)
    if x[0] == 'op' and x[1] in ('bitand', 'bitor', 'bitxor') and len(x) == 4:
        a, b_ = _bool_eval(x[2], atoms, p), _bool_eval(x[3], atoms, p)
        return {'bitand': a and b_, 'bitor': a or b_, 'bitxor': a != b_}[x[1]]
    name, neg = _leaf_name(x, p)
    val = atoms[name]
    if not isinstance(val, bool):
        raise CannotTabulate('condition %s in the return value has no boolean assumption' % name)
    return (not val) if neg else val


ATOM_RE = {
    r'^discr\(se1\.other_event\)$': 'has_other1',
    r'^discr\(se2\.other_event\)$': 'has_other2',
}


def path_atoms(p, b, rep, rule):
    """named assumptions of a path: dict atom -> value"""
    out = {}
    for (v, c) in p.conds:
        name = cond_name(v, p)
        if name is None:
            raise CannotTabulate('condition %s is not modelled' % show(noepoch(v))[:160])
        val = c[1] if c[0] == 'eq' else ('not', c[1])
        if name.startswith('ne(') and isinstance(val, bool):
            name, val = 'eq(' + name[3:], not val
        # order of two whole events: distinct events never compare Equal (O-noequal, C15), so <= is <, and a > b is b < a;
        # canonical form is lt(se1,se2) / lt(other1,other2)
        m = re.match(r'^(lt|le|gt|ge)\((se1|se2|other1|other2),(se1|se2|other1|other2)\)$', name)
        if m and isinstance(val, bool) and m.group(2) != m.group(3):
            a_, b_ = m.group(2), m.group(3)
            if m.group(1) in ('gt', 'ge'):
                a_, b_ = b_, a_
            if a_ > b_ and {a_, b_} in ({'se1', 'se2'}, {'other1', 'other2'}):
                a_, b_, val = b_, a_, not val
            name = 'lt(%s,%s)' % (a_, b_)
        if name in out and out[name] != val:
            raise CannotTabulate('contradictory assumptions on %s' % name)
        out[name] = val
    return out


def cond_name(v, p):
    x = strip_upd(v)
    if x[0] == 'discr':
        inner = strip_upd(x[1])
        w = weak_link(inner, ALIAS)
        if w:
            return 'has(%s)' % ALIAS.get(w, w)
        if inner[0] in ('pcall', 'call') and inner[1].endswith('::intersection'):
            return 'inter_kind'
        return None
    if x[0] == 'op' and x[1] in ('eq', 'ne', 'lt', 'gt', 'le', 'ge') and len(x) == 4:
        a, bb = x[2], x[3]
        na = operand_name(a, p)
        nb = operand_name(bb, p)
        if na and nb:
            return '%s(%s,%s)' % (x[1], na, nb)
        return None
    if x[0] in ('pcall', 'call') and x[1].endswith('::ptr_eq'):
        return 'ptr_eq(%s,%s)' % (ent(x[2][0], p), ent(x[2][1], p))
    return None


def operand_name(a, p):
    x = strip_upd(a)
    pn = point_name(x, p)
    if not pn.startswith('other:'):
        return pn
    if x[0] == 'field' and x[2] in ('is_subject',):
        inner = strip_upd(x[1])
        if inner[0] == 'deref':
            return '%s.%s' % (ent(inner[1], p), x[2])
    n = atom_name(x, ALIAS)
    if n and re.match(r'^(se1|se2|other1|other2)\.(in_out|other_in_out)$', n):
        return n
    # comparison of two events through Ord (Rc<SweepEvent> < Rc<SweepEvent>)
    if x[0] in ('deref', 'field', 'variant', 'param', 'rcptr'):
        e = ent(x, p)
        if e in ('se1', 'se2', 'other1', 'other2'):
            return e
    return None


# ------------------------------------------------------------------------------------- oracle

def oracle(at):
    """expected (return code, divisions, edge types) from the named atoms of a path; None = don't care (panic)"""
    def T(name, default=None):
        return at.get(name, default)
    if T('has(other1)') != 1 or T('has(other2)') != 1:
        return (0, [], {})
    kind = T('inter_kind')
    if kind == 0:
        return (0, [], {})
    lc = T('eq(se1.point,se2.point)')
    rc = T('eq(other1.point,other2.point)')
    if kind == 1:
        if lc or rc:
            return (0, [], {})
        divs = []
        for k in ('1', '2'):
            a = T('eq(se%s.point,inter)' % k)
            b = T('eq(other%s.point,inter)' % k)
            if a is False and b is False:
                divs.append(('se' + k, 'inter'))
        return (1, divs, {})
    if kind == 2:
        if T('eq(se1.is_subject,se2.is_subject)'):
            return (0, [], {})
        # earlier / later left event, owner of earlier / later right event
        if not lc:
            # `se1 < se2` in the reversed heap order means se1 comes later in the sweep
            E, L = ('se2', 'se1') if T('lt(se1,se2)') else ('se1', 'se2')
        if not rc:
            RE, RL = ('se2', 'se1') if T('lt(other1,other2)') else ('se1', 'se2')
        other = {'se1': 'other1', 'se2': 'other2'}
        if lc:
            types = {'se2': 'NonContributing',
                     'se1': 'SameTransition' if T('eq(se1.in_out,se2.in_out)') else 'DifferentTransition'}
            divs = [] if rc else [(RL, other[RE] + '.point')]
            return (2, divs, types)
        if rc:
            return (3, [(E, L + '.point')], {})
        if E != RL:
            return (3, [(E, L + '.point'), (L, other[RE] + '.point')], {})
        return (3, [(E, L + '.point'), (other[RL] + '.other_event', other[RE] + '.point')], {})
    return None


def resolve_ptr_eq(at):
    """Rc::ptr_eq between named events folds to a constant: equal names <=> same object"""
    out = dict(at)
    for k, v in at.items():
        m = re.match(r'^ptr_eq\((\w+),(\w+)\)$', k)
        if m:
            same = m.group(1) == m.group(2)
            out['_ptr_eq_consistent'] = out.get('_ptr_eq_consistent', True) and (bool(v) == same)
    return out


ORACLE_ATOMS = ('eq(se1.point,se2.point)', 'eq(other1.point,other2.point)', 'eq(se1.is_subject,se2.is_subject)',
                'lt(se1,se2)', 'lt(other1,other2)', 'eq(se1.in_out,se2.in_out)')


def check_code(ctx, rep, rule='T-code'):
    r = analyse(ctx, rep, rule)
    if r is None:
        return None
    b, cases = r
    n = 0
    seen = {}
    for c in cases:
        if c.kind != 'return':
            continue
        at = resolve_ptr_eq(c.atoms)
        if at.get('_ptr_eq_consistent') is False:
            continue          # infeasible: ptr_eq of the same event false / of different events true
        if c.inter_args is not None:
            ok = c.inter_args == ['se1.point', 'other1.point', 'se2.point', 'other2.point']
            if ('inter-args', ok) not in seen:
                seen[('inter-args', ok)] = 1
                rep.ob(rule, 'intersection-arguments', ok,
                       'intersection() must be given (se1.point, other1.point, se2.point, other2.point), is given %s' % c.inter_args,
                       loc=b.loc(b.j['line_lo']), reason='provenance')
        # the path fixes some atoms; the outcome must be right for every value of the atoms it did not test (an untested
        # atom that the expected outcome depends on is a missing case distinction)
        free = [a for a in ORACLE_ATOMS if a not in at]
        if at.get('inter_kind') == 1:
            free = [a for a in free if a in ('eq(se1.point,se2.point)', 'eq(other1.point,other2.point)')]
        elif at.get('inter_kind') == 2:
            # the overlap arm also depends on which left / right end comes first and, for coinciding left ends, on whether the
            # two edges have the same in/out flag: a path that did not test one of these where the outcome depends on it merges
            # two cases (the oracle ignores the atoms where they do not matter)
            pass
        else:
            free = []
        import itertools
        for combo in itertools.product((False, True), repeat=len(free)):
            at2 = dict(at)
            at2.update(dict(zip(free, combo)))
            exp = oracle(at2)
            if exp is None:
                continue
            inst = case_key(at2)
            found = (c.ret, [(d[0], d[1]) for d in c.divs], c.types)
            ok = (found[0] == exp[0] and found[1] == exp[1] and found[2] == exp[2])
            if inst in seen and ok:
                continue
            seen[inst] = 1
            n += 1
            rep.ob(rule, inst, ok,
                   'possible_intersection returns %s, divides %s, types %s; expected return %s, divisions %s, types %s'
                   % (found[0], found[1], found[2], exp[0], exp[1], exp[2]),
                   loc=b.loc(c.divs[0][2]) if c.divs else b.loc(b.j['line_lo']), reason='table-row',
                   expected={'ret': exp[0], 'divisions': exp[1], 'types': exp[2]},
                   found={'ret': found[0], 'divisions': found[1], 'types': found[2]})
            if not ok:
                rep.violations[-1]['path'] = ['%s:%s' % (b.file, l) for l in c.path.branch_lines()][:14]
    rep.rows_compared += n
    rep.floor(rule, 'distinct cases', n, 24)
    # reader agreement: 2 is returned exactly on the paths that type the twins
    for c in cases:
        if c.kind == 'return':
            ok = (c.ret == 2) == bool(c.types)
            if not ok:
                rep.ob(rule, 'code2-iff-typed:%s' % case_key(c.atoms), False,
                       'return code %s but edge types %s set: subdivide recomputes fields exactly when the code is 2'
                       % (c.ret, c.types), loc=b.loc(b.j['line_lo']), reason='table-row')
    rep.ob(rule, 'code2-iff-typed', True)
    rep.sample({'table': 'T-code', 'cases': n, 'example': [case_key(c.atoms) for c in cases if c.kind == 'return'][-3:]})
    return b, cases


def case_key(at):
    keys = []
    for k in sorted(at):
        if k.startswith('_'):
            continue
        v = at[k]
        if isinstance(v, bool):
            v = int(v)
        keys.append('%s=%s' % (k, v))
    return ','.join(keys)


def check_endpoint_guards(ctx, rep, rule='G-endpoint'):
    """Point arm: return 0 when left or right endpoints coincide; each division of se_k at `inter` is guarded by
    se_k.point != inter && other_k.point != inter for the same k and the same inter"""
    r = analyse(ctx, rep, rule)
    if r is None:
        return
    b, cases = r
    n = 0
    for c in cases:
        if c.kind != 'return' or c.atoms.get('inter_kind') != 1:
            continue
        at = c.atoms
        for (who, pt, line) in c.divs:
            n += 1
            k = who[-1]
            guarded = at.get('eq(se%s.point,inter)' % k) is False and at.get('eq(other%s.point,inter)' % k) is False
            rep.ob(rule, 'divide(%s)@%s' % (who, case_key({x: y for x, y in at.items() if 'inter' in x and x != 'inter_kind'})),
                   guarded and pt == 'inter' and who in ('se1', 'se2'),
                   'divide_segment(%s, %s) is reached without both se%s.point != inter and other%s.point != inter '
                   '(a division at an endpoint creates a zero-length sub-segment)' % (who, pt, k, k),
                   loc=b.loc(line), reason='dominance')
        if at.get('eq(se1.point,se2.point)') or at.get('eq(other1.point,other2.point)'):
            rep.ob(rule, 'shared-endpoint-returns-0:%s' % case_key({x: y for x, y in at.items() if x.startswith('eq(')}),
                   c.ret == 0 and not c.divs,
                   'segments meeting at a common endpoint must be left untouched, but code %s / divisions %s' % (c.ret, c.divs),
                   loc=b.loc(b.j['line_lo']), reason='dominance')
    rep.floor(rule, 'guarded division sites (paths)', n, 4)
