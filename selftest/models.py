#!/usr/bin/env python3
"""selftest/models.py : the evaluator's models of std combinators, checked against functions with a known truth table
(fixtures/positive/src/lib.rs, mod models).  For every function the set of (assumptions, result) of its explored paths must be
the expected one."""
import os, sys
V = os.path.dirname(os.path.dirname(os.path.abspath(__file__)))
sys.path.insert(0, os.path.join(V, 'sa'))
import engine, sym
from sym import show, noepoch, strip_upd
from models import Purity


def rows(fx, name):
    b = fx.body(name)
    if b is None:
        return None
    ps = sym.Explorer(fx, b, Purity(fx)).explore()
    out = set()
    for p in ps:
        conds = tuple(sorted('%s=%s' % (show(noepoch(v)), c[1] if c[0] == 'eq' else 'not%s' % (c[1],)) for (v, c) in p.conds))
        r = sym.simplify(sym.subst(p.ret, p.conds)) if p.ret is not None else None
        out.add((p.end, conds, show(noepoch(r)) if r is not None else None))
    return out


EXPECT = {
    'models::zip_both': {('return', ('discr(a)=0',), '0'), ('return', ('discr(a)=1', 'discr(b)=0'), '0'), ('return', ('discr(a)=1', 'discr(b)=1'), '1')},
    'models::filter_pos': {('return', ('discr(a)=0',), '0'), ('return', ('discr(a)=1', 'gt((a as Some).0, 0)=False'), '0'),
                           ('return', ('discr(a)=1', 'gt((a as Some).0, 0)=True'), '1')},
    'models::or_else_chain': {('return', ('discr(a)=1',), '1'), ('return', ('discr(a)=0', 'discr(b)=1'), '1'), ('return', ('discr(a)=0', 'discr(b)=0'), '0')},
    'models::then_some_flag': {('return', ('c=True',), '7'), ('return', ('c=False',), '3')},
    'models::try_op': {('return', ('discr(a)=0',), 'Option::None{}'), ('return', ('discr(a)=1',), 'Option::Some{(a as Some).0}')},
    'models::three_way': {('return', ('lt(a, b)=True',), '-1'), ('return', ('gt(a, b)=True', 'lt(a, b)=False'), '1'),
                          ('return', ('gt(a, b)=False', 'lt(a, b)=False'), '0')},
    'models::is_some_and_pos': {('return', ('discr(a)=0',), 'False'), ('return', ('discr(a)=1',), 'gt((a as Some).0, 0)')},
}


def main():
    ctx = engine.Ctx('/repo')
    fx = ctx.fixture()
    bad = 0
    for name, exp in EXPECT.items():
        got = rows(fx, name)
        ok = got == exp
        print('%-4s %s' % ('OK' if ok else 'BAD', name))
        if not ok:
            bad += 1
            for r in sorted(map(str, (got or set()) ^ exp)):
                print('     differs:', r)
    # ord_then: (a cmp b).then_with(c cmp d).is_gt()  ==  a > b or (a == b and c > d)
    got = rows(fx, 'models::ord_then')
    truth = {}
    for (end, conds, r) in got or ():
        d = dict(c.rsplit('=', 1) for c in conds)
        lt_ab, gt_ab = d.get('lt(a, b)'), d.get('gt(a, b)')
        if lt_ab == 'True':
            exp = 'False'
        elif gt_ab == 'True':
            exp = 'True'
        else:
            exp = 'True' if d.get('gt(c, d)') == 'True' else 'False'
        truth[conds] = (r, exp)
    ok = bool(truth) and all(r == e for r, e in truth.values()) and len(truth) == 5
    print('%-4s %s (%d paths)' % ('OK' if ok else 'BAD', 'models::ord_then', len(truth)))
    bad += not ok
    # array_map: x - y with x = a+1, y = b+1
    got = rows(fx, 'models::array_map')
    ok = got is not None and any('add' in (r or '').lower() or 'Add' in (r or '') for (_, _, r) in got) and len(got) <= 2
    print('%-4s %s %s' % ('OK' if ok else 'BAD', 'models::array_map', sorted(got or [])[:1]))
    bad += not ok
    # filter_loop: the else branch inside the loop is unreachable (the filter guarantees x > 0)
    got = rows(fx, 'models::filter_loop')
    neg = [g for g in got or () if any('gt(' in c and c.endswith('=False') for c in g[1]) and g[0] == 'backedge']
    ok = got is not None and not neg and any(g[0] == 'backedge' for g in got)
    print('%-4s %s (%d paths, %d with a refuted filter assumption)' % ('OK' if ok else 'BAD', 'models::filter_loop', len(got or ()), len(neg)))
    bad += not ok
    # chain_loop: the tag of an item is known on every path through the loop body (true for the once-value, false for mapped ones)
    b_ = fx.body('models::chain_loop')
    ps_ = sym.Explorer(fx, b_, Purity(fx)).explore() if b_ is not None else []
    body = [p for p in ps_ if p.end == 'backedge']
    kinds = sorted(e['kind'] for p in body for e in p.events if e['k'] == 'item')
    unknown = [p for p in body if any('.1' in show(noepoch(v)) for (v, c) in p.conds)]
    ok = len(body) == 2 and kinds == ['map', 'val'] and not unknown
    print('%-4s %s (%d loop-body paths, item kinds %s, %d branching on an unknown tag)' % ('OK' if ok else 'BAD', 'models::chain_loop', len(body), kinds, len(unknown)))
    bad += not ok
    # pairs_loop: zip(iter, skip(1)) yields one symbolic segment per iteration; its two ends are compared with each other
    b_ = fx.body('models::pairs_loop')
    ps_ = sym.Explorer(fx, b_, Purity(fx)).explore() if b_ is not None else []
    body = [p for p in ps_ if p.end == 'backedge']
    cmp_ = [show(noepoch(v)) for p in body for (v, c) in p.conds if '.start' in show(noepoch(v)) and '.end' in show(noepoch(v))]
    ok = len(body) == 2 and len(cmp_) == 2
    print('%-4s %s (%d loop-body paths, %d compare start with end of the same segment)' % ('OK' if ok else 'BAD', 'models::pairs_loop', len(body), len(cmp_)))
    bad += not ok
    # array_loop: `for (x, w) in [(a, 1), (b, 10)]` is run element by element
    got = rows(fx, 'models::array_loop')
    rets = sorted(r for (e, c, r) in got or () if e == 'return')
    ok = got is not None and len(got) == 4 and all(e == 'return' for (e, c, r) in got) and \
        sorted(tuple(sorted(c)) for (e, c, r) in got) == sorted([('gt(a, 0)=False', 'gt(b, 0)=False'), ('gt(a, 0)=False', 'gt(b, 0)=True'),
                                                                  ('gt(a, 0)=True', 'gt(b, 0)=False'), ('gt(a, 0)=True', 'gt(b, 0)=True')])
    print('%-4s %s %s' % ('OK' if ok else 'BAD', 'models::array_loop', rets))
    bad += not ok
    print('%d model controls not OK' % bad)
    sys.exit(1 if bad else 0)


if __name__ == '__main__':
    main()
