#!/usr/bin/env python3
"""selftest/diff2edit.py <patch.diff>: print the (file, old, new) edit list of a unified diff, one edit per hunk, for catalogue.py"""
import re, sys


def edits(diff):
    out, path, old, new = [], None, None, None
    for l in diff.split('\n'):
        if l.startswith('+++ b/'):
            path = l[6:]
        elif l.startswith('--- ') or l.startswith('diff ') or l.startswith('index '):
            continue
        elif l.startswith('@@'):
            if old is not None:
                out.append((cur, '\n'.join(old) + '\n', '\n'.join(new) + '\n'))
            old, new, cur = [], [], path
        elif old is not None:
            if l.startswith('-'):
                old.append(l[1:])
            elif l.startswith('+'):
                new.append(l[1:])
            elif l.startswith(' ') or l == '':
                if l == '' and not (old or new):
                    continue
                old.append(l[1:])
                new.append(l[1:])
    if old is not None:
        while old and new and old[-1] == '' and new[-1] == '':
            old.pop(); new.pop()
        out.append((cur, '\n'.join(old) + '\n', '\n'.join(new) + '\n'))
    return out


if __name__ == '__main__':
    print(repr(edits(open(sys.argv[1]).read())))
