#!/usr/bin/env python3
"""selftest/sweep.py: systematic micro-mutation sweep (validation of the checker, not a check of the properties).

Generates small syntactic slips in the library source (comparison operators, && / ||, negations, constants, swapped
arguments, deleted statements, min/max, + / -, continue/break), keeps those that still compile and pass the 45 tests,
and runs all checks on each survivor.  A survivor no check flags is either an equivalent mutant (behaviour unchanged)
or a gap in the rules: the list is triaged by hand in selftest/sweep_triage.json and summarised in DESIGN.md.

Phases (each resumable, results under selftest/sweep/):
  gen              -> mutants.json
  test  [-j N]     -> tested.json     (build + cargo test in scratch worktrees under /tmp/sweep)
  check [-j N]     -> checked.json    (all checks, quick tier, on every survivor)
  report           -> prints survivors no check flagged, grouped by file/function
  check-killed     -> checked_killed.json (the checks on the mutants the tests kill: certainly behaviour-changing)
  triage           -> selftest/sweep_triage.json: every mutant no check flags with its category (equivalent, dead data, ...)
  one <id> [ids]   -> run the checks on one mutant and print the reports
"""
import concurrent.futures as cf
import json
import os
import re
import shutil
import subprocess
import sys
import tempfile
import threading
import time

V = os.path.dirname(os.path.dirname(os.path.abspath(__file__)))
OUT = os.path.join(V, 'selftest', 'sweep')
REPO = '/repo'
ALL = ['C01', 'C02', 'C03', 'C04', 'C05', 'C06', 'C07', 'C08', 'C09', 'C10', 'C12', 'C13', 'C14', 'C15', 'C16', 'C17', 'C18']
FILES = ['lib/src/boolean/%s.rs' % n for n in
         ('compare_segments', 'compute_fields', 'connect_edges', 'divide_segment', 'fill_queue', 'helper', 'mod',
          'possible_intersection', 'segment_intersection', 'signed_area', 'subdivide_segments', 'sweep_event')] + \
        ['lib/src/splay/%s.rs' % n for n in ('mod', 'node', 'set', 'tree')]


def code_lines(text):
    """(index, line) of lines that are library code: not comments, not inside #[cfg(test)] modules or debug-feature blocks"""
    lines = text.split('\n')
    out = []
    skip_depth = None
    depth = 0
    pending_skip = False
    for i, l in enumerate(lines):
        s = l.strip()
        if re.match(r'#\[cfg\((test|feature = "debug-booleanop")\)\]', s):
            pending_skip = True
            continue
        opens, closes = l.count('{'), l.count('}')
        if pending_skip and skip_depth is None:
            if opens > closes:
                skip_depth = depth
                depth += opens - closes
                pending_skip = False
                continue
            if s.endswith(';') or s.endswith(','):
                pending_skip = False
                continue
            if s.startswith('#[') or not s:
                continue
            # a single item without braces on this line (fn signature continues): keep skipping until the brace opens
            continue
        if skip_depth is not None:
            depth += opens - closes
            if depth <= skip_depth:
                skip_depth = None
            continue
        depth += opens - closes
        if s.startswith('//') or not s or s.startswith('#[') or s.startswith('use ') or s.startswith('pub use '):
            continue
        if 'debug_assert' in s or 'println!' in s or 'assert!' in s or 'assert_eq!' in s:
            continue
        out.append(i)
    return lines, out


def split_args(s):
    """split 'a, f(b, c), d' at top-level commas"""
    parts, depth, cur = [], 0, ''
    for ch in s:
        if ch in '([{<' and not (ch == '<'):
            depth += 1
        elif ch in ')]}':
            depth -= 1
        if ch == ',' and depth == 0:
            parts.append(cur)
            cur = ''
        else:
            cur += ch
    parts.append(cur)
    return parts


REPL = [
    (r' < ', [' <= ', ' > ']), (r' > ', [' >= ', ' < ']), (r' <= ', [' < ']), (r' >= ', [' > ']),
    (r' == ', [' != ']), (r' != ', [' == ']),
    (r' && ', [' || ']), (r' \|\| ', [' && ']),
    (r'\btrue\b', ['false']), (r'\bfalse\b', ['true']),
    (r' \+ ', [' - ']), (r' - ', [' + ']), (r' \* ', [' + ']),
    (r'\.min\(', ['.max(']), (r'\.max\(', ['.min(']),
    (r'\bcontinue;', ['break;']), (r'\bbreak;', ['continue;']),
    (r'Ordering::Less\b', ['Ordering::Greater']), (r'Ordering::Greater\b', ['Ordering::Less']),
    (r'\bis_left\(\)', ['is_right()']), (r'\.is_some\(\)', ['.is_none()']), (r'\.is_none\(\)', ['.is_some()']),
    (r'F::zero\(\)', ['F::one()']), (r'F::one\(\)', ['F::zero()']),
    (r'\b0\b', ['1']), (r'\b1\b', ['0', '2']),
    (r'\.left\b', ['.right']), (r'\.right\b', ['.left']),
    (r'\.x\b', ['.y']), (r'\.y\b', ['.x']),
    (r'\.start\b', ['.end']), (r'\.end\b', ['.start']),
    (r'\.min\b(?!\()', ['.max']), (r'\.max\b(?!\()', ['.min']),
    (r'\bsubject\b', ['clipping']), (r'\bclipping\b', ['subject']),
    (r'\bsbbox\b', ['cbbox']), (r'\bcbbox\b', ['sbbox']),
    (r'\ba1\b', ['a2']), (r'\bb1\b', ['b2']),
    (r'\bse1\b', ['se2']), (r'\bse2\b', ['se1']),
    (r'\bse_old_l\b', ['se_new_l']),
    (r'EdgeType::SameTransition', ['EdgeType::DifferentTransition']), (r'EdgeType::DifferentTransition', ['EdgeType::SameTransition']),
    (r'EdgeType::NonContributing', ['EdgeType::Normal']),
    (r'ResultTransition::OutIn', ['ResultTransition::InOut']), (r'ResultTransition::InOut', ['ResultTransition::OutIn']),
]


def gen():
    muts = []

    def add(path, i, old, new, op):
        if old != new:
            muts.append({'id': 'm%04d' % len(muts), 'file': path, 'line': i + 1, 'old': old, 'new': new, 'op': op})

    for path in FILES:
        text = open(os.path.join(REPO, path)).read()
        lines, idx = code_lines(text)
        for i in idx:
            l = lines[i]
            code = l.split(' // ')[0]
            # token replacements, one occurrence at a time
            for pat, reps in REPL:
                for m in re.finditer(pat, code):
                    for r in reps:
                        add(path, i, l, l[:m.start()] + r + l[m.end():], 'repl:%s' % pat)
            # negation removal / insertion
            for m in re.finditer(r'!(?=[\w(])(?!=)', code):
                if m.start() > 0 and code[m.start() - 1].isalnum():
                    continue        # macro!
                add(path, i, l, l[:m.start()] + l[m.end():], 'drop-not')
            m = re.match(r'^(\s*(?:\} else )?if )(?!let )(.*)( \{\s*)$', l)
            if m:
                add(path, i, l, '%s!(%s)%s' % m.groups(), 'negate-if')
            m = re.match(r'^(\s*while )(?!let )(.*)( \{\s*)$', l)
            if m:
                add(path, i, l, '%s!(%s)%s' % m.groups(), 'negate-while')
            # swapped adjacent arguments of single-line calls
            for m in re.finditer(r'(\w+)\(([^()]*(?:\([^()]*\)[^()]*)*)\)', code):
                args = split_args(m.group(2))
                if len(args) < 2 or m.group(1) in ('fn', 'if', 'match', 'Some', 'Ok'):
                    continue
                for k in range(len(args) - 1):
                    a = list(args)
                    x, y = a[k].strip(), a[k + 1].strip()
                    if not x or not y or x == y:
                        continue
                    a[k] = a[k].replace(x, y)
                    a[k + 1] = a[k + 1].replace(y, x)
                    add(path, i, l, l[:m.start(2)] + ','.join(a) + l[m.end(2):], 'swap-args')
            # deleted statement (single-line call statements and assignments)
            s = l.strip()
            if re.match(r'^[\w.&*\[\]]+(\.[\w]+)*\(.*\);$', s) or re.match(r'^[\w.*\[\]]+ [-+]?= .*;$', s):
                if not s.startswith('let ') and not s.startswith('return'):
                    add(path, i, l, re.match(r'^\s*', l).group(0) + '// ' + s, 'delete-stmt')
            if re.match(r'^return\b.*;$', s) is None and re.match(r'^(continue|break);$', s):
                add(path, i, l, re.match(r'^\s*', l).group(0) + '// ' + s, 'delete-jump')
    n1 = len(muts)
    # ---- second generation: sibling methods, dropped conjuncts / disjuncts, inclusive ranges, Some -> None
    SIB = [('is_in_out()', 'is_other_in_out()'), ('is_other_in_out()', 'is_in_out()'), ('.next(', '.prev('), ('.prev(', '.next('),
           ('.first()', '.last()'), ('.last()', '.first()'), ('.0', '.1'), ('.1', '.0'), ('is_in_result()', 'is_left()'),
           ('.exterior()', '.interiors().next().unwrap()'), ('get_prev_in_result()', 'get_other_event()'),
           ('.is_empty()', '.len() == 1'), ('.unwrap_or(false)', '.unwrap_or(true)'), ('.pop()', '.peek().cloned()'),
           ('Operation::Intersection', 'Operation::Union'), ('Operation::Union', 'Operation::Xor'), ('Operation::Difference', 'Operation::Xor'),
           ('Operation::Xor', 'Operation::Difference'), ('.push(', '.insert(0, '), ('is_subject', 'is_exterior_ring'),
           ('.insert(', '.remove(&'), ('.contains(', '.insert('), ('i32', 'i64'), ('.min()', '.max()'), ('.max()', '.min()'),
           ('other1', 'other2'), ('other2', 'other1'), ('prev', 'next'), ('next', 'prev'), ('.len()', '.len() - 1'), ('pos', 'origin_pos')]
    for path in FILES:
        text = open(os.path.join(REPO, path)).read()
        lines, idx = code_lines(text)
        for i in idx:
            l = lines[i]
            code = l.split(' // ')[0]
            for a_, b_ in SIB:
                start = 0
                while True:
                    k = code.find(a_, start)
                    if k < 0:
                        break
                    start = k + 1
                    if a_[0].isalnum() and k > 0 and (code[k - 1].isalnum() or code[k - 1] == '_'):
                        continue
                    if a_[-1].isalnum() and k + len(a_) < len(code) and (code[k + len(a_)].isalnum() or code[k + len(a_)] == '_'):
                        continue
                    add(path, i, l, l[:k] + b_ + l[k + len(a_):], 'sibling:%s' % a_)
            # drop one side of && / ||
            for m in re.finditer(r' (&&|\|\|) ', code):
                mm = re.match(r'^(\s*(?:\} else )?(?:if|while) )(.*)( \{\s*)$', l)
                if mm and mm.start(2) <= m.start() < mm.end(2) and ' && ' not in mm.group(2).replace(m.group(0), '', 1) and ' || ' not in mm.group(2).replace(m.group(0), '', 1):
                    left, right = l[mm.start(2):m.start()], l[m.end():mm.end(2)]
                    add(path, i, l, mm.group(1) + left + mm.group(3), 'drop-right-operand')
                    add(path, i, l, mm.group(1) + right + mm.group(3), 'drop-left-operand')
            for m in re.finditer(r'(?<![.=])\.\.(?![.=])', code):
                if re.search(r'\bfor\b|\[', code):
                    add(path, i, l, l[:m.start()] + '..=' + l[m.end():], 'inclusive-range')
            for m in re.finditer(r'\bSome\((?![a-z_]+\) =)', code):
                # Some(expr) as a value (not a pattern): close the matching parenthesis
                depth, j = 0, m.end() - 1
                while j < len(code):
                    depth += code[j] == '('
                    depth -= code[j] == ')'
                    if depth == 0:
                        break
                    j += 1
                if depth == 0 and ' = ' not in code[j:j + 4] and '=>' not in code[j:]:
                    add(path, i, l, l[:m.start()] + 'None' + l[j + 1:], 'some-to-none')
    n2 = len(muts)
    # ---- third generation: conditions replaced by constants (an if-block removed / made unconditional), match arms swapped
    for path in FILES:
        text = open(os.path.join(REPO, path)).read()
        lines, idx = code_lines(text)
        for i in idx:
            l = lines[i]
            m = re.match(r'^(\s*(?:\} else )?if )(?!let )(.*)( \{\s*)$', l)
            if m and m.group(2) not in ('true', 'false'):
                add(path, i, l, m.group(1) + 'true' + m.group(3), 'cond-true')
                add(path, i, l, m.group(1) + 'false' + m.group(3), 'cond-false')
            m = re.match(r'^(\s*while )(?!let )(.*)( \{\s*)$', l)
            if m:
                add(path, i, l, m.group(1) + 'false' + m.group(3), 'cond-false')
            # `A => x,` followed by `B => y,`: results swapped
            m1 = re.match(r'^(\s*)([^=]+?) => ([^{}]+),\s*$', l)
            if m1 and i + 1 < len(lines):
                m2 = re.match(r'^(\s*)([^=]+?) => ([^{}]+),\s*$', lines[i + 1])
                if m2 and m1.group(3).strip() != m2.group(3).strip() and '//' not in l:
                    add(path, i, l, '%s%s => %s,' % (m1.group(1), m1.group(2), m2.group(3).split(' //')[0].strip()), 'arm-result-of-next')
    os.makedirs(OUT, exist_ok=True)
    json.dump(muts, open(os.path.join(OUT, 'mutants.json'), 'w'), indent=0)
    print('%d mutants (%d first generation, %d second)' % (len(muts), n1, n2 - n1))


_tls = threading.local()
_wt_lock = threading.Lock()
_wts = []


def worktree():
    if getattr(_tls, 'w', None) is None:
        with _wt_lock:
            k = len(_wts)
            w = '/tmp/sweep/w%d' % k
            _wts.append(w)
        if not os.path.isdir(w):
            os.makedirs('/tmp/sweep', exist_ok=True)
            subprocess.run(['git', '-C', REPO, 'worktree', 'add', '--detach', '-q', w, 'HEAD'], check=True)
        subprocess.run(['git', 'checkout', '-q', '.'], cwd=w)
        _tls.w = w
    return _tls.w


def apply(w, m):
    fp = os.path.join(w, m['file'])
    lines = open(fp).read().split('\n')
    assert lines[m['line'] - 1] == m['old'], (m, lines[m['line'] - 1])
    lines[m['line'] - 1] = m['new']
    open(fp, 'w').write('\n'.join(lines))


def test_one(m):
    w = worktree()
    subprocess.run(['git', 'checkout', '-q', '.'], cwd=w)
    apply(w, m)
    env = dict(os.environ, CARGO_NET_OFFLINE='true')
    import signal
    pr = subprocess.Popen(['cargo', 'test', '--workspace', '--offline', '--no-fail-fast', '--', '--test-threads', '2'], cwd=w, env=env,
                          stdout=subprocess.PIPE, stderr=subprocess.STDOUT, text=True, start_new_session=True)
    try:
        out, _ = pr.communicate(timeout=100)
    except subprocess.TimeoutExpired:
        os.killpg(pr.pid, signal.SIGKILL)      # the test binary is a grandchild that keeps the pipe open
        pr.communicate()
        return m['id'], 'timeout'
    finally:
        subprocess.run(['git', 'checkout', '-q', '.'], cwd=w)

    class r:
        stdout = out
        returncode = pr.returncode
    if 'error: could not compile' in r.stdout or 'error[' in r.stdout:
        return m['id'], 'build-fail'
    passed = sum(int(x) for x in re.findall(r'test result: \w+\. (\d+) passed', r.stdout))
    failed = sum(int(x) for x in re.findall(r'test result: \w+\. \d+ passed; (\d+) failed', r.stdout))
    if r.returncode == 0 and failed == 0 and passed >= 45:
        return m['id'], 'survived'
    return m['id'], 'killed'


def load(name, default):
    p = os.path.join(OUT, name)
    return json.load(open(p)) if os.path.exists(p) else default


def phase_test(jobs):
    muts = load('mutants.json', [])
    done = load('tested.json', {})
    todo = [m for m in muts if m['id'] not in done]
    n = 0
    with cf.ThreadPoolExecutor(jobs) as ex:
        for mid, st in ex.map(test_one, todo):
            done[mid] = st
            n += 1
            if n % 20 == 0:
                json.dump(done, open(os.path.join(OUT, 'tested.json'), 'w'), indent=0)
                print(n, len(todo), flush=True)
    json.dump(done, open(os.path.join(OUT, 'tested.json'), 'w'), indent=0)
    for w in _wts:
        subprocess.run(['git', '-C', REPO, 'worktree', 'remove', '--force', w])
    shutil.rmtree('/tmp/sweep', ignore_errors=True)
    subprocess.run(['git', '-C', REPO, 'worktree', 'prune'])
    from collections import Counter
    print(Counter(done.values()))


def check_one(m):
    d = tempfile.mkdtemp(prefix='sweepck-', dir='/tmp')
    w = d + '/r'
    try:
        for attempt in range(5):
            r0 = subprocess.run(['git', '-C', REPO, 'worktree', 'add', '--detach', '-q', w, 'HEAD'], stderr=subprocess.DEVNULL)
            if r0.returncode == 0:
                break
            time.sleep(1 + attempt)
        else:
            raise RuntimeError('git worktree add failed')
        apply(w, m)
        env = dict(os.environ, VERIF_REPO=w, VERIF_EVIDENCE_DIR=d + '/ev', VERIF_REPORT_DIR=d + '/rep')
        det = {}
        for c in ALL:
            r = subprocess.run([os.path.join(V, 'check'), c], env=env, stdout=subprocess.PIPE, stderr=subprocess.STDOUT, text=True)
            if r.returncode == 1:
                det[c] = sorted(set(l.split('rule=')[1].split()[0] for l in r.stdout.splitlines() if l.strip().startswith('rule=')))
            elif r.returncode != 0:
                det[c] = ['ERROR']
        return m['id'], det
    finally:
        subprocess.run(['git', '-C', REPO, 'worktree', 'remove', '--force', w], stdout=subprocess.DEVNULL, stderr=subprocess.DEVNULL)
        shutil.rmtree(d, ignore_errors=True)


def phase_check(jobs, redo_silent=False, status='survived', out='checked.json'):
    muts = load('mutants.json', [])
    tested = load('tested.json', {})
    done = load(out, {})
    todo = [m for m in muts if tested.get(m['id']) in status.split(',') and (m['id'] not in done or (redo_silent and not done[m['id']]))]
    n = 0
    with cf.ThreadPoolExecutor(jobs) as ex:
        for mid, det in ex.map(check_one, todo):
            done[mid] = det
            n += 1
            if n % 10 == 0:
                json.dump(done, open(os.path.join(OUT, out), 'w'), indent=0)
                print(n, len(todo), flush=True)
    json.dump(done, open(os.path.join(OUT, out), 'w'), indent=0)
    print('%d mutants checked, %d flagged by no check' % (len(done), sum(1 for v in done.values() if not v)))


def fn_of(path, line):
    lines = open(os.path.join(REPO, path)).read().split('\n')
    for i in range(line - 1, -1, -1):
        m = re.match(r'^\s*(?:pub(?:\([a-z]+\))? )?fn (\w+)', lines[i])
        if m:
            return m.group(1)
    return '?'


def categorise(m):
    """(category, reason) for a mutant no check flags; '?' = not triaged (a gap until shown otherwise)"""
    f = m['file'].split('/')[-1]
    fn = fn_of(m['file'], m['line'])
    old, new, op = m['old'].strip(), m['new'].strip(), m['op']
    if fn in ('write_debug_csv', 'to_json_debug_short'):
        return 'debug-output', 'only the debug dump changes'
    if fn in ('width', 'height'):
        return 'unused-api', 'BoundingBox::width/height are not used by the operations'
    if fn == 'eq' and f == 'sweep_event.rs':
        return 'unused-api', 'PartialEq of SweepEvent is not used by the library (heap, tree and sorts use Ord / the comparator)'
    if fn == 'is_above':
        return 'unused-api', 'is_above is not used by the library'
    if m['id'] in ('m0002', 'm0003'):
        return 'debug-assert-content', 'inside the argument list of a debug_assert!'
    if op == 'swap-args' and re.search(r'ptr_eq|mem::swap|dot_product|\.swap\(|is_identical|get_intersection_bounding_box', old):
        return 'symmetric-args', 'the callee is symmetric in these two arguments (for the bounding box and the vertex predicate the checks establish that)'
    if op == 'swap-args' and 'cross_product(e, va)' in old:
        return 'symmetric-args', 'the sign of kross flips, only its square is used'
    if op == 'swap-args' and 'signed_area' in old and '!= 0.' in old:
        return 'symmetric-args', 'only `!= 0` of the orientation is used here'
    if 'depth' in old or (fn == 'initialize_from_context' and op.startswith('repl')):
        return 'dead-data', 'Contour::depth is written but never read; the other changed branch is the defensive one'
    if f == 'divide_segment.rs' and new == 'false,':
        return 'dead-data', 'is_exterior_ring is only read by the debug dump'
    if 'contour_id +=' in old or (fn == 'fill_queue' and 'if exterior {' in old):
        return 'dead-data', 'contour ids only break ties between collinear same-operand edges with one left end point, which valid input does not contain (documented residue of C15)'
    if fn == 'new_rc':
        return 'dead-data', 'the initial value is overwritten before it is read (compute_fields / order_events / mark_as_processed); -2 is as negative as -1'
    if fn == 'possible_intersection' and 'events.push' in old:
        return 'dead-data', 'this component of the pair is never read (only .0 of these entries and .1 of the second right entry are)'
    if fn == 'possible_intersection' and 'left_coincide && !right_coincide' in old:
        return 'equivalent', 'the test is inside `if left_coincide`'
    if fn == 'precompute_iteration_order' and 'vec![' in old:
        return 'equivalent', 'every entry of the map is overwritten (T-vertex-cycle)'
    if fn == 'process_polygon' and 'bbox.' in old and 'line.start' in old:
        return 'equivalent', 'a ring is closed: every vertex is the end of one edge and the start of the next'
    if re.search(r' <= | >= ', new) and re.search(r' < | > ', old):
        return 'equivalent-by-precondition', 'the two sides are never equal here, or equality gives the same value (distinct events never compare Equal; the same-point / collinear case is handled before)'
    if fn == 'subdivide' and 'sweep_line.contains(&other_event)' in old and new.endswith('if true {'):
        return 'equivalent-by-precondition', 'the left event of a right event being processed is in the sweep line (the debug assertion next to it says so); the test is defensive'
    if fn in ('next', 'prev') and 'splay(' in old:
        return 'performance-only', 'the descent from the root finds the neighbour with or without the splay; only the amortised cost changes'
    if fn == 'size_hint':
        return 'weaker-hint', '(n, None) is a valid size hint'
    if 'less_if(true)' in old and f == 'compare_segments.rs':
        return 'equivalent-by-precondition', 'the branch for events without other event is defensive (debug_assert above it)'
    if 'smin.max' in old or 'smax.min' in old or 'Overlap(' in old:
        return 'unused-api', 'the payload of LineIntersection::Overlap is not read by the library (possible_intersection uses the end points of the events)'
    if 'nextafter' in old and new.startswith('//'):
        return 'not-decided', 'removing the one-ulp bump removes finding N2 and leaves corner case 1 unhandled; whether it is handled elsewhere is not decided statically'
    return '?', ''


def triage():
    muts = {m['id']: m for m in load('mutants.json', [])}
    tri = {}
    for name, tests in (('checked.json', 'survived'), ('checked_killed.json', 'killed')):
        for k, v in load(name, {}).items():
            if not v:
                c, why = categorise(muts[k])
                tri[k] = {'category': c, 'why': why, 'file': muts[k]['file'], 'function': fn_of(muts[k]['file'], muts[k]['line']),
                          'old': muts[k]['old'].strip(), 'new': muts[k]['new'].strip(), 'tests': tests}
    json.dump(tri, open(os.path.join(V, 'selftest', 'sweep_triage.json'), 'w'), indent=1, sort_keys=True)
    from collections import Counter
    print(Counter((v['tests'], v['category']) for v in tri.values()))
    for k, v in sorted(tri.items()):
        if v['category'] in ('?', 'not-decided'):
            print(k, v['tests'], v['category'], v['file'], v['function'], '|', v['old'][:70], '=>', v['new'][:70])
    tested = load('tested.json', {})
    print(Counter(tested.values()))


def report():
    muts = {m['id']: m for m in load('mutants.json', [])}
    checked = load('checked.json', {})
    triage = load('../sweep_triage.json', {})
    silent = [muts[k] for k, v in checked.items() if not v]
    silent.sort(key=lambda m: (m['file'], m['line']))
    for m in silent:
        key = '%s:%s:%s' % (m['file'].split('/')[-1], fn_of(m['file'], m['line']), m['new'].strip())
        t = triage.get(key)
        print('%s %s:%d %s [%s]\n    - %s\n    + %s%s' % (m['id'], m['file'], m['line'], fn_of(m['file'], m['line']), m['op'],
                                                         m['old'].strip(), m['new'].strip(), '\n    triage: %s' % t if t else ''))
    print('%d survivors flagged by no check (of %d survivors, %d mutants)' % (len(silent), len(checked), len(muts)))


if __name__ == '__main__':
    a = sys.argv[1:]
    jobs = int(a[a.index('-j') + 1]) if '-j' in a else 8
    if a[0] == 'gen':
        gen()
    elif a[0] == 'test':
        phase_test(jobs)
    elif a[0] == 'check':
        phase_check(jobs, '--redo-silent' in a)
    elif a[0] == 'check-killed':
        # the mutants the tests kill (or that hang): certainly behaviour-changing, how many do the checks flag?
        phase_check(jobs, '--redo-silent' in a, status='killed,timeout', out='checked_killed.json')
    elif a[0] == 'report':
        report()
    elif a[0] == 'triage':
        triage()
    elif a[0] == 'one':
        # sweep.py one <mutant-id> [check ids]: run the checks on one mutant and print their reports
        muts = {m['id']: m for m in load('mutants.json', [])}
        m = muts[a[1]]
        d = tempfile.mkdtemp(prefix='sweepone-', dir='/tmp')
        w = d + '/r'
        try:
            subprocess.run(['git', '-C', REPO, 'worktree', 'add', '--detach', '-q', w, 'HEAD'], check=True)
            apply(w, m)
            env = dict(os.environ, VERIF_REPO=w, VERIF_EVIDENCE_DIR=d + '/ev', VERIF_REPORT_DIR=d + '/rep')
            print(m['file'], m['line'], m['new'].strip())
            for c in (a[2:] or ALL):
                r = subprocess.run([os.path.join(V, 'check'), c], env=env, stdout=subprocess.PIPE, stderr=subprocess.STDOUT, text=True)
                print('\n'.join(l[:400] for l in r.stdout.splitlines() if not l.startswith('WARNING')))
        finally:
            subprocess.run(['git', '-C', REPO, 'worktree', 'remove', '--force', w], stdout=subprocess.DEVNULL, stderr=subprocess.DEVNULL)
            shutil.rmtree(d, ignore_errors=True)
