#!/bin/sh
# every registered command on the unchanged tree: exit 0 and no VIOLATION line, both tiers
cd "$(dirname "$0")/.." || exit 2
bad=0
for c in C01 C02 C03 C04 C05 C06 C07 C08 C09 C10 C12 C13 C14 C15 C16 C17 C18; do
  for t in quick thorough; do
    out=$(./check $c --tier $t 2>&1); rc=$?
    if [ $rc -ne 0 ] || echo "$out" | grep -q '^VIOLATION'; then echo "BROKEN $c $t rc=$rc"; echo "$out" | grep -A3 '^VIOLATION' | head -8; bad=1; fi
  done
done
[ $bad -eq 0 ] && echo "baseline: 34 commands clean"
exit $bad
