"""One-hunk edits of /repo used to validate the checks both ways. kind: mutant (must be reported by every listed
check, naming the expected rule) or benign (behaviour-preserving refactor: every listed check must stay silent)."""

MOD = 'lib/src/boolean/mod.rs'
CF = 'lib/src/boolean/compute_fields.rs'
FQ = 'lib/src/boolean/fill_queue.rs'
SD = 'lib/src/boolean/subdivide_segments.rs'
PI = 'lib/src/boolean/possible_intersection.rs'
DS = 'lib/src/boolean/divide_segment.rs'
SE = 'lib/src/boolean/sweep_event.rs'
CE = 'lib/src/boolean/connect_edges.rs'
CS = 'lib/src/boolean/compare_segments.rs'
SI = 'lib/src/boolean/segment_intersection.rs'
HP = 'lib/src/boolean/helper.rs'
SA = 'lib/src/boolean/signed_area.rs'
TR = 'lib/src/splay/tree.rs'
ST = 'lib/src/splay/set.rs'
ND = 'lib/src/splay/node.rs'


def M(id, checks, edits, expect=None):
    return {'id': id, 'kind': 'mutant', 'checks': checks, 'edits': edits, 'expect': expect or {}}


def B(id, checks, edits):
    return {'id': id, 'kind': 'benign', 'checks': checks, 'edits': edits}


CATALOGUE = [
    # ---- C01 / C14 tables
    M('revert-F1', ['C14', 'C01'], [(CF, """            if prev.is_vertical() {
                // The region right of a vertical edge is its "below" side: nothing is crossed yet.
                event.set_in_out(prev.is_in_out(), prev.is_other_in_out());
            } else {
                event.set_in_out(!prev.is_in_out(), prev.is_other_in_out());
            }""", "            event.set_in_out(!prev.is_in_out(), prev.is_other_in_out());")], {'C14': 'T-prop', 'C01': 'T-prop'}),
    M('revert-F2', ['C14', 'C02'], [(CF, """    let that_in = match event.get_edge_type() {
        EdgeType::SameTransition => this_in,
        EdgeType::DifferentTransition => !this_in,
        _ => !event.is_other_in_out(),
    };""", "    let that_in = !event.is_other_in_out();")], {'C14': 'T-trans-coincident', 'C02': 'T-trans-coincident'}),
    M('in_result-swap-int-union', ['C01', 'C14', 'C05'], [(CF, "Operation::Intersection => !event.is_other_in_out(),\n            Operation::Union => event.is_other_in_out(),",
                                                     "Operation::Intersection => event.is_other_in_out(),\n            Operation::Union => !event.is_other_in_out(),")], {'C01': 'T-select', 'C14': 'T-select'}),
    M('in_result-diff-drop-not', ['C01', 'C14'], [(CF, "(!event.is_subject && !event.is_other_in_out())", "(!event.is_subject && event.is_other_in_out())")], {'C01': 'T-select'}),
    M('trans-union-and', ['C01', 'C14'], [(CF, "Operation::Union => this_in || that_in,", "Operation::Union => this_in && that_in,")], {'C01': 'T-trans-normal'}),
    M('prop-drop-vertical-diff', ['C01', 'C14'], [(CF, "event.set_in_out(!prev.is_other_in_out(), !prev.is_in_out());", "event.set_in_out(!prev.is_other_in_out(), prev.is_in_out());")], {'C14': 'T-prop'}),
    M('prev-drop-not-vertical', ['C14', 'C02'], [(CF, "if prev.is_in_result() && !prev.is_vertical() {", "if prev.is_in_result() {")], {'C14': 'T-prev', 'C02': 'T-prev'}),
    M('setter-swapped-fields', ['C14'], [(SE, "        mutable.in_out = in_out;\n        mutable.other_in_out = other_in_out;", "        mutable.in_out = other_in_out;\n        mutable.other_in_out = in_out;")], {'C14': 'T-prop'}),
    M('is_in_result-ne-inout', ['C14'], [(SE, "self.mutable.borrow().result_transition != ResultTransition::None", "self.mutable.borrow().result_transition != ResultTransition::InOut")], {'C14': 'T-prev'}),
    B('in_result-if-chain', ['C01', 'C14', 'C05'], [(CF, "        EdgeType::SameTransition => operation == Operation::Intersection || operation == Operation::Union,",
                                              "        EdgeType::SameTransition => {\n            if operation == Operation::Intersection {\n                true\n            } else {\n                operation == Operation::Union\n            }\n        }")]),
    B('trans-hoist-locals', ['C01', 'C14'], [(CF, "    let is_in = match operation {\n        Operation::Intersection => this_in && that_in,", "    let both = this_in && that_in;\n    let is_in = match operation {\n        Operation::Intersection => both,")]),
    # ---- C01 / C07 forwarding, trivial
    M('impl-swap-operands', ['C01', 'C07'], [(MOD, "        boolean_operation(&[self.clone()], rhs.0.as_slice(), operation)", "        boolean_operation(rhs.0.as_slice(), &[self.clone()], operation)")], {'C01': 'T-forward', 'C07': 'T-forward'}),
    M('xor-forwards-union', ['C01', 'C07'], [(MOD, "self.boolean(rhs, Operation::Xor)", "self.boolean(rhs, Operation::Union)")], {'C01': 'T-forward'}),
    M('impl-truncated-slice', ['C07'], [(MOD, "        boolean_operation(self.0.as_slice(), &[rhs.clone()], operation)", "        boolean_operation(&self.0[..1], &[rhs.clone()], operation)")], {'C07': 'T-forward'}),
    M('trivial-diff-returns-clipping', ['C01', 'C06'], [(MOD, "Operation::Difference => MultiPolygon(Vec::from(subject)),", "Operation::Difference => MultiPolygon(Vec::from(clipping)),")], {'C01': 'T-trivial'}),
    M('trivial-xor-subject-only', ['C06', 'C01'], [(MOD, "        Operation::Union | Operation::Xor => MultiPolygon(subject.iter().chain(clipping).cloned().collect()),",
                                                  "        Operation::Union => MultiPolygon(subject.iter().chain(clipping).cloned().collect()),\n        Operation::Xor => MultiPolygon(subject.to_vec()),")], {'C06': 'T-trivial'}),
    B('trivial-to_vec', ['C01', 'C06'], [(MOD, "MultiPolygon(Vec::from(subject))", "MultiPolygon(subject.to_vec())")]),
    # ---- C09 / C06 boxes
    M('shortcut-ge', ['C09', 'C06'], [(MOD, "if sbbox.min.x > cbbox.max.x ||", "if sbbox.min.x >= cbbox.max.x ||")], {'C09': 'B-test', 'C06': 'B-test'}),
    M('init-max-plus-inf', ['C06', 'C09'], [(MOD, "        max: Coord {\n            x: F::neg_infinity(),", "        max: Coord {\n            x: F::infinity(),")], {'C06': 'L-empty'}),
    M('bbox-max-with-min', ['C09', 'C13'], [(FQ, "bbox.max.x = bbox.max.x.max(line.start.x);", "bbox.max.x = bbox.max.x.min(line.start.x);")], {'C09': 'B-acc'}),
    M('bbox-y-from-x', ['C09'], [(FQ, "bbox.min.y = bbox.min.y.min(line.start.y);", "bbox.min.y = bbox.min.y.min(line.start.x);")], {'C09': 'B-acc'}),
    M('subject-into-cbbox', ['C09'], [(FQ, "process_polygon(polygon.exterior(), true, contour_id, &mut event_queue, sbbox, true);", "process_polygon(polygon.exterior(), true, contour_id, &mut event_queue, cbbox, true);")], {'C09': 'B-acc'}),
    M('subdivide-boxes-swapped', ['C09'], [(MOD, "subdivide(&mut event_queue, &sbbox, &cbbox, operation)", "subdivide(&mut event_queue, &cbbox, &sbbox, operation)")], {'C09': 'T-pipeline'}),
    M('break-diff-rightbound', ['C09', 'C05'], [(SD, "operation == Operation::Difference && event.point.x > sbbox.max.x", "operation == Operation::Difference && event.point.x > rightbound")], {'C09': 'B-break'}),
    M('break-ge', ['C09'], [(SD, "if operation == Operation::Intersection && event.point.x > rightbound", "if operation == Operation::Intersection && event.point.x >= rightbound")], {'C09': 'B-break'}),
    M('break-union-too', ['C05', 'C09'], [(SD, "if operation == Operation::Intersection && event.point.x > rightbound", "if (operation == Operation::Intersection || operation == Operation::Union) && event.point.x > rightbound")], {'C09': 'B-break'}),
    B('bbox-from-line-end', ['C09', 'C13'], [(FQ, "bbox.min.x = bbox.min.x.min(line.start.x);", "bbox.min.x = bbox.min.x.min(line.end.x);")]),
    # ---- C13 bookkeeping
    M('push-e1-twice', ['C13'], [(FQ, "        event_queue.push(e1);\n        event_queue.push(e2);", "        event_queue.push(e1.clone());\n        event_queue.push(e1);")], {'C13': 'S-fill'}),
    M('left-flag-to-later', ['C13', 'C07'], [(FQ, "        if e1 < e2 {\n            e2.set_left(true)\n        } else {\n            e1.set_left(true)\n        }", "        if e1 < e2 {\n            e1.set_left(true)\n        } else {\n            e2.set_left(true)\n        }")], {'C13': 'W-left'}),
    M('divide-l-linked-to-se_l', ['C13', 'C16'], [(DS, "        true,\n        Rc::downgrade(&se_r),", "        true,\n        Rc::downgrade(se_l),")], {'C13': 'S-divide'}),
    M('divide-swap-one-flag', ['C13'], [(DS, "        se_r.set_left(true);\n        l.set_left(false);", "        se_r.set_left(true);")], {'C13': 'S-divide'}),
    M('no-post-removal-check', ['C13'], [(SD, "                    possible_intersection(&prev, &next, event_queue);\n", "")], {'C13': 'S-neigh'}),
    M('pi-next-event-order', ['C13'], [(SD, "if possible_intersection(&event, next, event_queue) == 2 {", "if possible_intersection(next, &event, event_queue) == 2 {")], {'C13': 'S-neigh'}),
    M('remove-event-not-other', ['C13'], [(SD, "                sweep_line.remove(&other_event);", "                sweep_line.remove(&event);")], {'C13': 'S-neigh'}),
    M('recompute-upper-only', ['C14', 'C13'], [(SD, "                    compute_fields(&event, maybe_prev, operation);\n                    compute_fields(next, Some(&event), operation);", "                    compute_fields(next, Some(&event), operation);")], {'C14': 'S-recompute'}),
    M('recompute-top-down', ['C14'], [(SD, "                    compute_fields(prev, maybe_prev_prev, operation);\n                    compute_fields(&event, Some(prev), operation);", "                    compute_fields(&event, Some(prev), operation);\n                    compute_fields(prev, maybe_prev_prev, operation);")], {'C14': 'S-recompute'}),
    B('merge-if-lets', ['C13', 'C14'], [(SD, "                let maybe_prev = sweep_line.prev(&other_event).cloned();\n                let maybe_next = sweep_line.next(&other_event).cloned();", "                let maybe_next = sweep_line.next(&other_event).cloned();\n                let maybe_prev = sweep_line.prev(&other_event).cloned();")]),
    # ---- C16 / C04 possible_intersection
    M('code3-after-typing', ['C16', 'C14'], [(PI, "                    divide_segment(&events[1].1, events[0].0.point, queue)\n                }\n                return 2;", "                    divide_segment(&events[1].1, events[0].0.point, queue)\n                }\n                return 3;")], {'C16': 'T-code'}),
    M('right-coincide-wrong-point', ['C16'], [(PI, "                divide_segment(&events[0].0, events[1].0.point, queue);\n                return 3;\n            }\n\n            if !Rc::ptr_eq", "                divide_segment(&events[0].0, events[0].1.point, queue);\n                return 3;\n            }\n\n            if !Rc::ptr_eq")], {'C16': 'T-code'}),
    M('endpoint-guard-half', ['C16', 'C04', 'C13'], [(PI, "if se1.point != inter && other1.point != inter {", "if se1.point != inter {")], {'C16': 'G-endpoint', 'C04': 'G-endpoint'}),
    M('twin-types-swapped', ['C06', 'C14', 'C16'], [(PI, "                se2.set_edge_type(EdgeType::NonContributing);\n                if se1.is_in_out() == se2.is_in_out() {\n                    se1.set_edge_type(EdgeType::SameTransition)\n                } else {\n                    se1.set_edge_type(EdgeType::DifferentTransition)\n                }",
                                                     "                se2.set_edge_type(EdgeType::NonContributing);\n                if se1.is_in_out() != se2.is_in_out() {\n                    se1.set_edge_type(EdgeType::SameTransition)\n                } else {\n                    se1.set_edge_type(EdgeType::DifferentTransition)\n                }")], {'C16': 'T-code'}),
]
