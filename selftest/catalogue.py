"""One-hunk edits of /repo used to validate the checks both ways. kind: mutant (must be reported by every listed
check, naming the expected rule) or benign (behaviour-preserving refactor: every listed check must stay silent)."""

MOD = 'lib/src/boolean/mod.rs'
CF = 'lib/src/boolean/compute_fields.rs'
FQ = 'lib/src/boolean/fill_queue.rs'
SD = 'lib/src/boolean/subdivide_segments.rs'
PI = 'lib/src/boolean/possible_intersection.rs'
DS = 'lib/src/boolean/divide_segment.rs'
SE = 'lib/src/boolean/sweep_event.rs'
CE = 'lib/src/boolean/connect_edges.rs'
CS = 'lib/src/boolean/compare_segments.rs'
SI = 'lib/src/boolean/segment_intersection.rs'
HP = 'lib/src/boolean/helper.rs'
SA = 'lib/src/boolean/signed_area.rs'
TR = 'lib/src/splay/tree.rs'
ST = 'lib/src/splay/set.rs'
ND = 'lib/src/splay/node.rs'


def M(id, checks, edits, expect=None):
    return {'id': id, 'kind': 'mutant', 'checks': checks, 'edits': edits, 'expect': expect or {}}


def B(id, checks, edits):
    return {'id': id, 'kind': 'benign', 'checks': checks, 'edits': edits}


CATALOGUE = [
    # ---- C01 / C14 tables
    M('revert-F1', ['C14', 'C01'], [(CF, """            if prev.is_vertical() {
                // The region right of a vertical edge is its "below" side: nothing is crossed yet.
                event.set_in_out(prev.is_in_out(), prev.is_other_in_out());
            } else {
                event.set_in_out(!prev.is_in_out(), prev.is_other_in_out());
            }""", "            event.set_in_out(!prev.is_in_out(), prev.is_other_in_out());")], {'C14': 'T-prop', 'C01': 'T-prop'}),
    M('revert-F2', ['C14', 'C02'], [(CF, """    let that_in = match event.get_edge_type() {
        EdgeType::SameTransition => this_in,
        EdgeType::DifferentTransition => !this_in,
        _ => !event.is_other_in_out(),
    };""", "    let that_in = !event.is_other_in_out();")], {'C14': 'T-trans-coincident', 'C02': 'T-trans-coincident'}),
    M('in_result-swap-int-union', ['C01', 'C14', 'C05'], [(CF, "Operation::Intersection => !event.is_other_in_out(),\n            Operation::Union => event.is_other_in_out(),",
                                                     "Operation::Intersection => event.is_other_in_out(),\n            Operation::Union => !event.is_other_in_out(),")], {'C01': 'T-select', 'C14': 'T-select'}),
    M('in_result-diff-drop-not', ['C01', 'C14'], [(CF, "(!event.is_subject && !event.is_other_in_out())", "(!event.is_subject && event.is_other_in_out())")], {'C01': 'T-select'}),
    M('trans-union-and', ['C01', 'C14'], [(CF, "Operation::Union => this_in || that_in,", "Operation::Union => this_in && that_in,")], {'C01': 'T-trans-normal'}),
    M('prop-drop-vertical-diff', ['C01', 'C14'], [(CF, "event.set_in_out(!prev.is_other_in_out(), !prev.is_in_out());", "event.set_in_out(!prev.is_other_in_out(), prev.is_in_out());")], {'C14': 'T-prop'}),
    M('prev-drop-not-vertical', ['C14', 'C02'], [(CF, "if prev.is_in_result() && !prev.is_vertical() {", "if prev.is_in_result() {")], {'C14': 'T-prev', 'C02': 'T-prev'}),
    M('setter-swapped-fields', ['C14'], [(SE, "        mutable.in_out = in_out;\n        mutable.other_in_out = other_in_out;", "        mutable.in_out = other_in_out;\n        mutable.other_in_out = in_out;")], {'C14': 'T-prop'}),
    M('is_in_result-ne-inout', ['C14'], [(SE, "self.mutable.borrow().result_transition != ResultTransition::None", "self.mutable.borrow().result_transition != ResultTransition::InOut")], {'C14': 'T-prev'}),
    B('in_result-if-chain', ['C01', 'C14', 'C05'], [(CF, "        EdgeType::SameTransition => operation == Operation::Intersection || operation == Operation::Union,",
                                              "        EdgeType::SameTransition => {\n            if operation == Operation::Intersection {\n                true\n            } else {\n                operation == Operation::Union\n            }\n        }")]),
    B('trans-hoist-locals', ['C01', 'C14'], [(CF, "    let is_in = match operation {\n        Operation::Intersection => this_in && that_in,", "    let both = this_in && that_in;\n    let is_in = match operation {\n        Operation::Intersection => both,")]),
    # ---- C01 / C07 forwarding, trivial
    M('impl-swap-operands', ['C01', 'C07'], [(MOD, "        boolean_operation(&[self.clone()], rhs.0.as_slice(), operation)", "        boolean_operation(rhs.0.as_slice(), &[self.clone()], operation)")], {'C01': 'T-forward', 'C07': 'T-forward'}),
    M('xor-forwards-union', ['C01', 'C07'], [(MOD, "self.boolean(rhs, Operation::Xor)", "self.boolean(rhs, Operation::Union)")], {'C01': 'T-forward'}),
    M('impl-truncated-slice', ['C07'], [(MOD, "        boolean_operation(self.0.as_slice(), &[rhs.clone()], operation)", "        boolean_operation(&self.0[..1], &[rhs.clone()], operation)")], {'C07': 'T-forward'}),
    M('trivial-diff-returns-clipping', ['C01', 'C06'], [(MOD, "Operation::Difference => MultiPolygon(Vec::from(subject)),", "Operation::Difference => MultiPolygon(Vec::from(clipping)),")], {'C01': 'T-trivial'}),
    M('trivial-xor-subject-only', ['C06', 'C01'], [(MOD, "        Operation::Union | Operation::Xor => MultiPolygon(subject.iter().chain(clipping).cloned().collect()),",
                                                  "        Operation::Union => MultiPolygon(subject.iter().chain(clipping).cloned().collect()),\n        Operation::Xor => MultiPolygon(subject.to_vec()),")], {'C06': 'T-trivial'}),
    B('impl-delegates-correctly', ['C01', 'C07'], [(MOD, "        boolean_operation(self.0.as_slice(), &[rhs.clone()], operation)", "        self.boolean(&MultiPolygon(vec![rhs.clone()]), operation)")]),
    M('impl-delegates-swapped', ['C01', 'C07'], [(MOD, "        boolean_operation(self.0.as_slice(), &[rhs.clone()], operation)", "        rhs.boolean(self, operation)")], {'C01': 'T-forward'}),
    B('trivial-to_vec', ['C01', 'C06'], [(MOD, "MultiPolygon(Vec::from(subject))", "MultiPolygon(subject.to_vec())")]),
    # ---- C09 / C06 boxes
    M('shortcut-ge', ['C09', 'C06'], [(MOD, "if sbbox.min.x > cbbox.max.x ||", "if sbbox.min.x >= cbbox.max.x ||")], {'C09': 'B-test', 'C06': 'B-test'}),
    M('init-max-plus-inf', ['C06', 'C09'], [(MOD, "        max: Coord {\n            x: F::neg_infinity(),", "        max: Coord {\n            x: F::infinity(),")], {'C06': 'L-empty'}),
    M('bbox-max-with-min', ['C09', 'C13'], [(FQ, "bbox.max.x = bbox.max.x.max(line.start.x);", "bbox.max.x = bbox.max.x.min(line.start.x);")], {'C09': 'B-acc'}),
    M('bbox-y-from-x', ['C09'], [(FQ, "bbox.min.y = bbox.min.y.min(line.start.y);", "bbox.min.y = bbox.min.y.min(line.start.x);")], {'C09': 'B-acc'}),
    M('subject-into-cbbox', ['C09'], [(FQ, "process_polygon(polygon.exterior(), true, contour_id, &mut event_queue, sbbox, true);", "process_polygon(polygon.exterior(), true, contour_id, &mut event_queue, cbbox, true);")], {'C09': 'B-acc'}),
    M('subdivide-boxes-swapped', ['C09'], [(MOD, "subdivide(&mut event_queue, &sbbox, &cbbox, operation)", "subdivide(&mut event_queue, &cbbox, &sbbox, operation)")], {'C09': 'T-pipeline'}),
    M('break-diff-rightbound', ['C09', 'C05'], [(SD, "operation == Operation::Difference && event.point.x > sbbox.max.x", "operation == Operation::Difference && event.point.x > rightbound")], {'C09': 'B-break'}),
    M('break-ge', ['C09'], [(SD, "if operation == Operation::Intersection && event.point.x > rightbound", "if operation == Operation::Intersection && event.point.x >= rightbound")], {'C09': 'B-break'}),
    M('break-union-too', ['C05', 'C09'], [(SD, "if operation == Operation::Intersection && event.point.x > rightbound", "if (operation == Operation::Intersection || operation == Operation::Union) && event.point.x > rightbound")], {'C09': 'B-break'}),
    B('bbox-from-line-end', ['C09', 'C13'], [(FQ, "bbox.min.x = bbox.min.x.min(line.start.x);", "bbox.min.x = bbox.min.x.min(line.end.x);")]),
    # ---- C13 bookkeeping
    M('push-e1-twice', ['C13'], [(FQ, "        event_queue.push(e1);\n        event_queue.push(e2);", "        event_queue.push(e1.clone());\n        event_queue.push(e1);")], {'C13': 'S-fill'}),
    M('left-flag-to-later', ['C13', 'C07'], [(FQ, "        if e1 < e2 {\n            e2.set_left(true)\n        } else {\n            e1.set_left(true)\n        }", "        if e1 < e2 {\n            e1.set_left(true)\n        } else {\n            e2.set_left(true)\n        }")], {'C13': 'W-left'}),
    M('divide-l-linked-to-se_l', ['C13', 'C16'], [(DS, "        true,\n        Rc::downgrade(&se_r),", "        true,\n        Rc::downgrade(se_l),")], {'C13': 'S-divide'}),
    M('divide-swap-one-flag', ['C13'], [(DS, "        se_r.set_left(true);\n        l.set_left(false);", "        se_r.set_left(true);")], {'C13': 'S-divide'}),
    M('no-post-removal-check', ['C13'], [(SD, "                    possible_intersection(&prev, &next, event_queue);\n", "")], {'C13': 'S-neigh'}),
    M('pi-next-event-order', ['C13'], [(SD, "if possible_intersection(&event, next, event_queue) == 2 {", "if possible_intersection(next, &event, event_queue) == 2 {")], {'C13': 'S-neigh'}),
    M('remove-event-not-other', ['C13'], [(SD, "                sweep_line.remove(&other_event);", "                sweep_line.remove(&event);")], {'C13': 'S-neigh'}),
    M('recompute-upper-only', ['C14', 'C13'], [(SD, "                    compute_fields(&event, maybe_prev, operation);\n                    compute_fields(next, Some(&event), operation);", "                    compute_fields(next, Some(&event), operation);")], {'C14': 'S-recompute'}),
    M('recompute-top-down', ['C14'], [(SD, "                    compute_fields(prev, maybe_prev_prev, operation);\n                    compute_fields(&event, Some(prev), operation);", "                    compute_fields(&event, Some(prev), operation);\n                    compute_fields(prev, maybe_prev_prev, operation);")], {'C14': 'S-recompute'}),
    B('merge-if-lets', ['C13', 'C14'], [(SD, "                let maybe_prev = sweep_line.prev(&other_event).cloned();\n                let maybe_next = sweep_line.next(&other_event).cloned();", "                let maybe_next = sweep_line.next(&other_event).cloned();\n                let maybe_prev = sweep_line.prev(&other_event).cloned();")]),
    # ---- C16 / C04 possible_intersection
    M('code3-after-typing', ['C16', 'C14'], [(PI, "                    divide_segment(&events[1].1, events[0].0.point, queue)\n                }\n                return 2;", "                    divide_segment(&events[1].1, events[0].0.point, queue)\n                }\n                return 3;")], {'C16': 'T-code'}),
    M('right-coincide-wrong-point', ['C16'], [(PI, "                divide_segment(&events[0].0, events[1].0.point, queue);\n                return 3;\n            }\n\n            if !Rc::ptr_eq", "                divide_segment(&events[0].0, events[0].1.point, queue);\n                return 3;\n            }\n\n            if !Rc::ptr_eq")], {'C16': 'T-code'}),
    M('endpoint-guard-half', ['C16', 'C04', 'C13'], [(PI, "if se1.point != inter && other1.point != inter {", "if se1.point != inter {")], {'C16': 'G-endpoint', 'C04': 'G-endpoint'}),
    M('twin-types-swapped', ['C06', 'C14', 'C16'], [(PI, "                se2.set_edge_type(EdgeType::NonContributing);\n                if se1.is_in_out() == se2.is_in_out() {\n                    se1.set_edge_type(EdgeType::SameTransition)\n                } else {\n                    se1.set_edge_type(EdgeType::DifferentTransition)\n                }",
                                                     "                se2.set_edge_type(EdgeType::NonContributing);\n                if se1.is_in_out() != se2.is_in_out() {\n                    se1.set_edge_type(EdgeType::SameTransition)\n                } else {\n                    se1.set_edge_type(EdgeType::DifferentTransition)\n                }")], {'C16': 'T-code'}),
    # ---- C02 parent table / assembly
    M('hole-branch-on-InOut', ['C02', 'C01'], [(CE, "if prev_in_result.get_result_transition() == ResultTransition::OutIn {", "if prev_in_result.get_result_transition() == ResultTransition::InOut {")], {'C02': 'T-parent'}),
    M('hole-of-lower-hole', ['C02'], [(CE, "                    let hole_of = Some(parent_contour_id);", "                    let hole_of = Some(lower_contour_id);")], {'C02': 'T-parent'}),
    M('push-onto-wrong-contour', ['C02'], [(CE, "                    contours[parent_contour_id as usize].hole_ids.push(contour_id);", "                    contours[lower_contour_id as usize].hole_ids.push(contour_id);")], {'C02': 'T-parent'}),
    M('assemble-non-exterior', ['C02', 'C04'], [(MOD, ".filter(|contour| contour.is_exterior())", ".filter(|contour| !contour.is_exterior())")], {'C02': 'T-assemble'}),
    B('parent-depth-lazy', ['C02'], [(CE, "                    let depth = contours[lower_contour_id as usize].depth + 1;\n                    Contour::new(hole_of, depth)", "                    Contour::new(hole_of, contours[lower_contour_id as usize].depth + 1)")]),
    # ---- C03
    M('setter-holds-borrow', ['C03'], [(SE, "    pub fn set_left(&self, left: bool) {\n        self.mutable.borrow_mut().left = left\n    }", "    pub fn set_left(&self, left: bool) {\n        let mut m = self.mutable.borrow_mut();\n        if self.is_left() != left {\n            m.left = left\n        }\n    }")], {'C03': 'P-refcell'}),
    M('compute_fields-recursive', ['C03', 'C18'], [(CF, "    if let Some(prev) = maybe_prev {\n        if event.is_subject == prev.is_subject {", "    if let Some(prev) = maybe_prev {\n        if prev.get_edge_type() == EdgeType::NonContributing {\n            compute_fields(prev, prev.get_prev_in_result().as_ref(), operation);\n        }\n        if event.is_subject == prev.is_subject {")], {'C03': 'P-norec', 'C18': 'K-norec'}),
    M('delete-InOut-guard', ['C03'], [(CE, "                let depth = if lower_contour_id < 0 || lower_contour_id as usize >= contours.len() {\n                    debug_assert!(false, \"Invalid lower_contour_id should be impossible.\");\n                    0\n                } else {\n                    contours[lower_contour_id as usize].depth\n                };", "                let depth = contours[lower_contour_id as usize].depth;")], {'C03': 'P-sentinel'}),
    M('new-unwrap', ['C03'], [(CF, "        } else if let Some(prev_of_prev) = prev.get_prev_in_result() {\n            event.set_prev_in_result(&prev_of_prev);", "        } else if prev.get_prev_in_result().is_some() {\n            event.set_prev_in_result(&prev.get_prev_in_result().unwrap());")], {'C03': 'P-inventory'}),
    M('prev_in_result-strong', ['C18', 'C03'], [(SE, "    prev_in_result: Weak<SweepEvent<F>>,", "    prev_in_result: Option<Rc<SweepEvent<F>>>,"), (SE, "                prev_in_result: Weak::new(),", "                prev_in_result: None,"), (SE, "        self.mutable.borrow().prev_in_result.upgrade()", "        self.mutable.borrow().prev_in_result.clone()"), (SE, "        self.mutable.borrow_mut().prev_in_result = Rc::downgrade(prev_in_result);", "        self.mutable.borrow_mut().prev_in_result = Some(prev_in_result.clone());"), (SE, "        self.mutable.borrow_mut().prev_in_result = Weak::new();", "        self.mutable.borrow_mut().prev_in_result = None;")], {'C18': 'K-events'}),
    B('add-getter', ['C03', 'C12'], [(SE, "    pub fn is_in_out(&self) -> bool {", "    pub fn flags(&self) -> (bool, bool) {\n        let m = self.mutable.borrow();\n        (m.in_out, m.other_in_out)\n    }\n\n    pub fn is_in_out(&self) -> bool {")]),
    # ---- C18
    M('revert-K1-clear', ['C18', 'C03'], [(TR, "        teardown(self.root_mut().take());\n        self.size = 0;", "        self.root_mut().take();\n        self.size = 0;")], {'C18': 'K-teardown'}),
    M('revert-K1-intoiter-drop', ['C18'], [(TR, "impl<K, V> Drop for IntoIter<K, V> {\n    fn drop(&mut self) {\n        teardown(self.cur.take());\n    }\n}\n", "")], {'C18': 'K-teardown'}),
    M('teardown-left-only', ['C18'], [(TR, "        pending.extend(node.pop_left());\n        pending.extend(node.pop_right());", "        pending.extend(node.pop_left());")], {'C18': 'K-teardown'}),
    M('recursive-height', ['C18'], [(TR, "    pub fn len(&self) -> usize {\n        self.size\n    }", "    pub fn len(&self) -> usize {\n        debug_assert!(Self::height(self.root_ref()) <= self.size);\n        self.size\n    }\n\n    fn height(n: &Option<Box<Node<K, V>>>) -> usize {\n        match n {\n            Some(b) => 1 + Self::height(&b.left).max(Self::height(&b.right)),\n            None => 0,\n        }\n    }")], {'C18': 'K-norec'}),
    # ---- C08 / C10
    M('epsilon-threshold', ['C08', 'C10'], [(SI, "    if sqr_kross > F::zero() {\n        let s = cross_product(e, vb) / kross;", "    if sqr_kross > F::epsilon() {\n        let s = cross_product(e, vb) / kross;")], {'C08': 'R-degree'}),
    B('s-range-tolerance-dimensionless', ['C08'], [(SI, "        if s < F::zero() || s > F::one() {", "        if s < F::zero() - F::epsilon() || s > F::one() {")]),   # s is a ratio (degree 0): a tolerance on it is scale-invariant, C08's scaling clause still holds
    M('compare-area-with-coord', ['C08'], [(CS, "            if sa_l == 0. {\n                return less_if(sa_r > 0.);", "            if sa_l == 0. || sa_l < se_old_l.point.x.into() {\n                return less_if(sa_r > 0.);")], {'C08': 'R-degree'}),
    M('inter-plus-one', ['C08'], [(SI, "        x: p.x + s * d.x,", "        x: p.x + s * d.x + F::one() - F::one(),")], {'C08': 'R-degree'}),
    B('kross-ne-zero', ['C08', 'C16'], [(SI, "    let mut sqr_kross = kross * kross;\n    let sqr_len_a = dot_product(va, va);\n\n    if sqr_kross > F::zero() {", "    let mut sqr_kross = kross * kross;\n    let sqr_len_a = dot_product(va, va);\n\n    if F::zero() < sqr_kross {")]),
    M('nextafter-f32-down', ['C10'], [(HP, "            self.next_after(std::f32::INFINITY)", "            self.next_after(std::f32::NEG_INFINITY)")], {'C10': 'N-sibling'}),
    M('robust-roundtrip-f32', ['C10'], [(SA, "    RobustCoord { x: p.x, y: p.y }", "    RobustCoord { x: F::from(p.x.to_f32().unwrap()).unwrap(), y: p.y }")], {'C10': 'N-generic'}),
    M('orient-swapped-args', ['C10', 'C15'], [(SA, "orient2d(coord_to_robust(p0), coord_to_robust(p1), coord_to_robust(p2))", "orient2d(coord_to_robust(p1), coord_to_robust(p0), coord_to_robust(p2))")], {'C10': 'N-orient'}),
    # ---- C12
    M('static-cache', ['C12'], [(MOD, "fn boolean_operation<F>(subject: &[Polygon<F>], clipping: &[Polygon<F>], operation: Operation) -> MultiPolygon<F>\nwhere\n    F: Float,\n{", "static CALLS: std::sync::atomic::AtomicUsize = std::sync::atomic::AtomicUsize::new(0);\n\nfn boolean_operation<F>(subject: &[Polygon<F>], clipping: &[Polygon<F>], operation: Operation) -> MultiPolygon<F>\nwhere\n    F: Float,\n{\n    CALLS.fetch_add(1, std::sync::atomic::Ordering::Relaxed);")], {'C12': 'D-global'}),
    M('address-tiebreak', ['C12'], [(CS, "                less_if(se_old_l.contour_id < se_new_l.contour_id)", "                less_if((Rc::as_ptr(se_old_l) as usize) < (Rc::as_ptr(se_new_l) as usize))")], {'C12': 'D-addr'}),
    M('iterate-hashset', ['C12'], [(CE, "    for i in 0..(result_events.len() as i32) {\n        if processed.contains(&i) {\n            continue;\n        }", "    for i in 0..(result_events.len() as i32) {\n        if processed.iter().any(|p| *p == i) {\n            continue;\n        }")], {'C12': 'D-hash'}),
    M('env-switch', ['C12'], [(SD, "    let rightbound = sbbox.max.x.min(cbbox.max.x);", "    let rightbound = if std::env::var(\"BOOLEANOP_NO_BREAK\").is_ok() { F::infinity() } else { sbbox.max.x.min(cbbox.max.x) };")], {'C12': 'D-effects'}),
    # ---- C15
    M('cmp-y-inverted', ['C15'], [(SE, "        if p1.y > p2.y {\n            return Ordering::Less;\n        }\n        if p1.y < p2.y {\n            return Ordering::Greater;\n        }", "        if p1.y > p2.y {\n            return Ordering::Greater;\n        }\n        if p1.y < p2.y {\n            return Ordering::Less;\n        }")], {'C15': 'O-antisym-event'}),
    M('cmp-left-negated', ['C15'], [(SE, "            return less_if(self.is_left());", "            return less_if(!self.is_left());")], {'C15': 'O-antisym-event'}),
    M('cmp-fallback-self-subject', ['C15'], [(SE, "        less_if(!self.is_subject && other.is_subject)", "        less_if(self.is_subject)")], {'C15': 'O-antisym-event'}),
    M('cmp-equal-same-point', ['C15'], [(SE, "        less_if(!self.is_subject && other.is_subject)", "        if self.is_subject == other.is_subject {\n            return Ordering::Equal;\n        }\n        less_if(!self.is_subject && other.is_subject)")], {'C15': 'O-noequal'}),
    M('segments-equal-collinear', ['C15'], [(CS, "                less_if(se_old_l.contour_id < se_new_l.contour_id)", "                if se_old_l.contour_id == se_new_l.contour_id {\n                    return Ordering::Equal;\n                }\n                less_if(se_old_l.contour_id < se_new_l.contour_id)")], {'C15': 'O-equal-identity'}),
    M('less_if-both-arms', ['C15'], [(CS, "(se2_l, se1_l, helper::less_if_inversed as fn(bool) -> Ordering)", "(se2_l, se1_l, helper::less_if as fn(bool) -> Ordering)")], {'C15': 'O-swap'}),
    M('less_if_inversed-less-twice', ['C15'], [(HP, "    if condition {\n        Ordering::Greater\n    } else {\n        Ordering::Less\n    }", "    if condition {\n        Ordering::Less\n    } else {\n        Ordering::Less\n    }")], {'C15': 'O-swap'}),
    M('bubble-swap-inverted', ['C15'], [(CE, "            if result_events[i - 1] < result_events[i] {", "            if result_events[i - 1] > result_events[i] {")], {'C15': 'O-consumers'}),
    B('cmp-inline-less_if', ['C15'], [(SE, "            return less_if(self.is_left());", "            return if self.is_left() { Ordering::Less } else { Ordering::Greater };")]),
    # ---- C17
    M('size-on-replace', ['C17'], [(TR, "                        let old = mem::replace(&mut root.value, value);\n                        return Some(old);", "                        let old = mem::replace(&mut root.value, value);\n                        self.size += 1;\n                        return Some(old);")], {'C17': 'M-size'}),
    M('swap-node-contents', ['C17'], [(TR, "                        mem::swap(&mut left, node);\n                        let none = mem::replace(&mut node.right, Some(left));", "                        mem::swap(&mut *left, &mut **node);\n                        let none = mem::replace(&mut node.right, Some(left));")], {'C17': 'M-stable'}),
    M('set-prev-calls-next', ['C17'], [(ST, "        self.tree.prev(t).map(|kv| kv.0)", "        self.tree.next(t).map(|kv| kv.0)")], {'C17': 'M-mirror'}),
    M('successor-on-equal', ['C17'], [(TR, "                Ordering::Less => {\n                    successor = Some((&node.key, &node.value));\n                    match node.left {\n                        Some(ref left) => node = left,\n                        None => break,\n                    }\n                }\n                Ordering::Equal | Ordering::Greater => match node.right {", "                Ordering::Less | Ordering::Equal => {\n                    successor = Some((&node.key, &node.value));\n                    match node.left {\n                        Some(ref left) => node = left,\n                        None => break,\n                    }\n                }\n                Ordering::Greater => match node.right {")], {'C17': 'M-direction'}),
    M('remaining-not-decremented', ['C17'], [(TR, "                    self.cur = cur.pop_left();\n                    // left and right fields are both None\n                    let node = *cur;\n                    let Node { key, value, .. } = node;\n                    self.remaining -= 1;", "                    self.cur = cur.pop_left();\n                    // left and right fields are both None\n                    let node = *cur;\n                    let Node { key, value, .. } = node;")], {'C17': ['M-size', 'M-mirror']}),
    # ---- more behaviour-preserving refactors (false-alarm probes)
    B('prop-match-on-tuple', ['C14', 'C01'], [(CF, """        if event.is_subject == prev.is_subject {
            if prev.is_vertical() {
                // The region right of a vertical edge is its "below" side: nothing is crossed yet.
                event.set_in_out(prev.is_in_out(), prev.is_other_in_out());
            } else {
                event.set_in_out(!prev.is_in_out(), prev.is_other_in_out());
            }
        } else if prev.is_vertical() {
            event.set_in_out(!prev.is_other_in_out(), !prev.is_in_out());
        } else {
            event.set_in_out(!prev.is_other_in_out(), prev.is_in_out());
        }""", """        match (event.is_subject == prev.is_subject, prev.is_vertical()) {
            (true, true) => event.set_in_out(prev.is_in_out(), prev.is_other_in_out()),
            (true, false) => event.set_in_out(!prev.is_in_out(), prev.is_other_in_out()),
            (false, true) => event.set_in_out(!prev.is_other_in_out(), !prev.is_in_out()),
            (false, false) => event.set_in_out(!prev.is_other_in_out(), prev.is_in_out()),
        }""")]),
    B('shortcut-demorgan', ['C09', 'C06'], [(MOD, "    if sbbox.min.x > cbbox.max.x || cbbox.min.x > sbbox.max.x || sbbox.min.y > cbbox.max.y || cbbox.min.y > sbbox.max.y\n    {", "    let overlap_x = sbbox.min.x <= cbbox.max.x && cbbox.min.x <= sbbox.max.x;\n    let overlap_y = sbbox.min.y <= cbbox.max.y && cbbox.min.y <= sbbox.max.y;\n    if !(overlap_x && overlap_y) {")]),
    B('initial-box-helper', ['C06', 'C09'], [(MOD, """    let mut sbbox = BoundingBox {
        min: Coord {
            x: F::infinity(),
            y: F::infinity(),
        },
        max: Coord {
            x: F::neg_infinity(),
            y: F::neg_infinity(),
        },
    };
    let mut cbbox = sbbox;""", """    fn empty_box<T: Float>() -> BoundingBox<T> {
        let (hi, lo) = (T::infinity(), T::neg_infinity());
        BoundingBox {
            min: Coord { x: hi, y: hi },
            max: Coord { x: lo, y: lo },
        }
    }
    let mut sbbox = empty_box::<F>();
    let mut cbbox = empty_box::<F>();""")]),
    B('point-arm-early-return', ['C16', 'C04', 'C13'], [(PI, """            if se1.point != inter && other1.point != inter {
                divide_segment(se1, inter, queue);
            }""", """            let touches1 = se1.point == inter || other1.point == inter;
            if !touches1 {
                divide_segment(se1, inter, queue);
            }""")]),
    B('parent-ladder-to-match', ['C02', 'C03'], [(CE, "        if let Some(prev_in_result) = event.get_prev_in_result() {", "        let lower = event.get_prev_in_result();\n        if let Some(prev_in_result) = lower {")]),
    B('contour-get-with-fallback', ['C03', 'C02'], [(CE, "                    contours[lower_contour_id as usize].depth\n                };", "                    contours.get(lower_contour_id as usize).map(|c| c.depth).unwrap_or(0)\n                };")]),
    B('teardown-while-let-stack', ['C18', 'C03', 'C17'], [(TR, "    let mut pending = Vec::new();\n    pending.extend(root);\n    while let Some(mut node) = pending.pop() {\n        pending.extend(node.pop_left());\n        pending.extend(node.pop_right());\n    }", "    let mut pending = Vec::new();\n    if let Some(r) = root {\n        pending.push(r);\n    }\n    while let Some(mut node) = pending.pop() {\n        if let Some(l) = node.pop_left() {\n            pending.push(l);\n        }\n        if let Some(r) = node.pop_right() {\n            pending.push(r);\n        }\n    }")]),
    B('cmp-tuple-first', ['C15'], [(SE, "        if p1.x > p2.x {\n            return Ordering::Less;\n        }\n        if p1.x < p2.x {\n            return Ordering::Greater;\n        }", "        if p1.x != p2.x {\n            return if p1.x > p2.x { Ordering::Less } else { Ordering::Greater };\n        }")]),
    B('rename-locals-compute_fields', ['C14', 'C01', 'C02'], [(CF, "        } else if let Some(prev_of_prev) = prev.get_prev_in_result() {\n            event.set_prev_in_result(&prev_of_prev);", "        } else if let Some(below) = prev.get_prev_in_result() {\n            event.set_prev_in_result(&below);")]),
    B('subdivide-clone-neighbours-early', ['C13', 'C14'], [(SD, "            let maybe_prev = sweep_line.prev(&event);\n            let maybe_next = sweep_line.next(&event);\n\n            compute_fields(&event, maybe_prev, operation);", "            let maybe_next = sweep_line.next(&event);\n            let maybe_prev = sweep_line.prev(&event);\n\n            compute_fields(&event, maybe_prev, operation);")]),
    B('fill-queue-helper-closure', ['C07', 'C09', 'C13', 'C05'], [(FQ, "    for polygon in subject {\n        contour_id += 1;\n        process_polygon(polygon.exterior(), true, contour_id, &mut event_queue, sbbox, true);", "    for polygon in subject.iter() {\n        contour_id += 1;\n        let outer = polygon.exterior();\n        process_polygon(outer, true, contour_id, &mut event_queue, sbbox, true);")]),
    B('size-saturating', ['C17'], [(TR, "    pub fn is_empty(&self) -> bool {\n        self.len() == 0\n    }\n\n    pub fn clear(&mut self) {", "    pub fn is_empty(&self) -> bool {\n        self.size == 0\n    }\n\n    pub fn clear(&mut self) {")]),
    B('divide-bind-point-first', ['C13', 'C16', 'C04'], [(DS, "    let r = SweepEvent::new_rc(\n        se_l.contour_id,\n        inter,", "    let at = inter;\n    let r = SweepEvent::new_rc(\n        se_l.contour_id,\n        at,")]),
    B('in_result-early-noncontributing', ['C01', 'C14', 'C05', 'C06'], [(CF, "    match event.get_edge_type() {\n        EdgeType::Normal => match operation {", "    let edge_type = event.get_edge_type();\n    if edge_type == EdgeType::NonContributing {\n        return false;\n    }\n    match edge_type {\n        EdgeType::Normal => match operation {")]),
    # ---- contour walk (C02 C04)
    M('walk-push-initial', ['C04', 'C02'], [(CE, "            contour.points.push(result_events[pos as usize].point);\n\n            // pos advancement (B)", "            contour.points.push(initial);\n\n            // pos advancement (B)")], {'C04': ['G-sinks', 'T-walk'], 'C02': 'T-walk'}),
    M('order-events-all-right-events', ['C02', 'C04'], [(CE, "|| (!event.is_left() && event.get_other_event().map(|o| o.is_in_result()).unwrap_or(false))", "|| (!event.is_left() && event.get_other_event().map(|o| o.is_in_result()).unwrap_or(true))")], {'C02': 'T-result-events'}),
    M('other-pos-half-swap', ['C02', 'C04'], [(CE, "                event.set_other_pos(b);\n                other.set_other_pos(a);", "                event.set_other_pos(b);")], {'C02': 'T-other-pos'}),
    M('mark-second-with-old-pos', ['C02'], [(CE, "            pos = result_events[pos as usize].get_other_pos();\n\n            mark_as_processed(&mut processed, &result_events, pos, contour_id);", "            let from = pos;\n            pos = result_events[pos as usize].get_other_pos();\n\n            mark_as_processed(&mut processed, &result_events, from, contour_id);")], {'C02': 'T-walk'}),
    M('next-pos-returns-processed', ['C02'], [(CE, "        } else if !processed.contains(&pos) {\n            return Some(pos);", "        } else if processed.contains(&pos) {\n            return Some(pos);")], {'C02': 'T-next-pos'}),
    M('context-from-other-end', ['C02'], [(CE, "let mut contour = Contour::initialize_from_context(&result_events[i as usize], &mut contours, contour_id);", "let mut contour = Contour::initialize_from_context(&result_events[result_events[i as usize].get_other_pos() as usize], &mut contours, contour_id);")], {'C02': 'T-walk'}),
    B('walk-bind-event-first', ['C02', 'C04'], [(CE, "            contour.points.push(result_events[pos as usize].point);\n\n            // pos advancement (B)", "            let reached = &result_events[pos as usize];\n            contour.points.push(reached.point);\n\n            // pos advancement (B)")]),
    # ---- parameter / local renames must not matter
    B('rename-params-process_polygon', ['C07', 'C09', 'C13', 'C04'], [(FQ, "    contour_or_hole: &LineString<F>,\n    is_subject: bool,\n    contour_id: u32,\n    event_queue: &mut BinaryHeap<Rc<SweepEvent<F>>>,\n    bbox: &mut BoundingBox<F>,\n    is_exterior_ring: bool,\n) where", "    contour_or_hole: &LineString<F>,\n    is_subject: bool,\n    contour_id: u32,\n    event_queue: &mut BinaryHeap<Rc<SweepEvent<F>>>,\n    bounds: &mut BoundingBox<F>,\n    is_exterior_ring: bool,\n) where"), (FQ, "        bbox.min.x = bbox.min.x.min(line.start.x);\n        bbox.min.y = bbox.min.y.min(line.start.y);\n        bbox.max.x = bbox.max.x.max(line.start.x);\n        bbox.max.y = bbox.max.y.max(line.start.y);", "        bounds.min.x = bounds.min.x.min(line.start.x);\n        bounds.min.y = bounds.min.y.min(line.start.y);\n        bounds.max.x = bounds.max.x.max(line.start.x);\n        bounds.max.y = bounds.max.y.max(line.start.y);")]),
    B('rename-params-get_next_pos', ['C02', 'C04'], [(CE, "fn get_next_pos(pos: i32, processed: &HashSet<i32>, iteration_map: &[usize]) -> Option<i32> {\n    let mut pos = pos;\n    let start_pos = pos;\n\n    loop {\n        pos = iteration_map[pos as usize] as i32;", "fn get_next_pos(from: i32, processed: &HashSet<i32>, ring: &[usize]) -> Option<i32> {\n    let mut pos = from;\n    let start_pos = pos;\n\n    loop {\n        pos = ring[pos as usize] as i32;")]),
    B('rename-params-mark', ['C02'], [(CE, "fn mark_as_processed<F>(processed: &mut HashSet<i32>, result_events: &[Rc<SweepEvent<F>>], pos: i32, contour_id: i32)\nwhere\n    F: Float,\n{\n    processed.insert(pos);\n    result_events[pos as usize].set_output_contour_id(contour_id);", "fn mark_as_processed<F>(done: &mut HashSet<i32>, evs: &[Rc<SweepEvent<F>>], at: i32, id: i32)\nwhere\n    F: Float,\n{\n    done.insert(at);\n    evs[at as usize].set_output_contour_id(id);")]),
    B('rename-params-initialize', ['C02', 'C03'], [(CE, "        event: &Rc<SweepEvent<F>>,\n        contours: &mut [Contour<F>],\n        contour_id: i32,\n    ) -> Contour<F> {\n        if let Some(prev_in_result) = event.get_prev_in_result() {", "        ev: &Rc<SweepEvent<F>>,\n        contours: &mut [Contour<F>],\n        contour_id: i32,\n    ) -> Contour<F> {\n        if let Some(prev_in_result) = ev.get_prev_in_result() {")]),
    B('rename-locals-next', ['C17'], [(TR, "        let mut successor: Option<(&K, &V)> = None;\n\n        loop {\n            match (self.comparator)(key, &node.key) {\n                Ordering::Less => {\n                    successor = Some((&node.key, &node.value));", "        let mut best: Option<(&K, &V)> = None;\n\n        loop {\n            match (self.comparator)(key, &node.key) {\n                Ordering::Less => {\n                    best = Some((&node.key, &node.value));"), (TR, "                Ordering::Equal | Ordering::Greater => match node.right {\n                    Some(ref right) => node = right,\n                    None => break,\n                },\n            }\n        }\n\n        successor", "                Ordering::Equal | Ordering::Greater => match node.right {\n                    Some(ref right) => node = right,\n                    None => break,\n                },\n            }\n        }\n\n        best")]),
    M('interiors-helper-wrong-box', ['C09', 'C13'], [(FQ, "    for polygon in clipping {\n        let exterior = operation != Operation::Difference;\n        if exterior {\n            contour_id += 1;\n        }\n        process_polygon(polygon.exterior(), false, contour_id, &mut event_queue, cbbox, exterior);\n        for interior in polygon.interiors() {\n            process_polygon(interior, false, contour_id, &mut event_queue, cbbox, false);\n        }\n    }\n\n    event_queue\n}", "    for polygon in clipping {\n        let exterior = operation != Operation::Difference;\n        if exterior {\n            contour_id += 1;\n        }\n        process_polygon(polygon.exterior(), false, contour_id, &mut event_queue, cbbox, exterior);\n        process_interiors(polygon, false, contour_id, &mut event_queue, sbbox);\n    }\n    event_queue\n}\n\nfn process_interiors<F: Float>(\n    polygon: &Polygon<F>,\n    is_subject: bool,\n    contour_id: u32,\n    event_queue: &mut BinaryHeap<Rc<SweepEvent<F>>>,\n    bbox: &mut BoundingBox<F>,\n) {\n    for interior in polygon.interiors() {\n        process_polygon(interior, is_subject, contour_id, event_queue, bbox, false);\n    }\n}")], {'C09': 'B-acc'}),
    B('interiors-helper-correct', ['C09', 'C13', 'C07', 'C05'], [(FQ, "    for polygon in clipping {\n        let exterior = operation != Operation::Difference;\n        if exterior {\n            contour_id += 1;\n        }\n        process_polygon(polygon.exterior(), false, contour_id, &mut event_queue, cbbox, exterior);\n        for interior in polygon.interiors() {\n            process_polygon(interior, false, contour_id, &mut event_queue, cbbox, false);\n        }\n    }\n\n    event_queue\n}", "    for polygon in clipping {\n        let exterior = operation != Operation::Difference;\n        if exterior {\n            contour_id += 1;\n        }\n        process_polygon(polygon.exterior(), false, contour_id, &mut event_queue, cbbox, exterior);\n        process_interiors(polygon, false, contour_id, &mut event_queue, cbbox);\n    }\n    event_queue\n}\n\nfn process_interiors<F: Float>(\n    polygon: &Polygon<F>,\n    is_subject: bool,\n    contour_id: u32,\n    event_queue: &mut BinaryHeap<Rc<SweepEvent<F>>>,\n    bbox: &mut BoundingBox<F>,\n) {\n    for interior in polygon.interiors() {\n        process_polygon(interior, is_subject, contour_id, event_queue, bbox, false);\n    }\n}")]),
    # ---- "extract helper" refactors: the explorer expands helpers that no rule knows by name
    B('extract-propagate-helper', ['C14', 'C01', 'C04'], [(CF, """        if event.is_subject == prev.is_subject {
            if prev.is_vertical() {
                // The region right of a vertical edge is its "below" side: nothing is crossed yet.
                event.set_in_out(prev.is_in_out(), prev.is_other_in_out());
            } else {
                event.set_in_out(!prev.is_in_out(), prev.is_other_in_out());
            }
        } else if prev.is_vertical() {
            event.set_in_out(!prev.is_other_in_out(), !prev.is_in_out());
        } else {
            event.set_in_out(!prev.is_other_in_out(), prev.is_in_out());
        }""", "        propagate_flags(event, prev);"), (CF, "fn in_result<F>(event: &SweepEvent<F>, operation: Operation) -> bool", """fn propagate_flags<F: Float>(event: &SweepEvent<F>, prev: &SweepEvent<F>) {
    let own = if prev.is_vertical() { prev.is_in_out() } else { !prev.is_in_out() };
    if event.is_subject == prev.is_subject {
        event.set_in_out(own, prev.is_other_in_out());
    } else {
        event.set_in_out(!prev.is_other_in_out(), !own);
    }
}

fn in_result<F>(event: &SweepEvent<F>, operation: Operation) -> bool""")]),
    B('extract-normal-selection-helper', ['C01', 'C14', 'C05', 'C06'], [(CF, """        EdgeType::Normal => match operation {
            Operation::Intersection => !event.is_other_in_out(),
            Operation::Union => event.is_other_in_out(),
            Operation::Difference => {
                (event.is_subject && event.is_other_in_out()) || (!event.is_subject && !event.is_other_in_out())
            }
            Operation::Xor => true,
        },""", "        EdgeType::Normal => normal_edge_selected(event.is_subject, event.is_other_in_out(), operation),"), (CF, "fn determine_result_transition<F>(event: &SweepEvent<F>, operation: Operation) -> ResultTransition", """fn normal_edge_selected(is_subject: bool, other_out: bool, operation: Operation) -> bool {
    match operation {
        Operation::Intersection => !other_out,
        Operation::Union => other_out,
        Operation::Difference => is_subject == other_out,
        Operation::Xor => true,
    }
}

fn determine_result_transition<F>(event: &SweepEvent<F>, operation: Operation) -> ResultTransition""")]),
    B('extract-touches-helper', ['C16', 'C13', 'C04'], [(PI, """            if se1.point != inter && other1.point != inter {
                divide_segment(se1, inter, queue);
            }
            if se2.point != inter && other2.point != inter {
                divide_segment(se2, inter, queue);
            }""", """            if !ends_at(se1, &other1, inter) {
                divide_segment(se1, inter, queue);
            }
            if !ends_at(se2, &other2, inter) {
                divide_segment(se2, inter, queue);
            }"""), (PI, "pub fn possible_intersection<F>(", """fn ends_at<F: Float>(left: &Rc<SweepEvent<F>>, right: &Rc<SweepEvent<F>>, p: geo_types::Coord<F>) -> bool {
    if left.point == p {
        return true;
    }
    right.point == p
}

pub fn possible_intersection<F>(""")]),
    B('order-events-std-sort-full-order', ['C02', 'C15'], [(CE, "    let mut sorted = false;\n    while !sorted {\n        sorted = true;\n        for i in 1..result_events.len() {\n            if result_events[i - 1] < result_events[i] {\n                result_events.swap(i - 1, i);\n                sorted = false;\n            }\n        }\n    }", "    result_events.sort_by(|a, b| b.cmp(a));")]),
    M('order-events-std-sort-ascending', ['C02', 'C15'], [(CE, "    let mut sorted = false;\n    while !sorted {\n        sorted = true;\n        for i in 1..result_events.len() {\n            if result_events[i - 1] < result_events[i] {\n                result_events.swap(i - 1, i);\n                sorted = false;\n            }\n        }\n    }", "    result_events.sort_by(|a, b| a.cmp(b));")], {'C02': 'T-walk-order', 'C15': 'O-consumers'}),
    # ---- precompute_iteration_order (T-vertex-cycle)
    M('cycle-last-R-to-first-L', ['C02', 'C04'], [(CE, "                map[r_upto] = l_upto_exclusive - 1;", "                map[r_upto] = l_from;")], {'C02': 'T-vertex-cycle'}),
    M('cycle-L-chain-upwards', ['C02'], [(CE, "                map[j] = j - 1;", "                map[j] = j + 1;")], {'C02': 'T-vertex-cycle'}),
    M('cycle-first-L-to-last-R', ['C02', 'C04'], [(CE, "                map[l_from] = r_from;", "                map[l_from] = r_upto_exclusive - 1;")], {'C02': 'T-vertex-cycle'}),
    M('cycle-R-scan-ignores-kind', ['C02'], [(CE, "        while i < data.len() && is_identical(x_ref, &data[i]) && !is_left(&data[i]) {", "        while i < data.len() && is_identical(x_ref, &data[i]) && !is_left(x_ref) {")], {'C02': 'T-vertex-cycle'}),
    B('cycle-bind-last-indices', ['C02', 'C04'], [(CE, "            if has_l_events {\n                map[r_upto] = l_upto_exclusive - 1;\n            } else {\n                map[r_upto] = r_from;\n            }", "            map[r_upto] = if has_l_events { l_upto_exclusive - 1 } else { r_from };")]),
    # ---- walk exits (T-walk exit clause)
    M('walk-exit-exterior-only', ['C04', 'C02'], [(CE, "            if result_events[pos as usize].point == initial {\n                break;\n            }\n        }", "            if contour.is_exterior() && result_events[pos as usize].point == initial {\n                break;\n            }\n        }")], {'C04': 'T-walk'}),
    M('walk-exit-never-early', ['C04'], [(CE, "            if result_events[pos as usize].point == initial {\n                break;\n            }\n        }", "            if result_events[pos as usize].point == initial && false {\n                break;\n            }\n        }")], {'C04': 'T-walk'}),
    B('walk-exit-ne-form', ['C04', 'C02'], [(CE, "            if result_events[pos as usize].point == initial {\n                break;\n            }\n        }", "            if result_events[pos as usize].point != initial {\n                continue;\n            }\n            break;\n        }")]),
    # ---- in-order preservation (M-inorder)
    M('remove-join-without-splay', ['C17'], [(TR, "                splay(key, &mut node, &self.comparator);\n                node.right = right;", "                node.right = right;")], {'C17': 'M-inorder'}),
    M('insert-less-old-root-left', ['C17'], [(TR, "                        root.right = Some(prev);", "                        root.left = Some(prev);")], {'C17': 'M-inorder'}),
    M('zigzig-no-subtree-handover', ['C17'], [(TR, "                        mem::swap(&mut node.left, &mut left.right);\n", "")], {'C17': 'M-inorder'}),
    M('intoiter-next-drops-inner-subtree', ['C17'], [(TR, "                    cur.left = node.pop_right();\n", "")], {'C17': 'M-inorder'}),
    M('splay-link-slot-outer-end', ['C17'], [(TR, "                    r = &mut tmp.as_mut().unwrap().left;", "                    r = &mut tmp.as_mut().unwrap().right;")], {'C17': 'M-inorder'}),
    B('insert-less-bind-new-first', ['C17'], [(TR, "                        let prev = mem::replace(root, new);\n                        root.right = Some(prev);", "                        let old_root = mem::replace(root, new);\n                        let slot = &mut root.right;\n                        *slot = Some(old_root);")]),
    # ---- exact algebra of the reported intersection point (I-algebra)
    M('midpoint-y-uses-dx', ['C16', 'C04'], [(SI, "        y: p.y + s * d.y,\n    }\n}", "        y: p.y + s * d.x,\n    }\n}")], {'C16': 'I-algebra'}),
    M('cross-product-plus', ['C16'], [(SI, "    a.x * b.y - a.y * b.x", "    a.x * b.y + a.y * b.x")], {'C16': 'I-algebra'}),
    M('e-vector-reversed', ['C16', 'C04'], [(SI, "        x: b1.x - a1.x,\n        y: b1.y - a1.y,", "        x: a1.x - b1.x,\n        y: a1.y - b1.y,")], {'C16': 'I-algebra'}),
    M('sb-from-vb-squared', ['C16'], [(SI, "    let sb = sa + dot_product(va, vb) / sqr_len_a;", "    let sb = sa + dot_product(vb, vb) / sqr_len_a;")], {'C16': 'I-algebra'}),
    M('t-point-on-a', ['C16'], [(SI, "            return LineIntersection::Point(mid_point(b1, t, vb));", "            return LineIntersection::Point(mid_point(a1, t, va));")], {'C16': 'I-algebra'}),
    B('midpoint-lerp-form', ['C16', 'C04', 'C08'], [(SI, "        x: p.x + s * d.x,\n        y: p.y + s * d.y,\n    }\n}", "        x: d.x * s + p.x,\n        y: d.y * s + p.y,\n    }\n}")]),
    B('cross-product-commuted', ['C16', 'C04', 'C10'], [(SI, "    a.x * b.y - a.y * b.x", "    b.y * a.x - b.x * a.y")]),
    # ---- membership tests and splay exits (M-lookup)
    M('find_key-accepts-not-greater', ['C17'], [(TR, "                if (self.comparator)(key, &root.key) == Ordering::Equal {\n                    Some(&root.key)", "                if (self.comparator)(key, &root.key) != Ordering::Greater {\n                    Some(&root.key)")], {'C17': 'M-lookup'}),
    M('get_mut-no-splay', ['C17'], [(TR, "                splay(key, root, &self.comparator);\n                if (self.comparator)(key, &root.key) == Ordering::Equal {\n                    Some(&mut root.value)", "                if (self.comparator)(key, &root.key) == Ordering::Equal {\n                    Some(&mut root.value)")], {'C17': 'M-lookup'}),
    M('remove-membership-inverted', ['C17'], [(TR, "                if (self.comparator)(key, &root.key) != Ordering::Equal {\n                    return None;", "                if (self.comparator)(key, &root.key) == Ordering::Less {\n                    return None;")], {'C17': 'M-lookup'}),
    M('splay-stops-after-zigzig-mismatch', ['C17'], [(TR, "                    if comparator(key, &left.key) == Ordering::Less {", "                    if comparator(key, &left.key) == Ordering::Greater {\n                        break;\n                    }\n                    if comparator(key, &left.key) == Ordering::Less {")], {'C17': 'M-'}),
    B('find_key-match-form', ['C17'], [(TR, "                if (self.comparator)(key, &root.key) == Ordering::Equal {\n                    Some(&root.key)\n                } else {\n                    None\n                }", "                match (self.comparator)(key, &root.key) {\n                    Ordering::Equal => Some(&root.key),\n                    _ => None,\n                }")]),
    M('set-intoiter-next_back-calls-next', ['C17'], [(ST, "        self.inner.next_back().map(|(k, _)| k)", "        self.inner.next().map(|(k, _)| k)")], {'C17': 'M-mirror'}),
    M('set-min-calls-max', ['C17'], [(ST, "        self.tree.min()\n", "        self.tree.max()\n")], {'C17': 'M-mirror'}),
    M('tree-max-uses-min_node', ['C17'], [(TR, "        self.max_node().map(|node| &node.key)", "        self.min_node().map(|node| &node.key)")], {'C17': 'M-'}),
    # ---- both operand loops folded into one helper with a loop (seed s49 without the static)
    B('queue-polygons-helper', ['C01', 'C05', 'C06', 'C07', 'C09', 'C13', 'C12', 'C03'], [(FQ, '    for polygon in subject {\n        contour_id += 1;\n        process_polygon(polygon.exterior(), true, contour_id, &mut event_queue, sbbox, true);\n        for interior in polygon.interiors() {\n            process_polygon(interior, true, contour_id, &mut event_queue, sbbox, false);\n        }\n    }\n\n    for polygon in clipping {\n        let exterior = operation != Operation::Difference;\n        if exterior {\n            contour_id += 1;\n        }\n        process_polygon(polygon.exterior(), false, contour_id, &mut event_queue, cbbox, exterior);\n        for interior in polygon.interiors() {\n            process_polygon(interior, false, contour_id, &mut event_queue, cbbox, false);\n        }\n    }\n\n    event_queue\n}\n', '    queue_polygons(subject, true, true, &mut contour_id, &mut event_queue, sbbox);\n    queue_polygons(clipping, false, operation != Operation::Difference, &mut contour_id, &mut event_queue, cbbox);\n\n    event_queue\n}\n\nfn queue_polygons<F>(\n    polygons: &[Polygon<F>],\n    is_subject: bool,\n    exterior: bool,\n    contour_id: &mut u32,\n    event_queue: &mut BinaryHeap<Rc<SweepEvent<F>>>,\n    bbox: &mut BoundingBox<F>,\n) where\n    F: Float,\n{\n    for polygon in polygons {\n        if exterior {\n            *contour_id += 1;\n        }\n        process_polygon(polygon.exterior(), is_subject, *contour_id, event_queue, bbox, exterior);\n        for interior in polygon.interiors() {\n            process_polygon(interior, is_subject, *contour_id, event_queue, bbox, false);\n        }\n    }\n}\n')]),
    M('queue-polygons-helper-wrong-box', ['C05', 'C09'], [(FQ, '    for polygon in subject {\n        contour_id += 1;\n        process_polygon(polygon.exterior(), true, contour_id, &mut event_queue, sbbox, true);\n        for interior in polygon.interiors() {\n            process_polygon(interior, true, contour_id, &mut event_queue, sbbox, false);\n        }\n    }\n\n    for polygon in clipping {\n        let exterior = operation != Operation::Difference;\n        if exterior {\n            contour_id += 1;\n        }\n        process_polygon(polygon.exterior(), false, contour_id, &mut event_queue, cbbox, exterior);\n        for interior in polygon.interiors() {\n            process_polygon(interior, false, contour_id, &mut event_queue, cbbox, false);\n        }\n    }\n\n    event_queue\n}\n', '    queue_polygons(subject, true, true, &mut contour_id, &mut event_queue, sbbox);\n    queue_polygons(clipping, false, operation != Operation::Difference, &mut contour_id, &mut event_queue, sbbox);\n\n    event_queue\n}\n\nfn queue_polygons<F>(\n    polygons: &[Polygon<F>],\n    is_subject: bool,\n    exterior: bool,\n    contour_id: &mut u32,\n    event_queue: &mut BinaryHeap<Rc<SweepEvent<F>>>,\n    bbox: &mut BoundingBox<F>,\n) where\n    F: Float,\n{\n    for polygon in polygons {\n        if exterior {\n            *contour_id += 1;\n        }\n        process_polygon(polygon.exterior(), is_subject, *contour_id, event_queue, bbox, exterior);\n        for interior in polygon.interiors() {\n            process_polygon(interior, is_subject, *contour_id, event_queue, bbox, false);\n        }\n    }\n}\n')], {'C05': 'B-acc'}),
    # ---- batch of behaviour-preserving rewrites of compute_fields.rs
    B('cf-hoist-vertical', ['C01', 'C02', 'C04', 'C14', 'C05'], [(CF, """        if event.is_subject == prev.is_subject {
            if prev.is_vertical() {""", """        let prev_vertical = prev.is_vertical();
        if event.is_subject == prev.is_subject {
            if prev_vertical {"""), (CF, "        } else if prev.is_vertical() {\n            event.set_in_out(!prev.is_other_in_out(), !prev.is_in_out());", "        } else if prev_vertical {\n            event.set_in_out(!prev.is_other_in_out(), !prev.is_in_out());"), (CF, "        if prev.is_in_result() && !prev.is_vertical() {", "        if prev.is_in_result() && !prev_vertical {")]),
    B('cf-difference-eq-form', ['C01', 'C05', 'C06', 'C14', 'C04'], [(CF, "                (event.is_subject && event.is_other_in_out()) || (!event.is_subject && !event.is_other_in_out())", "                event.is_subject == event.is_other_in_out()")]),
    B('cf-transition-match-bool', ['C01', 'C02', 'C14', 'C05'], [(CF, "    if is_in {\n        ResultTransition::OutIn\n    } else {\n        ResultTransition::InOut\n    }", "    match is_in {\n        true => ResultTransition::OutIn,\n        false => ResultTransition::InOut,\n    }")]),
    B('cf-result-transition-positive-if', ['C01', 'C02', 'C14', 'C05', 'C04'], [(CF, "    let in_result = in_result(event, operation);\n    let result_transition = if !in_result {\n        ResultTransition::None\n    } else {\n        determine_result_transition(event, operation)\n    };", "    let result_transition = if in_result(event, operation) {\n        determine_result_transition(event, operation)\n    } else {\n        ResultTransition::None\n    };")]),
    B('cf-same-transition-matches', ['C01', 'C05', 'C06', 'C14'], [(CF, "        EdgeType::SameTransition => operation == Operation::Intersection || operation == Operation::Union,", "        EdgeType::SameTransition => matches!(operation, Operation::Intersection | Operation::Union),")]),
    B('cf-xor-ne', ['C01', 'C02', 'C05', 'C14'], [(CF, "        Operation::Xor => this_in ^ that_in,", "        Operation::Xor => this_in != that_in,")]),
    # ---- batch of behaviour-preserving rewrites of subdivide_segments.rs
    B('sd-break-named-bools', ['C05', 'C09', 'C13', 'C06', 'C14'], [(SD, '        if operation == Operation::Intersection && event.point.x > rightbound\n            || operation == Operation::Difference && event.point.x > sbbox.max.x\n        {\n            break;\n        }\n', """        let past_both = event.point.x > rightbound;
        let past_subject = event.point.x > sbbox.max.x;
        if operation == Operation::Intersection && past_both || operation == Operation::Difference && past_subject {
            break;
        }
""")]),
    B('sd-break-match-operation', ['C05', 'C09', 'C13', 'C06', 'C14'], [(SD, '        if operation == Operation::Intersection && event.point.x > rightbound\n            || operation == Operation::Difference && event.point.x > sbbox.max.x\n        {\n            break;\n        }\n', """        let stop = match operation {
            Operation::Intersection => event.point.x > rightbound,
            Operation::Difference => event.point.x > sbbox.max.x,
            _ => false,
        };
        if stop {
            break;
        }
""")]),
    B('sd-loop-match-pop', ['C05', 'C09', 'C13', 'C06', 'C14', 'C03', 'C18', 'C12'], [(SD, "    while let Some(event) = event_queue.pop() {", "    loop {\n        let event = match event_queue.pop() {\n            Some(event) => event,\n            None => break,\n        };")]),
    B('sd-post-removal-nested-if-let', ['C13', 'C06', 'C14', 'C09'], [(SD, "                if let (Some(prev), Some(next)) = (maybe_prev, maybe_next) {", "                if let (Some(prev), Some(next)) = (&maybe_prev, &maybe_next) {"), (SD, "                    possible_intersection(&prev, &next, event_queue);", "                    possible_intersection(prev, next, event_queue);")]),
    B('sd-rightbound-if', ['C05', 'C09', 'C13', 'C08', 'C10'], [(SD, "    let rightbound = sbbox.max.x.min(cbbox.max.x);", "    let rightbound = if sbbox.max.x < cbbox.max.x { sbbox.max.x } else { cbbox.max.x };")]),
    B('sd-rc-clone-explicit', ['C13', 'C06', 'C14', 'C09', 'C12'], [(SD, "        sorted_events.push(event.clone());", "        sorted_events.push(Rc::clone(&event));")]),
    # ---- batch of behaviour-preserving rewrites (possible_intersection, divide_segment, connect_edges, process_polygon)
    B('pi-others-two-matches', ['C04', 'C06', 'C13', 'C14', 'C16', 'C03', 'C01'], [('lib/src/boolean/possible_intersection.rs', '    let (other1, other2) = match (se1.get_other_event(), se2.get_other_event()) {\n        (Some(other1), Some(other2)) => (other1, other2),\n        _ => return 0,\n    };\n', '    let other1 = match se1.get_other_event() {\n        Some(other1) => other1,\n        None => return 0,\n    };\n    let other2 = match se2.get_other_event() {\n        Some(other2) => other2,\n        None => return 0,\n    };\n')]),
    B('pi-left-coincide-redundant-flag', ['C04', 'C06', 'C13', 'C14', 'C16', 'C03', 'C01'], [('lib/src/boolean/possible_intersection.rs', '                if left_coincide && !right_coincide {', '                if !right_coincide {')]),
    B('pi-edge-type-let', ['C04', 'C06', 'C13', 'C14', 'C16', 'C03', 'C01'], [('lib/src/boolean/possible_intersection.rs', '                if se1.is_in_out() == se2.is_in_out() {\n                    se1.set_edge_type(EdgeType::SameTransition)\n                } else {\n                    se1.set_edge_type(EdgeType::DifferentTransition)\n                }\n', '                let twin_type = if se1.is_in_out() == se2.is_in_out() {\n                    EdgeType::SameTransition\n                } else {\n                    EdgeType::DifferentTransition\n                };\n                se1.set_edge_type(twin_type);\n')]),
    B('pi-events-with-capacity', ['C04', 'C06', 'C13', 'C14', 'C16', 'C03', 'C01'], [('lib/src/boolean/possible_intersection.rs', '            let mut events = Vec::new();', '            let mut events = Vec::with_capacity(4);')]),
    B('pi-flags-from-comparisons', ['C04', 'C06', 'C13', 'C14', 'C16', 'C03', 'C01'], [('lib/src/boolean/possible_intersection.rs', '            let mut left_coincide = false;\n            let mut right_coincide = false;\n\n            if se1.point == se2.point {\n                left_coincide = true\n            } else if se1 < se2 {', '            let left_coincide = se1.point == se2.point;\n            let right_coincide = other1.point == other2.point;\n\n            if left_coincide {\n            } else if se1 < se2 {'), ('lib/src/boolean/possible_intersection.rs', '            if other1.point == other2.point {\n                right_coincide = true\n            } else if other1 < other2 {', '            if right_coincide {\n            } else if other1 < other2 {')]),
    B('ds-push-order-swapped', ['C04', 'C13', 'C16', 'C03', 'C08'], [('lib/src/boolean/divide_segment.rs', '    queue.push(l);\n    queue.push(r);', '    queue.push(r);\n    queue.push(l);')]),
    B('ds-if-let-other', ['C04', 'C13', 'C16', 'C03', 'C08'], [('lib/src/boolean/divide_segment.rs', '    let se_r = match se_l.get_other_event() {\n        Some(se) => se,\n        None => return,\n    };', '    let se_r = if let Some(se) = se_l.get_other_event() {\n        se\n    } else {\n        return;\n    };')]),
    B('ds-links-before-swap-test', ['C04', 'C13', 'C16', 'C03', 'C08'], [('lib/src/boolean/divide_segment.rs', '    if !l.is_before(&se_r) {\n        se_r.set_left(true);\n        l.set_left(false);\n    }\n\n    se_l.set_other_event(&r);\n    se_r.set_other_event(&l);\n', '    se_l.set_other_event(&r);\n    se_r.set_other_event(&l);\n\n    if !l.is_before(&se_r) {\n        se_r.set_left(true);\n        l.set_left(false);\n    }\n')]),
    B('ce-order-events-filter-collect', ['C02', 'C04', 'C01', 'C03', 'C12', 'C15'], [('lib/src/boolean/connect_edges.rs', '    let mut result_events: Vec<Rc<SweepEvent<F>>> = Vec::new();\n\n    for event in sorted_events {\n        if (event.is_left() && event.is_in_result())\n            || (!event.is_left() && event.get_other_event().map(|o| o.is_in_result()).unwrap_or(false))\n        {\n            result_events.push(event.clone());\n        }\n    }\n', '    let mut result_events: Vec<Rc<SweepEvent<F>>> = sorted_events\n        .iter()\n        .filter(|event| {\n            (event.is_left() && event.is_in_result())\n                || (!event.is_left() && event.get_other_event().map(|o| o.is_in_result()).unwrap_or(false))\n        })\n        .cloned()\n        .collect();\n')]),
    B('ce-walk-match-inline', ['C02', 'C04', 'C01', 'C03', 'C12', 'C15'], [('lib/src/boolean/connect_edges.rs', '            let next_pos_opt = get_next_pos(pos, &processed, &iteration_map);\n            match next_pos_opt {', '            match get_next_pos(pos, &processed, &iteration_map) {')]),
    B('ce-map_or-form', ['C02', 'C04', 'C01', 'C03', 'C12', 'C15'], [('lib/src/boolean/connect_edges.rs', 'event.get_other_event().map(|o| o.is_in_result()).unwrap_or(false))', 'event.get_other_event().map_or(false, |o| o.is_in_result()))')]),
    B('ce-other-pos-two-lets', ['C02', 'C04', 'C01', 'C03', 'C12', 'C15'], [('lib/src/boolean/connect_edges.rs', '                let (a, b) = (event.get_other_pos(), other.get_other_pos());', '                let a = event.get_other_pos();\n                let b = other.get_other_pos();')]),
    B('ce-outer-loop-usize', ['C02', 'C04', 'C01', 'C03', 'C12', 'C15'], [('lib/src/boolean/connect_edges.rs', '    for i in 0..(result_events.len() as i32) {\n        if processed.contains(&i) {', '    for i in 0..result_events.len() {\n        let i = i as i32;\n        if processed.contains(&i) {')]),
    B('ce-init-early-return', ['C02', 'C04', 'C01', 'C03', 'C12', 'C15'], [('lib/src/boolean/connect_edges.rs', '        if let Some(prev_in_result) = event.get_prev_in_result() {', '        let prev_in_result = match event.get_prev_in_result() {\n            Some(prev_in_result) => prev_in_result,\n            // There is no lower/previous contour => this contour is an exterior contour of depth 0.\n            None => return Contour::new(None, 0),\n        };\n        {'), ('lib/src/boolean/connect_edges.rs', '        } else {\n            // There is no lower/previous contour => this contour is an exterior contour of depth 0.\n            Contour::new(None, 0)\n        }\n    }\n', '        }\n    }\n')]),
    B('pp-bind-start-end', ['C04', 'C07', 'C13', 'C06', 'C09', 'C08', 'C03'], [('lib/src/boolean/fill_queue.rs', '        if line.start == line.end {\n            continue; // skip collapsed edges\n        }', '        let (start, end) = (line.start, line.end);\n        if start == end {\n            continue; // skip collapsed edges\n        }')]),
    B('pp-left-flag-via-ref', ['C04', 'C07', 'C13', 'C06', 'C09', 'C08', 'C03'], [('lib/src/boolean/fill_queue.rs', '        if e1 < e2 {\n            e2.set_left(true)\n        } else {\n            e1.set_left(true)\n        }\n', '        let left = if e1 < e2 { &e2 } else { &e1 };\n        left.set_left(true);\n')]),
    B('pp-bbox-before-events', ['C04', 'C07', 'C13', 'C06', 'C09', 'C08', 'C03'], [('lib/src/boolean/fill_queue.rs', '        bbox.min.x = bbox.min.x.min(line.start.x);\n        bbox.min.y = bbox.min.y.min(line.start.y);\n        bbox.max.x = bbox.max.x.max(line.start.x);\n        bbox.max.y = bbox.max.y.max(line.start.y);\n\n        event_queue.push(e1);', '        event_queue.push(e1);'), ('lib/src/boolean/fill_queue.rs', '        let e1 = SweepEvent::new_rc(contour_id, line.start, false, Weak::new(), is_subject, is_exterior_ring);', '        bbox.min.x = bbox.min.x.min(line.start.x);\n        bbox.min.y = bbox.min.y.min(line.start.y);\n        bbox.max.x = bbox.max.x.max(line.start.x);\n        bbox.max.y = bbox.max.y.max(line.start.y);\n\n        let e1 = SweepEvent::new_rc(contour_id, line.start, false, Weak::new(), is_subject, is_exterior_ring);')]),
    B('pp-push-order', ['C04', 'C07', 'C13', 'C06', 'C09', 'C08', 'C03'], [('lib/src/boolean/fill_queue.rs', '        event_queue.push(e1);\n        event_queue.push(e2);', '        event_queue.push(e2);\n        event_queue.push(e1);')]),
    B('pp-skip-by-filter', ['C04', 'C07', 'C13', 'C06', 'C09', 'C08', 'C03'], [('lib/src/boolean/fill_queue.rs', '    for line in contour_or_hole.lines() {\n        if line.start == line.end {\n            continue; // skip collapsed edges\n        }\n', '    for line in contour_or_hole.lines().filter(|line| line.start != line.end) {\n')]),
    M('ce-filter-collect-dead-other-selected', ['C02', 'C04'], [('lib/src/boolean/connect_edges.rs', '    let mut result_events: Vec<Rc<SweepEvent<F>>> = Vec::new();\n\n    for event in sorted_events {\n        if (event.is_left() && event.is_in_result())\n            || (!event.is_left() && event.get_other_event().map(|o| o.is_in_result()).unwrap_or(false))\n        {\n            result_events.push(event.clone());\n        }\n    }\n', '    let mut result_events: Vec<Rc<SweepEvent<F>>> = sorted_events\n        .iter()\n        .filter(|event| {\n            (event.is_left() && event.is_in_result())\n                || (!event.is_left() && event.get_other_event().map(|o| o.is_in_result()).unwrap_or(true))\n        })\n        .cloned()\n        .collect();\n')], {'C02': 'T-result-events'}),
    M('pp-filter-skips-vertical-edges', ['C04', 'C13'], [('lib/src/boolean/fill_queue.rs', '    for line in contour_or_hole.lines() {\n        if line.start == line.end {\n            continue; // skip collapsed edges\n        }\n', '    for line in contour_or_hole.lines().filter(|line| line.start.x != line.end.x) {\n')], {'C04': 'W-collapsed'}),
    # ---- batch of behaviour-preserving rewrites (sweep_event, compare_segments, helper, signed_area)
    B('se-is_below-bind-points', ['C15', 'C14', 'C01', 'C08', 'C10', 'C03', 'C13'], [('lib/src/boolean/sweep_event.rs', '            if self.is_left() {\n                signed_area(self.point, other_event.point, p) > 0.\n            } else {\n                signed_area(other_event.point, self.point, p) > 0.\n            }', '            let (a, b) = if self.is_left() {\n                (self.point, other_event.point)\n            } else {\n                (other_event.point, self.point)\n            };\n            signed_area(a, b, p) > 0.')]),
    B('se-is_vertical-map_or', ['C15', 'C14', 'C01', 'C08', 'C10', 'C03', 'C13'], [('lib/src/boolean/sweep_event.rs', '        match self.get_other_event() {\n            Some(ref other_event) => self.point.x == other_event.point.x,\n            None => false,\n        }', '        self.get_other_event().map_or(false, |other_event| self.point.x == other_event.point.x)')]),
    B('se-cmp-else-if-chain', ['C15', 'C14', 'C01', 'C08', 'C10', 'C03', 'C13'], [('lib/src/boolean/sweep_event.rs', '        if p1.x > p2.x {\n            return Ordering::Less;\n        }\n        if p1.x < p2.x {\n            return Ordering::Greater;\n        }\n        if p1.y > p2.y {\n            return Ordering::Less;\n        }\n        if p1.y < p2.y {\n            return Ordering::Greater;\n        }\n', '        if p1.x > p2.x {\n            return Ordering::Less;\n        } else if p1.x < p2.x {\n            return Ordering::Greater;\n        } else if p1.y > p2.y {\n            return Ordering::Less;\n        } else if p1.y < p2.y {\n            return Ordering::Greater;\n        }\n')]),
    B('se-is_before-via-cmp', ['C15', 'C14', 'C01', 'C08', 'C10', 'C03', 'C13'], [('lib/src/boolean/sweep_event.rs', '        self > other\n', '        self.cmp(other) == Ordering::Greater\n')]),
    B('se-cmp-left-differs-xor', ['C15', 'C14', 'C01', 'C08', 'C10', 'C03', 'C13'], [('lib/src/boolean/sweep_event.rs', '        if self.is_left() != other.is_left() {', '        if self.is_left() ^ other.is_left() {')]),
    B('se-is_above-direct', ['C15', 'C14', 'C01', 'C08', 'C10', 'C03', 'C13'], [('lib/src/boolean/sweep_event.rs', '        !self.is_below(p)\n', '        let below = self.is_below(p);\n        !below\n')]),
    B('cs-swap-flag', ['C15', 'C13', 'C14', 'C03', 'C12', 'C08', 'C10'], [('lib/src/boolean/compare_segments.rs', '    let (se_old_l, se_new_l, less_if) = if se1_l.is_before(se2_l) {\n        (se1_l, se2_l, helper::less_if as fn(bool) -> Ordering)\n    } else {\n        (se2_l, se1_l, helper::less_if_inversed as fn(bool) -> Ordering)\n    };\n', '    let in_order = se1_l.is_before(se2_l);\n    let (se_old_l, se_new_l) = if in_order { (se1_l, se2_l) } else { (se2_l, se1_l) };\n    let less_if = if in_order {\n        helper::less_if as fn(bool) -> Ordering\n    } else {\n        helper::less_if_inversed as fn(bool) -> Ordering\n    };\n')]),
    B('cs-point-arm-single-return', ['C15', 'C13', 'C14', 'C03', 'C12', 'C08', 'C10'], [('lib/src/boolean/compare_segments.rs', '                LineIntersection::Point(p) => {\n                    if p == se_new_l.point {\n                        return less_if(sa_r > 0.);\n                    } else {\n                        return less_if(sa_l > 0.);\n                    }\n                }', '                LineIntersection::Point(p) => {\n                    return less_if(if p == se_new_l.point { sa_r > 0. } else { sa_l > 0. });\n                }')]),
    B('cs-same-side-xor-form', ['C15', 'C13', 'C14', 'C03', 'C12', 'C08', 'C10'], [('lib/src/boolean/compare_segments.rs', '            if (sa_l > 0.) == (sa_r > 0.) {', '            if !((sa_l > 0.) ^ (sa_r > 0.)) {')]),
    B('cs-collinear-test-demorgan', ['C15', 'C13', 'C14', 'C03', 'C12', 'C08', 'C10'], [('lib/src/boolean/compare_segments.rs', '        if sa_l != 0. || sa_r != 0. {', '        if !(sa_l == 0. && sa_r == 0.) {')]),
    B('hp-less_if-match', ['C15', 'C13', 'C14'], [('lib/src/boolean/helper.rs', 'pub fn less_if(condition: bool) -> Ordering {\n    if condition {\n        Ordering::Less\n    } else {\n        Ordering::Greater\n    }\n}', 'pub fn less_if(condition: bool) -> Ordering {\n    match condition {\n        true => Ordering::Less,\n        false => Ordering::Greater,\n    }\n}')]),
    B('hp-less_if_inversed-via-less_if', ['C15', 'C13', 'C14'], [('lib/src/boolean/helper.rs', 'pub fn less_if_inversed(condition: bool) -> Ordering {\n    if condition {\n        Ordering::Greater\n    } else {\n        Ordering::Less\n    }\n}', 'pub fn less_if_inversed(condition: bool) -> Ordering {\n    less_if(!condition)\n}')]),
    B('sa-inline-robust-coords', ['C15', 'C10', 'C08', 'C14', 'C12'], [('lib/src/boolean/signed_area.rs', '    orient2d(coord_to_robust(p0), coord_to_robust(p1), coord_to_robust(p2))', '    let (a, b, c) = (coord_to_robust(p0), coord_to_robust(p1), coord_to_robust(p2));\n    orient2d(a, b, c)')]),
    # ---- batch of behaviour-preserving rewrites (mod.rs)
    B('mod-disjoint-named', ['C01', 'C02', 'C04', 'C06', 'C09', 'C05', 'C07', 'C03', 'C12'], [('lib/src/boolean/mod.rs', '    if sbbox.min.x > cbbox.max.x || cbbox.min.x > sbbox.max.x || sbbox.min.y > cbbox.max.y || cbbox.min.y > sbbox.max.y\n    {\n        return trivial_result(subject, clipping, operation);\n    }', '    let disjoint =\n        sbbox.min.x > cbbox.max.x || cbbox.min.x > sbbox.max.x || sbbox.min.y > cbbox.max.y || cbbox.min.y > sbbox.max.y;\n    if disjoint {\n        return trivial_result(subject, clipping, operation);\n    }')]),
    B('mod-holes-map-collect', ['C01', 'C02', 'C04', 'C06', 'C09', 'C05', 'C07', 'C03', 'C12'], [('lib/src/boolean/mod.rs', '            let mut interios: Vec<LineString<F>> = Vec::new();\n            for hole_id in &contour.hole_ids {\n                interios.push(LineString(contours[*hole_id as usize].points.clone()));\n            }\n', '            let interios: Vec<LineString<F>> = contour\n                .hole_ids\n                .iter()\n                .map(|hole_id| LineString(contours[*hole_id as usize].points.clone()))\n                .collect();\n')]),
    B('mod-polygons-for-loop', ['C01', 'C02', 'C04', 'C06', 'C09', 'C05', 'C07', 'C03', 'C12'], [('lib/src/boolean/mod.rs', '    let polygons: Vec<Polygon<F>> = contours\n        .iter()\n        .filter(|contour| contour.is_exterior())\n        .map(|contour| {\n            let exterior = LineString(contour.points.clone());\n            let mut interios: Vec<LineString<F>> = Vec::new();\n            for hole_id in &contour.hole_ids {\n                interios.push(LineString(contours[*hole_id as usize].points.clone()));\n            }\n            Polygon::new(exterior, interios)\n        })\n        .collect();\n', '    let mut polygons: Vec<Polygon<F>> = Vec::new();\n    for contour in &contours {\n        if !contour.is_exterior() {\n            continue;\n        }\n        let exterior = LineString(contour.points.clone());\n        let mut interios: Vec<LineString<F>> = Vec::new();\n        for hole_id in &contour.hole_ids {\n            interios.push(LineString(contours[*hole_id as usize].points.clone()));\n        }\n        polygons.push(Polygon::new(exterior, interios));\n    }\n')]),
    B('mod-trivial-union-extend', ['C01', 'C02', 'C04', 'C06', 'C09', 'C05', 'C07', 'C03', 'C12'], [('lib/src/boolean/mod.rs', '        Operation::Union | Operation::Xor => MultiPolygon(subject.iter().chain(clipping).cloned().collect()),', '        Operation::Union | Operation::Xor => {\n            let mut all = subject.to_vec();\n            all.extend_from_slice(clipping);\n            MultiPolygon(all)\n        }')]),
    B('mod-infinity-lets', ['C01', 'C02', 'C04', 'C06', 'C09', 'C05', 'C07', 'C03', 'C12'], [('lib/src/boolean/mod.rs', '    let mut sbbox = BoundingBox {\n        min: Coord {\n            x: F::infinity(),\n            y: F::infinity(),\n        },\n        max: Coord {\n            x: F::neg_infinity(),\n            y: F::neg_infinity(),\n        },\n    };', '    let (inf, neg_inf) = (F::infinity(), F::neg_infinity());\n    let mut sbbox = BoundingBox {\n        min: Coord { x: inf, y: inf },\n        max: Coord { x: neg_inf, y: neg_inf },\n    };')]),
    # ---- the geometric atoms (T-atoms)
    M('is_vertical-wrong-axis', ['C14', 'C01'], [(SE, "            Some(ref other_event) => self.point.x == other_event.point.x,", "            Some(ref other_event) => self.point.y == other_event.point.y,")], {'C14': 'T-atoms'}),
    M('is_vertical-true-without-other', ['C14'], [(SE, "            Some(ref other_event) => self.point.x == other_event.point.x,\n            None => false,", "            Some(ref other_event) => self.point.x == other_event.point.x,\n            None => true,")], {'C14': 'T-atoms'}),
]
