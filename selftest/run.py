#!/usr/bin/env python3
"""Validation of the checker itself (not a check of the properties).

Applies each catalogue entry (one-hunk textual edit) to a scratch copy of /repo, runs the named checks against the
copy and asserts: mutants -> exit 1 with a report that mentions the expected rule; benign refactors -> exit 0.
Usage: selftest/run.py [-j N] [--thorough] [--benign] [id-substring ...]
  --thorough  run the checks with --tier thorough (adds the release configuration): benign entries must stay silent there too
  --benign    only the behaviour-preserving entries
"""
import json, os, subprocess, sys, tempfile, shutil, concurrent.futures as cf

V = os.path.dirname(os.path.dirname(os.path.abspath(__file__)))
REPO = '/repo'
sys.path.insert(0, os.path.join(V, 'selftest'))
from catalogue import CATALOGUE   # noqa


TIER_THOROUGH = False


def run_one(m):
    d = tempfile.mkdtemp(prefix='selftest-', dir='/tmp')
    try:
        subprocess.run(['git', '-C', REPO, 'worktree', 'add', '--detach', '-q', d + '/r', 'HEAD'], check=True,
                       stdout=subprocess.DEVNULL, stderr=subprocess.DEVNULL)
        repo = d + '/r'
        for (path, old, new) in m['edits']:
            fp = os.path.join(repo, path)
            t = open(fp).read()
            if t.count(old) != 1:
                return m, 'ERROR', 'edit anchor occurs %d times in %s' % (t.count(old), path), {}
            open(fp, 'w').write(t.replace(old, new))
        res = {}
        env = dict(os.environ, VERIF_REPO=repo, VERIF_EVIDENCE_DIR=d + '/ev', VERIF_REPORT_DIR=d + '/rep')
        verdict = 'OK'
        notes = []
        for pid in m['checks']:
            r = subprocess.run([os.path.join(V, 'check'), pid] + (['--tier', 'thorough'] if TIER_THOROUGH else []), env=env, stdout=subprocess.PIPE, stderr=subprocess.STDOUT, text=True)
            res[pid] = (r.returncode, r.stdout)
            if r.returncode == 2:
                verdict = 'ERROR'
                notes.append('%s: does not build: %s' % (pid, r.stdout[-300:]))
                continue
            if m['kind'] == 'mutant':
                want_rule = m.get('expect', {}).get(pid)
                if r.returncode != 1:
                    verdict = 'MISSED'
                    notes.append('%s stayed silent' % pid)
                elif want_rule and not any(w in r.stdout for w in ([want_rule] if isinstance(want_rule, str) else want_rule)):
                    verdict = 'WRONG-RULE'
                    notes.append('%s fired without naming %s' % (pid, want_rule))
            else:
                if r.returncode != 0:
                    verdict = 'FALSE-ALARM'
                    lines = [l for l in r.stdout.splitlines() if l.startswith('  rule=')][:3]
                    notes.append('%s raised: %s' % (pid, lines))
        return m, verdict, '; '.join(notes), res
    finally:
        subprocess.run(['git', '-C', REPO, 'worktree', 'remove', '--force', d + '/r'], stdout=subprocess.DEVNULL, stderr=subprocess.DEVNULL)
        shutil.rmtree(d, ignore_errors=True)


def main():
    args = sys.argv[1:]
    jobs = 8
    if '-j' in args:
        i = args.index('-j')
        jobs = int(args[i + 1])
        del args[i:i + 2]
    verbose = '-v' in args
    global TIER_THOROUGH
    TIER_THOROUGH = '--thorough' in args
    only_benign = '--benign' in args
    args = [a for a in args if a not in ('-v', '--thorough', '--benign')]
    sel = [m for m in CATALOGUE if (not args or any(a in m['id'] for a in args)) and (not only_benign or m['kind'] == 'benign')]
    bad = 0
    with cf.ThreadPoolExecutor(jobs) as ex:
        for m, verdict, note, res in ex.map(run_one, sel):
            print('%-11s %-7s %-44s %s %s' % (verdict, m['kind'], m['id'], ','.join(m['checks']), note))
            if verbose or verdict not in ('OK',):
                for pid, (rc, out) in res.items():
                    for l in out.splitlines():
                        if l.startswith('  rule=') or l.startswith('ERROR'):
                            print('        %s %s' % (pid, l.strip()))
            if verdict != 'OK':
                bad += 1
    print('%d entries, %d not OK' % (len(sel), bad))
    sys.exit(1 if bad else 0)


if __name__ == '__main__':
    main()
