#!/usr/bin/env python3
"""Regenerates MANIFEST.json from the table below (single source of truth for claims)."""
import json, os
V = os.path.dirname(os.path.abspath(__file__))

CLAIMS = {
    'C12': dict(
        level='proof', technique='effect/state inventory over type-checked MIR (rustc_private driver) + call-graph reachability',
        text='Whole property, modulo the trusted base: every obligation family (operands behind & to Freeze types, unsafe confined '
             'to two shape-checked accessors, no statics/thread-locals, no ambient-effect callee in any body, hash sets used for '
             'membership only, no address-dependent operation, all &mut state local to the call) is discharged on the MIR of the '
             'current tree; zero-count scans are validated against a positive-control crate on every run.',
        note='Trusted: rustc type checker/MIR, std collections and IEEE arithmetic deterministic, std callees outside the banned '
             'module list have no ambient effects. Default feature configuration; debug-booleanop adds println!/File::create (listed in thorough evidence).',
        design='4/C12'),
}

NOT_APPLICABLE = {
    'C11': 'chained-call behaviour is a function of run-time geometry of intermediate results; the only static clause (the return '
           'type is an operand type) is enforced by the compiler and too weak to stand for the property',
}

PENDING = 'static check for this property is being built in this session (see DESIGN.md section 4); not claimed until its check exists'

def main():
    props = [json.loads(l)['id'] for l in open(os.path.join(V, 'properties.jsonl'))]
    checks = []
    for pid in props:
        if pid in CLAIMS:
            c = CLAIMS[pid]
            checks.append({
                'property_id': pid,
                'quick_cmd': './check %s --tier quick' % pid,
                'thorough_cmd': './check %s --tier thorough' % pid,
                'evidence_file': 'evidence/%s.json' % pid,
                'replay_cmd_template': './check %s --tier quick  # re-runs the rule set; the report at {path} names rule, instance, file:line' % pid,
                'engine': 'bofacts+rules',
                'level_claimed': {'category': c['level'], 'text': c['text'], 'design_ref': 'DESIGN.md section ' + c['design']},
                'level_note': c['note'],
                'technique': c['technique'],
            })
    na = [{'property_id': p, 'reason': NOT_APPLICABLE.get(p, PENDING)} for p in props if p not in CLAIMS]
    m = {
        'version': 1,
        'setup_cmd': './setup.sh',
        'hooks': {
            'guard': 'verif_hooks',
            'enable': 'none: static analysis needs no instrumentation; the guard name is reserved and unused',
            'baseline_off_cmd': 'cd /repo && cargo test --workspace --no-fail-fast --offline',
            'source_commits': SOURCE_COMMITS,
            'add_only': True,
        },
        'engines': [
            {'name': 'bofacts', 'path': 'bofacts/', 'serves_properties': sorted(CLAIMS),
             'kind_free_text': 'rustc_private driver (RUSTC_WORKSPACE_WRAPPER under cargo +nightly check, mir-opt-level 0): dumps drop-elaborated MIR with resolved callees, ADT/item/unsafe/drop-glue/type-reach facts as JSON'},
            {'name': 'rules', 'path': 'sa/', 'serves_properties': sorted(CLAIMS),
             'kind_free_text': 'Python rule library over the facts: path-sensitive abstract evaluation of MIR (decision tables, provenance), dominance, call graph with drop glue, inventories with floors and positive controls'},
        ],
        'checks': checks,
        'not_applicable': na,
        'notes': 'Technique family: static analysis only. No check runs library code. See DESIGN.md for what each check decides and what it does not.',
    }
    json.dump(m, open(os.path.join(V, 'MANIFEST.json'), 'w'), indent=1)
    print('MANIFEST.json: %d checks, %d not_applicable' % (len(checks), len(na)))

SOURCE_COMMITS = []

if __name__ == '__main__':
    main()
