#!/usr/bin/env python3
"""Regenerates MANIFEST.json from the table below (single source of truth for claims)."""
import json, os
V = os.path.dirname(os.path.abspath(__file__))

TB = ('Trusted: rustc nightly type checker / MIR construction / callee resolution; the bofacts extractor and the rule code (validated both ways by '
      'selftest/); the oracle tables written down in sa/rules/oracle.py and in the rule modules. ')
TECH_TABLE = 'decision-table extraction from MIR paths (path-sensitive abstract evaluation over finite-domain atoms) compared with set-theoretic oracle tables'
TECH_PROV = 'provenance / must-pass-through checks over symbolic MIR paths (rustc_private driver)'

CLAIMS = {
    'C01': dict(level='other', technique=TECH_TABLE + '; argument provenance of the entry points',
        text='Decides the finite tables through which every output edge is selected (in_result 64 rows, result transition of normal edges, flag '
             'propagation from the predecessor, transitions of coincident twins, the is_vertical atom, trivial-result table), the endpoint guards of the '
             'splitting step, the crossing / parallel / collinear classification and parameter ranges of intersection() (polynomial identities on MIR value trees), the hole/parent cases and polygon assembly, and the plumbing of the 4 impls + 4 default methods into the single routine. '
             'Necessary, not sufficient: membership of a point in an actual output also depends on the float sweep order, which is not decided.',
        note=TB + 'Does not decide regions of actual outputs, sweep order, even-odd clause for self-crossing rings.', design='4/C01'),
    'C02': dict(level='other', technique=TECH_TABLE + '; Fig.4 parent-case table and hole/parent pairing on MIR paths',
        text='Decides the transition table of coincident twins, the four parent cases of Contour::initialize_from_context with the hole_of/hole_ids '
             'pairing, the polygon assembly (exterior filter, rings from own points/hole_ids; closure or loop form), the prev_in_result table, which events '
             'are walked (16-row table), the pairing by other_pos, the per-vertex cycle of precompute_iteration_order (scan steps, bounds, the two predicates handed in), that order_events re-sorts completely (every neighbour pair per pass, repeated until a pass swaps nothing), that every loop of the pipeline runs over its whole input, and the shape, start vertex and exits of the walk. Containment / '
             'disjointness / merging of actual rings is run-time geometry and is not decided.',
        note=TB, design='4/C02'),
    'C03': dict(level='other', technique='call-graph SCC incl. drop glue, RefCell guard live-range analysis, sentinel-index dominance, panic-site inventory with ledger',
        text='Decides: no RefCell borrow can fail (19 sites), no recursion reachable from the API incl. drop glue on teardown paths, no use of the -1 '
             'contour-id sentinel as an index without a sign test (K2 is the listed known finding), constant indices of the local events vector in range; '
             'all other panic-capable sites are an explicit ledger (new sites are reported). Termination, the quadratic event bound and the debug '
             'assertions are NOT decided.',
        note=TB + 'The ledger is an assumption list, not a proof.', design='4/C03'),
    'C04': dict(level='other', technique=TECH_PROV,
        text='Decides coordinate provenance: event points are input line endpoints or the caller-supplied division point; division points are the '
             'clamped payload of intersection() or an existing event point; contour points are result-event points; every reported intersection is '
             'clamped to the common bounding box (clamp table checked); the reported point equals, as an exact rational function of the eight input '
             'coordinates, the intersection of the carrier lines (collinear arm: segment endpoints); divisions are guarded against endpoints; the '
             'walk that turns result events into rings (selection, pairing, vertex cycle, exits). Closedness, area, orientation and '
             'numeric accuracy are not decided.',
        note=TB, design='4/C04'),
    'C05': dict(level='other', technique='oracle-free identities between the extracted decision tables; operation-dependent site inventory',
        text='Decides the cross-operation identities of the selection/transition tables (complementarity, inclusion-exclusion pointwise, equal transition of '
             'same-transition twins under Intersection and Union) and that the '
             'operation influences the sweep only through the listed sites (exterior flag, early break for Intersection/Difference with the right bound); every non-collapsed edge of '
             'every ring becomes exactly one event pair for every operation (no operation-specific cull of edges).',
        note=TB + 'Areas / disjointness of actual outputs are not decided.', design='4/C05'),
    'C06': dict(level='other', technique=TECH_TABLE + '; provenance chain for the empty-operand law',
        text='Decides fully (finite coordinates) the empty-operand and disjoint-boxes laws as a chain of static facts (initial boxes +inf/-inf, boxes '
             'written only per non-collapsed edge, strict 4-comparison shortcut, trivial-result table); table-level symmetry of Intersection/Union/Xor '
             'in is_subject; twin typing. Commutativity / self-operations on actual outputs are not decided.',
        note=TB, design='4/C06'),
    'C07': dict(level='other', technique=TECH_PROV + '; zero-count inventory with control',
        text='Decides: the four trait impls forward (self->subject, rhs->clipping, operation) with whole operands; event creation per edge depends only '
             'on that edge and ring-invariant parameters; exactly the earlier event is flagged left; collapsed edges create nothing; nothing reads ring '
             'orientation. Equality of results across representations is not decided.',
        note=TB, design='4/C07'),
    'C08': dict(level='proof', technique='homogeneity (degree) inference over all float comparisons and coordinate constructions in MIR paths; provenance of event points; path-sensitive tabulation of the vertical-predecessor rows of compute_fields',
        text='Decides soundly and completely the power-of-two scaling clause: every float comparison reachable from the API relates quantities of '
             'equal degree (or 0/inf) and every constructed/stored coordinate has degree 1, hence every operation and branch commutes exactly with '
             'multiplication by 2^k (exponent-dependent predicates such as is_normal are reported). Of the translation clause only a structural necessary '
             'condition is checked (event points are input vertices, the clamped crossing point or existing event points - never re-computed overlap '
             'ends). Of the mirror / transposition / quarter-turn clause one structural necessary condition is checked: the pose-dependent rows of the classification (a vertical predecessor compensates in/out in both operand branches and is never prev_in_result; is_vertical is the exact test x0 == x1) are what the geometry dictates, like the ordinary rows a transposed pose runs through; equality of the regions of two poses is NOT decided (the sweep is asymmetric by design).',
        note='Trusted: degree table of external callees (Float::min/max/abs, Into<f64>, next_after, robust::orient2d 1,1,1->2 with data-scaled error '
             'bounds), IEEE-754 exactness of 2^k scaling absent overflow/underflow; rustc MIR; extractor and rule code. Only the scaling clause is claimed as decided; the other clauses by the named necessary conditions.',
        design='4/C08'),
    'C09': dict(level='other', technique=TECH_PROV + '; comparison-atom table of the shortcut',
        text='Decides that each shortcut fires only under its geometric precondition: box accumulation (4 updates, operand routing), strict '
             'disjointness test (16 rows), early break iff Intersection beyond min(max.x) / Difference beyond subject max.x (the tests made before an event '
             'is processed are evaluated for 4 operations x 27 orderings of event.x, sbbox.max.x, cbbox.max.x), event recorded before break.',
        note=TB + 'Equality of results with/without far parts is a relation between two runs and is not decided.', design='4/C09'),
    'C10': dict(level='other', technique='width-specific-code inventory with control; sibling table of the two NextAfter impls; provenance of orient2d arguments; degree inference; type-level witnesses',
        text='Decides that both instantiations run one generic body (no float-width casts, NumCast/size_of/TypeId/epsilon calls), that the two '
             'nextafter impls are mirror images stepping to +/-INFINITY of their own type, that signed_area feeds (x,y) of p0,p1,p2 to orient2d in '
             'order, that no precision-specific constant exists (R-degree) and that all pairings type-check for f32 and f64. Accuracy of f32 results and '
             'coordinate-wise equality with f64 are numeric and not decided.',
        note=TB, design='4/C10'),
    'C12': dict(
        level='proof', technique='effect/state inventory over type-checked MIR (rustc_private driver) + call-graph reachability',
        text='Whole property, modulo the trusted base: every obligation family (operands behind & to Freeze types, unsafe confined '
             'to two shape-checked accessors, no statics/thread-locals, no ambient-effect callee in any body, hash sets used for '
             'membership only, no address-dependent operation, all &mut state local to the call) is discharged on the MIR of the '
             'current tree; zero-count scans are validated against a positive-control crate on every run.',
        note='Trusted: rustc type checker/MIR, std collections and IEEE arithmetic deterministic, std callees outside the banned '
             'module list have no ambient effects. Default feature configuration; debug-booleanop adds println!/File::create (listed in thorough evidence).',
        design='4/C12'),
    'C13': dict(level='other', technique=TECH_PROV + ' on loop-body paths',
        text='Decides the bookkeeping every sub-segment goes through: one mutually linked pair per non-collapsed edge with exactly one left flag, the '
             'four links / inheritance / flag swap of divide_segment and that its one-ulp move of the division point happens for exactly corner case 1, the neighbour-check protocol of the sweep loop on insertion and before removal. '
             'Planarity and coverage of actual sub-segments are not decided.',
        note=TB, design='4/C13'),
    'C14': dict(level='other', technique=TECH_TABLE,
        text='Decides all classification tables completely (propagation 17 rows, selection 64, transitions incl. coincident twins, prev_in_result, '
             'twin typing) and the recomputation protocol; found F1 and F2 on the pinned tree (both repaired). The choice of predecessor (float order) '
             'is not decided.',
        note=TB, design='4/C14'),
    'C15': dict(level='other', technique='exhaustive sign-atom table of SweepEvent::cmp (1728 configurations, both argument orders) vs stated priority; path-signature symmetry of compare_segments',
        text='Decides: cmp never returns Equal; over every configuration of coordinate-difference signs, left flags, presence of other events, '
             'orientation sign and operands, cmp(a,b) is the opposite of cmp(b,a) and follows the stated priority, except on the documented residue (same '
             'point, kind, collinear, operand); compare_segments returns Equal only under Rc::ptr_eq and is one decision function of (older, newer) '
             'negated exactly when swapped (its decision list is evaluated against the documented one); inside the residue cmp is never Less in both directions (the re-sorting loop would not terminate); the sweep line, heap and bubble sort consume these orders, and the bubble sort compares every neighbour pair and repeats until a pass swaps nothing. Transitivity and agreement with the vertical order '
             'of real configurations are not decided.',
        note=TB + 'The model of is_below / orient2d sign under argument permutation is checked against the code.', design='4/C15'),
    'C16': dict(level='other', technique=TECH_TABLE + ' with a symbolic model of the local events vector',
        text='Decides the return-code / division-request / edge-type table of possible_intersection (28 cases), the same-point rule (N2 is the listed '
             'known finding), clamping (the clamp and the common bounding box are evaluated on concrete positions), endpoint guards, the crossing / parallel / collinear classification by the two determinants and the parameter-range structure of intersection_impl, and the exact algebra of the reported point '
             '(rational-function identity with the line intersection; helper bodies included). Disjointness classification and accuracy '
             'are numeric and not decided.',
        note=TB, design='4/C16'),
    'C17': dict(level='other', technique='path tables of size bookkeeping, membership tests and comparator direction; symbolic in-order sequences of tree shapes per restructuring step; inventory of moves in lookup code; mirror-signature comparison of sibling bodies',
        text='Decides: length counters change by exactly one exactly on the paths that add/remove/yield an element; code reachable from the &self '
             'lookups moves only Box<Node>/Option<Box<Node>> (never node contents, keys or values) and frees no node, so references handed out stay valid; '
             'comparator is called (query, &node.key) with Less->left / Greater->right in next/prev/insert/splay; next/next_back, min/max, pop_left/right, the '
             'two arms of splay are mirror images; SplaySet delegates to the like-named SplayTree method and returns what a sorted set returns as a function of the delegate\'s result (insert = was absent, remove = was present, is_empty = len 0, keys of pairs); a new tree is empty; insert / remove decide at the root only after splaying; get/get_mut/find_key/remove decide membership by '
             'comparator == Equal after splaying for the key and splay stops only on Equal or a missing child; insert, remove, the consuming iterator and '
             'every iteration / the exit of splay keep the in-order sequence of nodes (loop invariant of splay assumed at the head, shown preserved). '
             'Equivalence with a reference sorted map over all '
             'histories is not decided.',
        note=TB, design='4/C17'),
    'C18': dict(level='other', technique='call-graph SCC over resolved callees and drop glue; typestate of node drops on MIR paths',
        text='Decides that no recursion is reachable from the splay/boolean API and that the recursive drop glue of Node only runs on nodes whose '
             'children were taken: owners have Drop impls that empty their field, the teardown loop is proved shallow, 15 of 21 node-drop sites are '
             'proved, 6 overwrite drops are an explicit ledger. Found K1 on the pinned tree (repaired).',
        note=TB + 'std Vec/BinaryHeap/HashSet/Rc drops are iterative; user comparators do not re-enter the tree.', design='4/C18'),
}

NOT_APPLICABLE = {
    'C11': 'chained-call behaviour is a function of run-time geometry of intermediate results; the only static clause (the return '
           'type is an operand type) is enforced by the compiler and too weak to stand for the property',
}

PENDING = 'static check for this property is being built in this session (see DESIGN.md section 4); not claimed until its check exists'

def main():
    props = [json.loads(l)['id'] for l in open(os.path.join(V, 'properties.jsonl'))]
    checks = []
    for pid in props:
        if pid in CLAIMS:
            c = CLAIMS[pid]
            checks.append({
                'property_id': pid,
                'quick_cmd': './check %s --tier quick' % pid,
                'thorough_cmd': './check %s --tier thorough' % pid,
                'evidence_file': 'evidence/%s.json' % pid,
                'replay_cmd_template': './check %s --tier quick  # re-runs the rule set; the report at {path} names rule, instance, file:line' % pid,
                'engine': 'bofacts+rules',
                'level_claimed': {'category': c['level'], 'text': c['text'], 'design_ref': 'DESIGN.md section ' + c['design']},
                'level_note': c['note'],
                'technique': c['technique'],
            })
    na = [{'property_id': p, 'reason': NOT_APPLICABLE.get(p, PENDING)} for p in props if p not in CLAIMS]
    m = {
        'version': 1,
        'setup_cmd': './setup.sh',
        'hooks': {
            'guard': 'verif_hooks',
            'enable': 'none: static analysis needs no instrumentation; the guard name is reserved and unused',
            'baseline_off_cmd': 'cd /repo && cargo test --workspace --no-fail-fast --offline',
            'source_commits': SOURCE_COMMITS,
            'add_only': True,
        },
        'engines': [
            {'name': 'bofacts', 'path': 'bofacts/', 'serves_properties': sorted(CLAIMS),
             'kind_free_text': 'rustc_private driver (RUSTC_WORKSPACE_WRAPPER under cargo +nightly check, mir-opt-level 0): dumps drop-elaborated MIR with resolved callees, ADT/item/unsafe/drop-glue/type-reach facts as JSON'},
            {'name': 'rules', 'path': 'sa/', 'serves_properties': sorted(CLAIMS),
             'kind_free_text': 'Python rule library over the facts: path-sensitive abstract evaluation of MIR (decision tables, provenance), dominance, call graph with drop glue, inventories with floors and positive controls'},
        ],
        'checks': checks,
        'not_applicable': na,
        'notes': 'Technique family: static analysis only. No check runs library code. See DESIGN.md for what each check decides and what it does not.',
    }
    json.dump(m, open(os.path.join(V, 'MANIFEST.json'), 'w'), indent=1)
    print('MANIFEST.json: %d checks, %d not_applicable' % (len(checks), len(na)))

SOURCE_COMMITS = ['50658a9', 'e492d0f', 'eba8d94']

if __name__ == '__main__':
    main()
